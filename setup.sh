#!/usr/bin/env bash
# Offline setup: warm the Go build cache for every flavour the checks use.
set -u
HERE=$(cd "$(dirname "$0")" && pwd)
export GOFLAGS=-mod=mod GOPROXY=off GOSUMDB=off GOTOOLCHAIN=local
cd "$HERE/harness" || exit 1
mkdir -p "$HERE/bin" "$HERE/work" "$HERE/evidence" "$HERE/replays"
rc=0
go build -tags verif -o "$HERE/bin/vcheck_release" ./cmd/vcheck || rc=1
go build -tags verif,debug -o "$HERE/bin/vcheck_debug" ./cmd/vcheck || rc=1
go build -race -tags verif -o "$HERE/bin/vcheck_race" ./cmd/vcheck || rc=1
go build -gcflags=all=-N -tags verif -o "$HERE/bin/vcheck_noopt" ./cmd/vcheck || rc=1
go build -gcflags='all=-N -l' -tags verif -o "$HERE/bin/vcheck_nooptl" ./cmd/vcheck || rc=1
# thorough-only flavours: warm if the toolchains are usable, never fail setup on them
go build -asan -tags verif -o "$HERE/bin/vcheck_asan" ./cmd/vcheck || echo "note: asan flavour not built"
PATH=/opt/veriftools/go1.26.8/bin:$PATH go build -tags verif -o "$HERE/bin/vcheck_go126" ./cmd/vcheck || echo "note: go1.26.8 flavour not built"
GOARCH=386 go build -tags verif -o "$HERE/bin/vcheck_386" ./cmd/vcheck || echo "note: 386 flavour not built"
exit $rc
