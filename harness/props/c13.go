package props

import (
	"github.com/openacid/low/bitmap"

	"verif/internal/gen"
	"verif/internal/mon"
)

// C13 — NextOne/PrevOne find the nearest 1-bit inside a range.
// Oracle: linear scans of the bits (two sweeps per bitmap give, for every position, the nearest
// 1-bit at or after it and the nearest 1-bit before it; a query then clips that to the range).

func init() {
	register(&mon.Prop{
		ID:    "C13",
		Level: "exploration",
		Rule: "ALL ranges 0 <= i <= end <= 64*len (i inside) of bitmaps of 1..3 words: zoo bitmaps plus a structured family with 1..2 all-zero words between 1-bits and 1-bits at offsets 0 and 63; " +
			"bitmaps of 4..64 words with range ends drawn from {word boundaries +-1, positions of 1-bits +-1, random}. Non-trivial+distinct = hash of (bitmap) for all-range batches with at least one 0 and one 1, " +
			"hash of (bitmap, i, end) for sampled ranges.",
		Assumptions: []string{"domain as stated: i inside the bitmap, i <= end <= 64*len, end >= 1 for PrevOne"},
		Flavours:    releaseAnd386,
		Required: []string{"long-run/calls>=100000-per-function", "next/in-first-word", "next/after-skipped-zero-words", "next/next-word", "next/none", "next/found-but-beyond-end", "range/empty", "range/i-aligned", "range/end-aligned",
			"prev/in-last-word", "prev/after-skipped-zero-words", "prev/prev-word", "prev/none", "prev/found-but-before-i", "bitmap>=500-words", "bitmap>=65536-words", "bitmap=2^31-64-bits", "arguments-in-read-only-memory"},
		Families: func(c *mon.Config) []mon.Family {
			return []mon.Family{
				{Name: "cold-start", N: 1, Serial: true, Run: func(w *mon.W, _ int) {
					if !coldFirst(w, coldPick(coldBitmapCalls(), "NextOne", "PrevOne")) {
						return
					}
					defer coldLast(w, coldPick(coldBitmapCalls(), "NextOne", "PrevOne"))
					for _, b := range [][]uint64{{0}, {^uint64(0)}, {0, 0, 0}, {1 << 63}, {1}} {
						if !c13All(w, b) {
							return
						}
					}
					w.Bucket("cold-start")
				}},
				{Name: "all-ranges-structured", N: 3 * 4 * 4 * 3, Run: c13Structured},
				{Name: "all-ranges-zoo", Env: 2, N: c.Pick(1500, 300000), Run: c13AllZoo},
				{Name: "sampled-long", Env: 10, N: c.Pick(20000, 4000000), Run: c13Long},
				{Name: "huge-bitmap", N: 1, Run: c13Huge},
				lrFamily(c13LongRun),
			}
		},
	})
}

type c13Cov struct{ b [13]int64 }

var c13Names = [13]string{"next/in-first-word", "next/after-skipped-zero-words", "next/next-word", "next/none", "next/found-but-beyond-end", "range/empty", "range/i-aligned", "range/end-aligned",
	"prev/in-last-word", "prev/after-skipped-zero-words", "prev/prev-word", "prev/none", "prev/found-but-before-i"}

func (c *c13Cov) flush(w *mon.W) {
	for i, v := range c.b {
		w.BucketN(c13Names[i], v)
	}
}

type c13Tab struct {
	next []int32 // next[p] = smallest q >= p with bit q set, or big
	prev []int32 // prev[p] = largest q < p with bit q set, or -1
}

func c13Tables(bm []uint64) c13Tab {
	n := 64 * len(bm)
	t := c13Tab{make([]int32, n+1), make([]int32, n+1)}
	t.next[n] = 1 << 30
	for p := n - 1; p >= 0; p-- {
		if bitAt(bm, p) == 1 {
			t.next[p] = int32(p)
		} else {
			t.next[p] = t.next[p+1]
		}
	}
	t.prev[0] = -1
	for p := 1; p <= n; p++ {
		if bitAt(bm, p-1) == 1 {
			t.prev[p] = int32(p - 1)
		} else {
			t.prev[p] = t.prev[p-1]
		}
	}
	return t
}

func c13One(w *mon.W, bm []uint64, t *c13Tab, i, end int, cov *c13Cov) bool {
	w.Op, w.A, w.B = "NextOne", int64(i), int64(end)
	got := bitmap.NextOne(bm, int32(i), int32(end))
	exp := t.next[i]
	if int(exp) >= end {
		exp = -1
	}
	if got != exp {
		w.Fail("NextOne", mon.D{"words": truncW(bm, 6), "nwords": len(bm), "i": i, "end": end, "got": got, "expected": exp})
		return false
	}
	// coverage
	switch {
	case exp == -1 && int(t.next[i]) < 64*len(bm):
		cov.b[4]++
	case exp == -1:
		cov.b[3]++
	case int(exp)>>6 == i>>6:
		cov.b[0]++
	case int(exp)>>6 == i>>6+1:
		cov.b[2]++
	default:
		cov.b[1]++
	}
	if i == end {
		cov.b[5]++
	}
	if i&63 == 0 {
		cov.b[6]++
	}
	if end&63 == 0 {
		cov.b[7]++
	}
	if end >= 1 {
		w.Op = "PrevOne"
		gp := bitmap.PrevOne(bm, int32(i), int32(end))
		ep := t.prev[end]
		if int(ep) < i {
			ep = -1
		}
		if gp != ep {
			w.Fail("PrevOne", mon.D{"words": truncW(bm, 6), "nwords": len(bm), "i": i, "end": end, "got": gp, "expected": ep})
			return false
		}
		lw := (end - 1) >> 6
		switch {
		case ep == -1 && t.prev[end] >= 0:
			cov.b[12]++
		case ep == -1:
			cov.b[11]++
		case int(ep)>>6 == lw:
			cov.b[8]++
		case int(ep)>>6 == lw-1:
			cov.b[10]++
		default:
			cov.b[9]++
		}
	}
	return true
}

// c13Arg places the bitmap where the queries will read it: in the worker's reused, poisoned argument buffer or, for
// every third case, in a read-only mapping (ro.go).
func c13Arg(w *mon.W, bm []uint64) ([]uint64, func()) {
	if w.Idx()%3 == 1 {
		roReset(w)
		v := roWords(w, bm)
		if release, ok := roSeal(w); ok {
			w.Bucket("arguments-in-read-only-memory")
			return v, release
		}
	}
	v, guard := argW(w, bm)
	return v, func() {
		if !guard() {
			w.Fail("NextPrev/wrote-outside-len-of-argument", mon.D{"nwords": len(bm)})
		}
	}
}

func c13All(w *mon.W, bm []uint64) bool {
	bm, done := c13Arg(w, bm)
	defer done()
	orig := cloneWords(bm)
	t := c13Tables(orig)
	n := 64 * len(bm)
	var cov c13Cov
	var ev int64
	for i := 0; i < n; i++ {
		for end := i; end <= n; end++ {
			if !c13One(w, bm, &t, i, end, &cov) {
				return false
			}
			ev += 2
		}
	}
	cov.flush(w)
	w.Eval(ev)
	w.Extra("ranges_enumerated", ev/2)
	if !eqWords(bm, orig) {
		w.Fail("NextPrev/input-modified", mon.D{"words": truncW(orig, 6)})
		return false
	}
	if nontrivialBitmap(orig) {
		w.Distinct(gen.HashWords(orig))
	}
	return true
}

func c13Structured(w *mon.W, idx int) {
	// 1-bits only in the first and last word (offsets 0 / 63 / both / random), 1..2 (and 0) empty words between them
	gap := idx % 3
	a := (idx / 3) % 4
	b := (idx / 12) % 4
	rep := idx / 48
	pat := func(k int) uint64 {
		switch k {
		case 0:
			return 1
		case 1:
			return 1 << 63
		case 2:
			return 1 | 1<<63
		}
		return gen.ZooWord(w.Rng, 7) | 1<<uint(w.Rng.Intn(64))
	}
	bm := []uint64{pat(a)}
	for g := 0; g < gap; g++ {
		bm = append(bm, 0)
	}
	bm = append(bm, pat(b))
	if rep == 1 {
		bm = append(bm, 0)
	}
	if rep == 2 {
		bm = append([]uint64{0}, bm...)
	}
	if c13All(w, bm) {
		w.Sample(func() interface{} { return mon.D{"words": hexWords(bm), "ranges": "all 0<=i<=end<=64*len"} })
	}
}

func c13AllZoo(w *mon.W, idx int) {
	bm := gen.ZooBitmap(w.Rng, 1+idx%3)
	if c13All(w, bm) {
		w.Sample(func() interface{} { return mon.D{"words": hexWords(bm), "ranges": "all 0<=i<=end<=64*len"} })
	}
}

func c13Long(w *mon.W, idx int) {
	r := w.Rng
	nw := 4 + r.Intn(61)
	if idx%400 == 399 {
		nw = 65536 + r.Intn(5000) // beyond 2^16 words
		w.Bucket("bitmap>=65536-words")
		w.Tick()
	} else if idx%40 == 39 {
		nw = 500 + r.Intn(2500) // long scans over thousands of words
		w.Bucket("bitmap>=500-words")
	}
	bm := gen.ZooBitmap(r, nw)
	if idx%10 == 7 {
		bm = gen.RunBitmap(r, 60+idx%300)
		nw = len(bm)
		w.Bucket("bitmap/run-structured")
	}
	if idx%10 != 7 && (r.Intn(3) == 0 || nw >= 500) {
		// long runs of empty words
		for k := range bm {
			if r.Intn(4) != 0 {
				bm[k] = 0
			}
		}
	}
	bm, done := c13Arg(w, bm)
	defer done()
	orig := cloneWords(bm)
	t := c13Tables(orig)
	n := 64 * nw
	var ones []int
	for p := 0; p < n && len(ones) < 64; p++ {
		if bitAt(bm, p) == 1 {
			ones = append(ones, p)
		}
	}
	pick := func() int {
		v := 0
		switch r.Intn(4) {
		case 0:
			v = 64*r.Intn(nw+1) + r.Pick(-1, 0, 1)
		case 1:
			if len(ones) > 0 {
				v = ones[r.Intn(len(ones))] + r.Pick(-1, 0, 1)
			}
		default:
			v = r.Intn(n + 1)
		}
		if v < 0 {
			v = 0
		}
		if v > n {
			v = n
		}
		return v
	}
	var cov c13Cov
	for k := 0; k < 60; k++ {
		i, end := pick(), pick()
		if i > end {
			i, end = end, i
		}
		if i >= n {
			i = n - 1
		}
		if !c13One(w, bm, &t, i, end, &cov) {
			return
		}
		w.Eval(2)
		if nontrivialBitmap(orig) {
			w.Distinct(gen.Hash64(gen.HashWords(orig), uint64(i), uint64(end)))
		}
	}
	cov.flush(w)
	if !eqWords(bm, orig) {
		w.Fail("NextPrev/input-modified", mon.D{"words": truncW(orig, 6)})
	}
	w.Sample(func() interface{} { return mon.D{"nwords": nw, "sampled_ranges": 60} })
}

// c13Huge: a bitmap of 2^25-1 words (2^31-64 bits, the largest whose positions fit an int32) with a
// few ones at its head, around 2^30 and in its last words; ranges near the top of the int32 domain.
// The pages in between are never touched.
func c13Huge(w *mon.W, _ int) {
	for _, nw := range []int{1<<25 - 1, 1 << 25} {
		if !c13HugeN(w, nw) {
			return
		}
	}
}

func c13HugeN(w *mon.W, nw int) bool {
	n := 1<<31 - 1 // positions are int32: the last addressable end
	if n64 := 64 * int64(nw); n64 < int64(n) {
		n = int(n64)
	}
	bm := make([]uint64, nw)
	ones := []int{3, 1 << 20, 1<<30 + 5, n - 700, n - 65, n - 1}
	for _, p := range ones {
		setBit(bm, p)
	}
	next := func(i, end int) int32 {
		for _, p := range ones {
			if p >= i && p < end {
				return int32(p)
			}
		}
		return -1
	}
	prev := func(i, end int) int32 {
		for k := len(ones) - 1; k >= 0; k-- {
			if ones[k] >= i && ones[k] < end {
				return int32(ones[k])
			}
		}
		return -1
	}
	type q struct{ i, end int }
	var qs []q
	for _, e := range []int{n, n - 1, n - 2, n - 63, n - 64, n - 65, n - 200, n - 256, n - 257, n - 699, n - 701} {
		for _, d := range []int{0, 1, 10, 63, 64, 65, 200, 255, 256, 257, 300, 600, 1000, 5000} {
			if e-d >= 0 && e-d < n { // i must lie inside the bitmap (stated domain)
				qs = append(qs, q{e - d, e})
			}
		}
	}
	qs = append(qs, q{0, 4}, q{0, 3}, q{4, 1 << 20}, q{4, 1<<20 + 1}, q{1<<30 - 300, 1<<30 + 300}, q{1<<30 + 6, 1<<30 + 70000})
	for _, x := range qs {
		w.Op, w.A, w.B = "NextOne(huge)", int64(x.i), int64(x.end)
		if g, e := bitmap.NextOne(bm, int32(x.i), int32(x.end)), next(x.i, x.end); g != e {
			w.Fail("NextOne/huge-bitmap", mon.D{"nwords": nw, "i": x.i, "end": x.end, "got": g, "expected": e})
			return false
		}
		if x.end >= 1 {
			w.Op = "PrevOne(huge)"
			if g, e := bitmap.PrevOne(bm, int32(x.i), int32(x.end)), prev(x.i, x.end); g != e {
				w.Fail("PrevOne/huge-bitmap", mon.D{"nwords": nw, "i": x.i, "end": x.end, "got": g, "expected": e})
				return false
			}
		}
		w.Tick()
	}
	w.Eval(int64(2 * len(qs)))
	w.Bucket("bitmap=2^31-64-bits")
	w.Distinct(gen.Hash64(0x4096, uint64(len(qs))))
	w.Sample(func() interface{} { return mon.D{"nwords": nw, "ones_at": ones, "ranges": len(qs)} })
	return true
}
