package props

import (
	"bytes"
	"fmt"
	"github.com/golang/protobuf/protoc-gen-go/descriptor"
	"io"
	"runtime"
	"sync"

	proto "github.com/golang/protobuf/proto"
	"github.com/openacid/low/pbcmpl"

	"verif/internal/gen"
	"verif/internal/mon"
)

// C06 — pbcmpl frames round-trip: Marshal then Unmarshal returns message, version, size.

var c06BodyLens = []int{0, 1, 2, 31, 32, 33, 127, 128, 511, 512, 513, 4096, 70000}

func init() {
	register(&mon.Prop{
		ID:    "C06",
		Level: "exploration",
		Rule: "frames: 5 message kinds (legacy Marshal/Unmarshal type with/without GetVersion, protobuf BytesValue/StringValue, BytesValue embedded in a versioned struct) x body lengths " +
			"{0,1,2,31,32,33,127,128,511,512,513,4096,70000,random} x version lengths 0..16 (interior NUL, high bytes); streams of 1..8 frames x 5 reader chunkings. " +
			"Observation points: recording io.Writer, counting/chunking io.Reader. Non-trivial+distinct = hash of (kind, version, body) for frames with a non-empty body or a non-default version; " +
			"streams: hash of the stream bytes and chunking with >= 2 frames.",
		Assumptions: []string{"proto.Marshal/proto.Equal of golang/protobuf are trusted for the real protobuf messages",
			"versions are <= 16 bytes and not NUL-terminated (stated domain)"},
		Flavours: releaseAnd386,
		Required: []string{"long-run/calls>=100000-per-function", "kind/legacy", "kind/legacy+version", "kind/BytesValue", "kind/StringValue", "kind/BytesValue+version",
			"body/0", "body/1", "body/70000", "ver/len=0", "ver/len=16", "ver/interior-NUL", "chunk/whole", "chunk/one-byte", "chunk/random", "chunk/data+EOF", "chunk/zero-reads",
			"stream/frames=1", "stream/frames>=4", "stream/eof-after-last", "target/reused", "target/reused-for-empty-body", "stream/frame>1MiB-followed-by-frames", "reader/std-type", "writer/std-type", "concurrent/own-writers-and-readers", "legacy/marshal-returns-own-slice", "reader/has-Len-meaning-buffered-now", "marshal/rejected-message-then-valid-one"},
		Families: func(c *mon.Config) []mon.Family {
			return []mon.Family{
				{Name: "cold-start", N: 1, Serial: true, Run: func(w *mon.W, _ int) {
					l := coldPbCalls()
					if coldFirst(w, l) && coldLast(w, l) {
						w.Bucket("cold-start")
					}
				}},
				{Name: "frames", N: pbNKinds * (len(c06BodyLens) + 1) * 17 * c.Pick(2, 100), Run: c06Frames},
				{Name: "streams", Env: 10, N: c.Pick(20000, 3000000), Run: c06Streams},
				{Name: "reused-target", Env: 5, N: pbNKinds * chNModes * c.Pick(10, 2000), Run: c06Reuse},
				{Name: "concurrent-calls", Env: 3, N: c.Pick(300, 30000), Run: c06Concurrent},
				{Name: "big-body-streams", Env: 2, N: pbNKinds * 3 * 4 * c.Pick(1, 6), Run: c06BigStreams},
				lrFamily(c06LongRun),
			}
		},
	})
}

// c06CheckMarshal marshals one message and checks the four size figures, the wire bytes and
// ReadHeader. It returns the frame as written by the library.
func c06CheckMarshal(w *mon.W, c pbCase) ([]byte, bool) {
	msg := c.msg()
	body := c.body()
	// one case in four: first a message the encoder rejects (a proto2 message with an unset required field: the error
	// arrives after part of it was encoded). The caller gets the error; the next, valid message must be unaffected.
	if n, _ := w.State["c06rej"].(int); true {
		w.State["c06rej"] = n + 1
		if n&3 == 0 {
			w.Op = "Marshal(rejected message)"
			bad := &descriptor.UninterpretedOption{Name: []*descriptor.UninterpretedOption_NamePart{{}}, IdentifierValue: proto.String("stale-identifier"), StringValue: []byte("stale bytes of a rejected message")}
			var sink bytes.Buffer
			if _, err := pbcmpl.Marshal(&sink, bad); err != nil {
				w.Bucket("marshal/rejected-message-then-valid-one")
			}
		}
	}
	// a message is the caller's object: it may ask for the size, change the message and only then marshal it (round 12
	// seeded a one-entry memo through which the encoding made for Size was handed to the next Marshal of the same pointer)
	if l, ok := c06Legacy(msg); ok && len(body)&1 == 0 {
		saved := l.Payload
		l.Payload = append([]byte("an earlier state of this message: "), saved...)
		w.Op = "Size(earlier state of the message)"
		if sz := pbcmpl.Size(msg); sz != 32+len(l.Payload) {
			w.Fail("Size/not-header-plus-body", mon.D{"kind": pbKindNames[c.Kind], "got": sz, "expected": 32 + len(l.Payload)})
			return nil, false
		}
		l.Payload = saved
		w.Bucket("legacy/size-then-change-then-marshal")
	}
	w.Op, w.A, w.B = "Marshal", int64(c.Kind), int64(len(body))
	rec := &quotaWriter{quota: -1}
	n, err := pbcmpl.Marshal(rec, msg)
	wire := rec.buf.Bytes()
	w.Eval(1)
	d := func() mon.D {
		return mon.D{"kind": pbKindNames[c.Kind], "version": fmt.Sprintf("%q", c.Ver), "body_len": len(body)}
	}
	if err != nil {
		dd := d()
		dd["err"] = err.Error()
		w.Fail("Marshal/error-on-good-writer", dd)
		return nil, false
	}
	// the messages this worker marshalled earlier are still the caller's: a legacy message whose Marshal returns its
	// own slice must find that slice unchanged after later calls (a pooled encode buffer that adopted it was seeded)
	kept, _ := w.State["c06msgs"].([]c06KeptMsg)
	for _, k := range kept {
		if !bytes.Equal(k.m.Payload, k.saved) || len(k.m.Payload) != len(k.saved) {
			w.State["c06msgs"] = []c06KeptMsg(nil)
			w.Fail("Marshal/earlier-message-changed-by-later-call", mon.D{"earlier_payload_len": len(k.saved), "what": "the payload slice of a legacy message marshalled earlier (its Marshal returns that slice itself) no longer holds what the caller put there"})
			return nil, false
		}
	}
	if l, ok := c06Legacy(msg); ok && l.keep {
		if len(kept) >= 4 {
			kept = kept[1:]
		}
		w.State["c06msgs"] = append(kept, c06KeptMsg{l, append([]byte(nil), l.Payload...)})
		w.Bucket("legacy/marshal-returns-own-slice")
	}
	w.Op = "Size"
	sz, hs := pbcmpl.Size(msg), pbcmpl.HeaderSize(msg)
	w.Eval(2)
	if int(n) != len(wire) || sz != len(wire) || hs != 32 || hs+len(body) != len(wire) {
		dd := d()
		dd["returned_n"], dd["bytes_on_wire"], dd["Size"], dd["HeaderSize"] = n, len(wire), sz, hs
		w.Fail("Marshal/size-figures-disagree", dd)
		return nil, false
	}
	if !bytes.Equal(wire[32:], body) {
		w.Fail("Marshal/body-bytes", d())
		return nil, false
	}
	// the same message into writer types of the standard library: same count, same bytes
	sel, _ := w.State["c06wsel"].(int)
	w.State["c06wsel"] = sel + 1
	for _, j := range []int{sel, sel + 3} {
		sw := newStdWriter(j)
		w.Op = "Marshal(" + sw.name + ")"
		n2, err2 := pbcmpl.Marshal(sw.w, msg)
		w.Eval(1)
		var got []byte
		if sw.written != nil {
			got = sw.written()
		}
		if err2 != nil || int(n2) != len(wire) || (sw.written != nil && !bytes.Equal(got, wire)) {
			dd := d()
			dd["writer_type"], dd["returned_n"], dd["err"], dd["bytes_at_sink"], dd["expected_bytes"] = sw.name, n2, errStr(err2), len(got), len(wire)
			w.Fail("Marshal/std-writer", dd)
			return nil, false
		}
		w.Bucket("writer/std-type")
	}
	w.Op = "ReadHeader"
	cr := newChunkReader(wire, chWhole, w.Rng)
	hn, h, herr := pbcmpl.ReadHeader(cr)
	w.Eval(1)
	if herr != nil || hn != 32 || cr.delivered != 32 || h == nil || h.GetVersion() != c.expVer() || h.GetHeaderSize() != 32 || h.GetBodySize() != int64(len(body)) {
		dd := d()
		dd["n"], dd["consumed"], dd["err"] = hn, cr.delivered, errStr(herr)
		if h != nil {
			dd["got_version"], dd["got_header_size"], dd["got_body_size"] = fmt.Sprintf("%q", h.GetVersion()), h.GetHeaderSize(), h.GetBodySize()
		}
		dd["expected_version"] = fmt.Sprintf("%q", c.expVer())
		w.Fail("ReadHeader/fields", dd)
		return nil, false
	}
	// the Header returned for the PREVIOUS frame of this worker must still say what it said then
	// (a Header living in a pooled or reused buffer changes under the caller's feet)
	if prev, ok := w.State["c06hdr"].(*c06Held); ok && prev != nil {
		if prev.h.GetVersion() != prev.ver || prev.h.GetHeaderSize() != 32 || prev.h.GetBodySize() != prev.body {
			w.Fail("ReadHeader/earlier-returned-header-changed-by-later-call", mon.D{"earlier_version": fmt.Sprintf("%q", prev.ver), "earlier_body_size": prev.body,
				"now_version": fmt.Sprintf("%q", prev.h.GetVersion()), "now_header_size": prev.h.GetHeaderSize(), "now_body_size": prev.h.GetBodySize()})
			w.State["c06hdr"] = (*c06Held)(nil)
			return nil, false
		}
	}
	w.State["c06hdr"] = &c06Held{h: h, ver: c.expVer(), body: int64(len(body))}
	if exp := c.frame(); !bytes.Equal(wire, exp) {
		dd := d()
		dd["got_header"], dd["expected_header"] = fmt.Sprintf("%x", wire[:32]), fmt.Sprintf("%x", exp[:32])
		w.Fail("Marshal/header-layout", dd)
		return nil, false
	}
	return append([]byte(nil), wire...), true
}

var c06NStd = len(stdReaders(nil))

type c06KeptMsg struct {
	m     *pbLegacy
	saved []byte
}

func c06Legacy(m proto.Message) (*pbLegacy, bool) {
	switch x := m.(type) {
	case *pbLegacy:
		return x, true
	case *pbLegacyVer:
		return &x.pbLegacy, true
	}
	return nil, false
}

// c06CheckStream unmarshals every frame of a stream through one chunking reader.
func c06CheckStream(w *mon.W, cases []pbCase, frames [][]byte, mode int, reuse bool) bool {
	var stream []byte
	for _, f := range frames {
		stream = append(stream, f...)
	}
	// mode < chNModes: our chunking reader; above: a reader type of the standard library (stdReaders)
	var cr io.Reader
	var delivered func() int
	modeName := ""
	if mode < chNModes {
		c := newChunkReader(stream, mode, w.Rng)
		cr, delivered, modeName = c, func() int { return c.delivered }, chNames[mode]
		if n, _ := w.State["c06len"].(int); n&1 == 1 {
			// every other stream: the same reader, but with a Len() method that reports what is buffered right now
			cr = lenReader{c}
			w.Bucket("reader/has-Len-meaning-buffered-now")
		}
		if n, _ := w.State["c06len"].(int); true {
			w.State["c06len"] = n + 1
			if n%6 == 4 {
				// a reader that hands over the last bytes of a frame's BODY together with a transient, non-EOF error
				// (n > 0, err != nil in one Read: a quota or deadline reader) and carries on afterwards: the bytes come
				// first, each frame was delivered completely
				var ends []int
				at := 0
				for _, f := range frames {
					at += len(f)
					if len(f) > 32 {
						ends = append(ends, at)
					}
				}
				cr = &boundaryErrReader{r: cr, ends: ends}
				w.Bucket("reader/error-with-the-last-bytes-of-a-body")
			}
		}
	} else {
		sr := stdReaders(stream)[(mode-chNModes)%c06NStd]
		cr, delivered, modeName = sr.r, sr.consumed, sr.name
		w.Bucket("reader/std-type")
	}
	consumed := 0
	// targets are reused between frames of the same kind (odd chunking modes; always when reuse is
	// forced): "yields an equal message" must also hold when the target still holds an earlier frame
	targets := map[int]proto.Message{}
	for i, c := range cases {
		into := c.empty()
		if reuse || mode&1 == 1 {
			if t, ok := targets[c.Kind]; ok {
				into = t
				w.Bucket("target/reused")
				if i > 0 && len(frames[i]) == 32 {
					w.Bucket("target/reused-for-empty-body")
				}
			} else {
				targets[c.Kind] = into
			}
		}
		w.Op, w.A, w.B = "Unmarshal", int64(i), int64(mode)
		n, ver, err := pbcmpl.Unmarshal(cr, into)
		w.Eval(1)
		consumed += len(frames[i])
		d := func() mon.D {
			return mon.D{"frame": i, "of": len(cases), "kind": pbKindNames[c.Kind], "version": fmt.Sprintf("%q", c.Ver), "body_len": len(frames[i]) - 32, "chunking": modeName,
				"returned_n": n, "returned_version": fmt.Sprintf("%q", ver), "err": errStr(err), "reader_delivered": delivered(), "expected_consumed": consumed}
		}
		if err != nil {
			w.Fail("Unmarshal/error-on-valid-frame", d())
			return false
		}
		if dl := delivered(); int(n) != len(frames[i]) || (dl >= 0 && dl != consumed) {
			w.Fail("Unmarshal/count-or-consumption", d())
			return false
		}
		if ver != c.expVer() {
			w.Fail("Unmarshal/version", d())
			return false
		}
		if !c.sameMsg(into) {
			w.Fail("Unmarshal/message-differs", d())
			return false
		}
	}
	// after the last frame: clean EOF
	w.Op = "Unmarshal@EOF"
	n, ver, err := pbcmpl.Unmarshal(cr, cases[0].empty())
	w.Eval(1)
	w.Bucket("stream/eof-after-last")
	if n != 0 || ver != "" || !pbIs(err, io.EOF) {
		w.Fail("Unmarshal/after-last-frame", mon.D{"n": n, "version": ver, "err": errStr(err), "chunking": modeName})
		return false
	}
	return true
}

// yieldWriter / yieldReader hand the processor to another goroutine before they touch the bytes.
type yieldWriter struct{ buf bytes.Buffer }

func (y *yieldWriter) Write(p []byte) (int, error) {
	runtime.Gosched()
	return y.buf.Write(p)
}

type yieldReader struct{ r *bytes.Reader }

func (y *yieldReader) Read(p []byte) (int, error) {
	runtime.Gosched()
	return y.r.Read(p)
}

// c06Concurrent: four goroutines marshal and unmarshal DIFFERENT messages through their OWN writers and readers
// at the same time (the writers yield before taking the bytes). Each call is an input of the property on its own;
// state shared between calls inside the package shows as a frame that differs from the model.
func c06Concurrent(w *mon.W, idx int) {
	r := w.Rng
	const G = 4
	cases := make([]pbCase, G)
	exp := make([][]byte, G)
	for g := range cases {
		ver := ""
		switch r.Intn(4) {
		case 0:
			ver = "1.0.0"
		case 1:
			ver = pbVersion(r, 1+r.Intn(16))
		}
		cases[g] = pbCase{Kind: r.Intn(pbNKinds), Payload: pbPayload(r, r.Pick(0, 1, 33, 200, 1000)+7*g), Ver: ver}
		exp[g] = cases[g].frame()
	}
	bad := make([]mon.D, G)
	var wg sync.WaitGroup
	for g := 0; g < G; g++ {
		wg.Add(1)
		go func(g int) {
			defer wg.Done()
			defer func() {
				if p := recover(); p != nil {
					bad[g] = mon.D{"goroutine": g, "panic": fmt.Sprint(p)}
				}
			}()
			c := cases[g]
			msg := c.msg()
			for k := 0; k < 30; k++ {
				yw := &yieldWriter{}
				n, err := pbcmpl.Marshal(yw, msg)
				if err != nil || int(n) != len(exp[g]) || !bytes.Equal(yw.buf.Bytes(), exp[g]) {
					bad[g] = mon.D{"goroutine": g, "round": k, "call": "Marshal", "kind": pbKindNames[c.Kind], "version": fmt.Sprintf("%q", c.Ver), "returned_n": n, "err": errStr(err),
						"got_header": fmt.Sprintf("%x", yw.buf.Bytes()[:min(32, yw.buf.Len())]), "expected_header": fmt.Sprintf("%x", exp[g][:32]), "got_len": yw.buf.Len(), "expected_len": len(exp[g])}
					return
				}
				into := c.empty()
				n2, ver, err2 := pbcmpl.Unmarshal(&yieldReader{bytes.NewReader(exp[g])}, into)
				if err2 != nil || int(n2) != len(exp[g]) || ver != c.expVer() || !c.sameMsg(into) {
					bad[g] = mon.D{"goroutine": g, "round": k, "call": "Unmarshal", "kind": pbKindNames[c.Kind], "returned_n": n2, "returned_version": fmt.Sprintf("%q", ver), "expected_version": fmt.Sprintf("%q", c.expVer()), "err": errStr(err2)}
					return
				}
			}
		}(g)
	}
	wg.Wait()
	w.Eval(2 * 30 * G)
	for g := range bad {
		if bad[g] != nil {
			w.Fail("concurrent-calls-on-different-messages-interfere/"+fmt.Sprint(bad[g]["call"]), bad[g])
			return
		}
	}
	w.Bucket("concurrent/own-writers-and-readers")
}

func c06Frames(w *mon.W, idx int) {
	r := w.Rng
	kind := idx % pbNKinds
	bl := (idx / pbNKinds) % (len(c06BodyLens) + 1)
	vl := (idx / pbNKinds / (len(c06BodyLens) + 1)) % 17
	n := 0
	if bl < len(c06BodyLens) {
		n = c06BodyLens[bl]
	} else {
		n = r.Intn(3000)
	}
	c := pbCase{Kind: kind, Payload: pbPayload(r, n), Ver: pbVersion(r, vl)}
	if c.Kind == pbKString && n > 8000 {
		c.Payload = c.Payload[:8000]
	}
	w.Bucket("kind/" + pbKindNames[kind])
	if bl < len(c06BodyLens) {
		w.Bucket(fmt.Sprintf("body/%d", n))
	}
	if c.versioned() {
		w.Bucket(fmt.Sprintf("ver/len=%d", vl))
		if bytes.IndexByte([]byte(c.Ver), 0) >= 0 {
			w.Bucket("ver/interior-NUL")
		}
	}
	frame, ok := c06CheckMarshal(w, c)
	if !ok {
		return
	}
	for mode := 0; mode < chNModes; mode++ {
		if mode == chOne && len(frame) > 5000 && !w.Cfg.Thorough() {
			continue
		}
		w.Bucket("chunk/" + chNames[mode])
		if !c06CheckStream(w, []pbCase{c}, [][]byte{frame}, mode, false) {
			return
		}
	}
	for j := 0; j < 3; j++ {
		if !c06CheckStream(w, []pbCase{c}, [][]byte{frame}, chNModes+(3*idx+j)%c06NStd, false) {
			return
		}
	}
	if len(c.body()) > 0 || (c.versioned() && c.Ver != "1.0.0") {
		w.Distinct(gen.Hash64(uint64(kind), gen.HashStr(c.expVer()), gen.HashBytes(c.Payload)))
	}
	w.Sample(func() interface{} {
		return mon.D{"kind": pbKindNames[kind], "version": fmt.Sprintf("%q", c.expVer()), "body_len": len(frame) - 32, "frame_len": len(frame), "header_hex": fmt.Sprintf("%x", frame[:32])}
	})
}

func c06Streams(w *mon.W, idx int) {
	r := w.Rng
	nf := 1 + r.Intn(8)
	var cases []pbCase
	var frames [][]byte
	for i := 0; i < nf; i++ {
		n := r.Pick(0, 0, 1, 2, 31, 32, 33, r.Intn(200), r.Intn(200), r.Intn(1500))
		c := pbCase{Kind: r.Intn(pbNKinds), Payload: pbPayload(r, n), Ver: pbVersion(r, r.Intn(17))}
		f, ok := c06CheckMarshal(w, c)
		if !ok {
			return
		}
		cases = append(cases, c)
		frames = append(frames, f)
	}
	mode := idx % chNModes
	if (idx/chNModes)%3 == 2 {
		mode = chNModes + (idx/chNModes/3)%c06NStd
	} else {
		w.Bucket("chunk/" + chNames[mode])
	}
	if nf == 1 {
		w.Bucket("stream/frames=1")
	}
	if nf >= 4 {
		w.Bucket("stream/frames>=4")
	}
	if !c06CheckStream(w, cases, frames, mode, idx%3 == 0) {
		return
	}
	if nf >= 2 {
		h := uint64(mode)
		for _, f := range frames {
			h = gen.Hash64(h, gen.HashBytes(f))
		}
		w.Distinct(h)
	}
	w.Extra("stream_frames", int64(nf))
	w.Sample(func() interface{} {
		ls := []int{}
		for _, f := range frames {
			ls = append(ls, len(f))
		}
		return mon.D{"frames": nf, "frame_lengths": ls, "reader_mode": mode}
	})
}

// c06Reuse decodes an alternation of non-empty and empty-body frames of ONE kind into ONE target.
func c06Reuse(w *mon.W, idx int) {
	r := w.Rng
	kind := idx % pbNKinds
	mode := (idx / pbNKinds) % chNModes
	var cases []pbCase
	var frames [][]byte
	for _, n := range []int{1 + r.Intn(40), 0, 1 + r.Intn(400), 0, 0, 1, r.Intn(3)} {
		c := pbCase{Kind: kind, Payload: pbPayload(r, n), Ver: pbVersion(r, r.Intn(17))}
		f, ok := c06CheckMarshal(w, c)
		if !ok {
			return
		}
		cases = append(cases, c)
		frames = append(frames, f)
	}
	w.Bucket("chunk/" + chNames[mode])
	if !c06CheckStream(w, cases, frames, mode, true) {
		return
	}
	h := uint64(mode) + 1000
	for _, f := range frames {
		h = gen.Hash64(h, gen.HashBytes(f))
	}
	w.Distinct(h)
	w.Sample(func() interface{} {
		return mon.D{"what": "alternating non-empty / empty-body frames decoded into ONE reused target", "kind": pbKindNames[kind], "chunking": chNames[mode], "frames": len(frames)}
	})
}

// c06BigStreams puts a frame with a body around 1 MiB (where buffering strategies change) in the
// middle of a stream: the frames after it must still be returned one per call.
func c06BigStreams(w *mon.W, idx int) {
	r := w.Rng
	kind := idx % pbNKinds
	size := []int{1<<20 - 40, 1<<20 + 1, 1300000}[(idx/pbNKinds)%3]
	mode := []int{chWhole, chRandom, chEOFWithData, chZeroReads}[(idx/pbNKinds/3)%4]
	if kind == pbKString {
		size /= 2 // the payload is hex encoded
		size++
	}
	var cases []pbCase
	var frames [][]byte
	for _, n := range []int{5, size, 0, 17, 1} {
		c := pbCase{Kind: kind, Payload: pbPayload(r, n), Ver: pbVersion(r, r.Intn(17))}
		f, ok := c06CheckMarshal(w, c)
		if !ok {
			return
		}
		cases = append(cases, c)
		frames = append(frames, f)
		w.Tick()
	}
	w.Bucket("chunk/" + chNames[mode])
	w.Bucket("stream/frame>1MiB-followed-by-frames")
	if !c06CheckStream(w, cases, frames, mode, idx&1 == 1) {
		return
	}
	w.Distinct(gen.Hash64(uint64(mode)+5000, gen.HashBytes(frames[1][:4096]), uint64(len(frames[1]))))
	w.Sample(func() interface{} {
		return mon.D{"what": "stream with a frame around 1 MiB followed by 3 more frames", "kind": pbKindNames[kind], "big_body_len": len(frames[1]) - 32, "chunking": chNames[mode]}
	})
}

type c06Held struct {
	h    pbcmpl.Header
	ver  string
	body int64
}
