package props

import (
	"fmt"
	"math"

	"github.com/openacid/low/bitmap"

	"verif/internal/gen"
	"verif/internal/mon"
)

// C15 — TailBitmap never forgets a set bit nor invents one, across any Set history.
//
// Online trace checker. Model = (o, set of positions) kept as absolute 64-bit words, with no
// notion of a moving offset: bit j is 1 iff j < o or j was set.

type c15Model struct {
	o      int64
	words  map[int64]uint64 // absolute word index -> bits set by Set
	maxSet int64
}

func (m *c15Model) set(j int64) {
	m.words[j>>6] |= 1 << uint(j&63)
	if j > m.maxSet {
		m.maxSet = j
	}
}

func (m *c15Model) word(abs int64) uint64 {
	if abs*64 < m.o {
		return ^uint64(0)
	}
	return m.words[abs]
}

func (m *c15Model) bit(j int64) uint64 {
	return (m.word(j>>6) >> uint(j&63)) & 1
}

type c15Mon struct {
	w          *mon.W
	tb         *bitmap.TailBitmap
	m          *c15Model
	prevOffset int64
	hist       []string // last ops (bounded)
	nops       int
	long       bool
	states     map[[2]int64]struct{}
	multiDrops int64
	reclaims   int64
	reclaimed  int64 // harness shadow of the reclaim bookkeeping condition (observed through Offset)
}

func c15New(w *mon.W, o int64, long bool) *c15Mon {
	w.Op, w.A = "NewTailBitmap", o
	tb := bitmap.NewTailBitmap(o)
	return &c15Mon{w: w, tb: tb, m: &c15Model{o: o, words: map[int64]uint64{}, maxSet: -1}, prevOffset: o, long: long,
		states: map[[2]int64]struct{}{}, reclaimed: o}
}

func (c *c15Mon) note(s string) {
	c.nops++
	if len(c.hist) >= 24 {
		copy(c.hist, c.hist[1:])
		c.hist = c.hist[:23]
	}
	c.hist = append(c.hist, s)
}

func (c *c15Mon) detail(extra mon.D) mon.D {
	extra["initial_offset"] = c.m.o
	extra["ops_so_far"] = c.nops
	extra["last_ops"] = append([]string(nil), c.hist...)
	extra["Offset"] = c.tb.Offset
	extra["len_Words"] = len(c.tb.Words)
	extra["Words_head"] = truncW(c.tb.Words, 3)
	return extra
}

// after checks the invariants that must hold after every Set/Compact. touched is the absolute
// position just set (or -1).
func (c *c15Mon) after(isSet bool, touched int64) bool {
	w, tb, m := c.w, c.tb, c.m
	off := tb.Offset
	if off&63 != 0 {
		w.Fail("Tail/Offset-not-multiple-of-64", c.detail(mon.D{}))
		return false
	}
	if off < c.prevOffset {
		w.Fail("Tail/Offset-decreased", c.detail(mon.D{"previous_Offset": c.prevOffset}))
		return false
	}
	// never moves past a position that is still 0
	for a := c.prevOffset >> 6; a < off>>6; a++ {
		if m.word(a) != ^uint64(0) {
			w.Fail("Tail/Offset-moved-past-a-zero", c.detail(mon.D{"previous_Offset": c.prevOffset, "word_with_zero": a, "model_word": fmt.Sprintf("%016x", m.word(a))}))
			return false
		}
	}
	if d := (off - c.prevOffset) >> 6; d >= 2 {
		c.multiDrops++
	}
	c.prevOffset = off
	if isSet && len(tb.Words) > 0 && tb.Words[0] == ^uint64(0) {
		w.Fail("Tail/first-word-all-ones-after-Set", c.detail(mon.D{}))
		return false
	}
	// (the last readable position instead of the end: Offset + 64*len is 2^63 when the word holding MaxInt64 is stored)
	last := off - 1 + 64*int64(len(tb.Words))
	if m.maxSet >= off && m.maxSet > last {
		w.Fail("Tail/set-bit-beyond-stored-words", c.detail(mon.D{"highest_set": m.maxSet, "last_stored_position": last}))
		return false
	}
	// the touched word and the first word: cheap, every op
	if touched >= off {
		k := (touched - off) >> 6
		if int(k) < len(tb.Words) && tb.Words[k] != m.word(touched>>6) {
			w.Fail("Tail/word-differs-from-model", c.detail(mon.D{"word": k, "got": fmt.Sprintf("%016x", tb.Words[k]), "model": fmt.Sprintf("%016x", m.word(touched>>6))}))
			return false
		}
	}
	if len(tb.Words) > 0 && tb.Words[0] != m.word(off>>6) {
		w.Fail("Tail/word-differs-from-model", c.detail(mon.D{"word": 0, "got": fmt.Sprintf("%016x", tb.Words[0]), "model": fmt.Sprintf("%016x", m.word(off>>6))}))
		return false
	}
	// shadow of the reclaim condition: observed only through Offset
	if off-c.reclaimed >= 1024*64 {
		c.reclaims++
		c.reclaimed = off
		if len(tb.Words) > 0 {
			c.w.Bucket("reclaim-with-nonempty-words")
		}
	}
	c.states[[2]int64{(off - m.o) >> 6, int64(len(tb.Words))}] = struct{}{}
	return true
}

// full compares every stored word with the model (never invents, never forgets).
func (c *c15Mon) full() bool {
	tb, m := c.tb, c.m
	base := tb.Offset >> 6
	for k, x := range tb.Words {
		if x != m.word(base+int64(k)) {
			c.w.Fail("Tail/word-differs-from-model", c.detail(mon.D{"word": k, "got": fmt.Sprintf("%016x", x), "model": fmt.Sprintf("%016x", m.word(base+int64(k)))}))
			return false
		}
	}
	return true
}

// positions is the bounded list of readable positions probed at quiescent points: everything in
// [max(0, Offset-130), end of stored words) for short bitmaps, both ends plus a stride for long
// ones, and a few positions far below Offset (implicit ones).
func (c *c15Mon) positions() []int64 {
	tb, m := c.tb, c.m
	last := tb.Offset - 1 + 64*int64(len(tb.Words)) // inclusive; no overflow at the top of the int64 range
	lo := tb.Offset - 130
	if lo < 0 {
		lo = 0
	}
	var ps []int64
	// span = number of positions in [lo, last]
	if span := last - lo + 1; span <= 6000 {
		for k := int64(0); k < span; k++ {
			ps = append(ps, lo+k)
		}
	} else {
		for k := int64(0); k < 3000; k++ {
			ps = append(ps, lo+k, last-k)
		}
		step := span / 500
		for k := int64(0); k < span; k += step {
			ps = append(ps, lo+k)
		}
	}
	for _, j := range []int64{0, 1, 63, 64, m.o - 1, m.o, tb.Offset / 2, tb.Offset - 1} {
		if j >= 0 && (j <= last || j < tb.Offset) {
			ps = append(ps, j)
		}
	}
	return ps
}

// read returns (Get1, Get) for every position.
func (c *c15Mon) read(ps []int64) [][2]uint64 {
	out := make([][2]uint64, len(ps))
	for i, j := range ps {
		c.w.Op, c.w.A = "TailBitmap.Get1", j
		out[i][0] = c.tb.Get1(j)
		c.w.Op = "TailBitmap.Get"
		out[i][1] = c.tb.Get(j)
	}
	c.w.Eval(int64(2 * len(ps)))
	return out
}

// sweep compares Get1/Get with the model at every probed position.
func (c *c15Mon) sweep() bool {
	ps := c.positions()
	vals := c.read(ps)
	for i, j := range ps {
		e1 := c.m.bit(j)
		if vals[i][0] != e1 {
			c.w.Fail("Tail/Get1", c.detail(mon.D{"j": j, "got": vals[i][0], "expected": e1}))
			return false
		}
		if vals[i][1] != e1<<uint(j&63) {
			c.w.Fail("Tail/Get", c.detail(mon.D{"j": j, "got": fmt.Sprintf("%#x", vals[i][1]), "expected": fmt.Sprintf("%#x", e1<<uint(j&63))}))
			return false
		}
	}
	return true
}

func (c *c15Mon) Set(j int64) bool {
	c.w.Op, c.w.A = "TailBitmap.Set", j
	c.note(fmt.Sprintf("Set(%d)", j))
	c.tb.Set(j)
	c.m.set(j)
	c.w.Eval(1)
	return c.after(true, j)
}

func (c *c15Mon) Compact() bool {
	ps := c.positions()
	before := c.read(ps)
	endBefore := c.tb.Offset - 1 + 64*int64(len(c.tb.Words))
	c.w.Op = "TailBitmap.Compact"
	c.note("Compact()")
	c.tb.Compact()
	c.w.Eval(1)
	if !c.after(false, -1) {
		return false
	}
	if endAfter := c.tb.Offset - 1 + 64*int64(len(c.tb.Words)); endAfter != endBefore {
		c.w.Fail("Tail/Compact-changed-readable-range", c.detail(mon.D{"last_before": endBefore, "last_after": endAfter}))
		return false
	}
	// Compact changes no Get result: the same positions, read again
	after := c.read(ps)
	for i := range ps {
		if before[i] != after[i] {
			c.w.Fail("Tail/Compact-changed-Get", c.detail(mon.D{"j": ps[i], "before": before[i], "after": after[i]}))
			return false
		}
	}
	c.w.Bucket("compact/explicit")
	return c.full() && c.sweep()
}

func (c *c15Mon) quiesce() bool {
	return c.full() && c.sweep()
}

func (c *c15Mon) finish(kind string) {
	w := c.w
	w.Extra("histories", 1)
	w.Extra("ops", int64(c.nops))
	w.Extra("multi_word_compactions", c.multiDrops)
	w.Extra("reclaim_branch_executions", c.reclaims)
	for s := range c.states {
		w.Distinct(gen.Hash64(0xabc, uint64(s[0]), uint64(s[1])))
	}
	w.Extra("abstract_states_visited_sum", int64(len(c.states)))
	if c.multiDrops > 0 {
		w.Bucket("compact/multi-word")
	}
	if c.reclaims > 0 {
		w.Bucket("reclaim-branch")
	}
	if c.tb.Offset > c.m.o {
		w.Bucket("history/offset-moved")
	}
	w.Bucket("pattern/" + kind)
}

var c15Offsets = []int64{0, 64, 128, 4096, 1 << 40, 1 << 62}
var c15Patterns = []string{"front-to-back", "back-to-front", "random-window", "repeats-and-below-offset", "fill-later-words-first", "interleaved-compact", "mixture"}

func init() {
	req := []string{"compact/multi-word", "reclaim-branch", "history/offset-moved", "set/below-offset", "set/repeat", "offset0=2^40"}
	for _, p := range c15Patterns {
		req = append(req, "pattern/"+p)
	}
	req = append(req, "pattern/long-forward", "pattern/long-shuffled", "pattern/long-far-bits-first", "reclaim-with-nonempty-words", "two-live-bitmaps", "positions-up-to-MaxInt64")
	register(&mon.Prop{
		ID:    "C15",
		Level: "exploration",
		Rule: "seeded histories of Set/Compact/Get/Get1 from NewTailBitmap(o), o in {0,64,128,4096,2^40,2^62}: 7 patterns (front-to-back, back-to-front, random window around Offset, repeats and below-Offset, " +
			"filling later words before word 0 so that Compact drops many words at once, interleaved Compact, mixture) x <= 300 ops, plus long histories of 140000 consecutive bits (forward, shuffled within blocks, and with far-ahead bits set first so that words are stored when the threshold is crossed) that cross the 1024-word reclaim threshold. " +
			"Invariants asserted after EVERY Set/Compact; full word-by-word comparison and Get/Get1 sweeps at quiescent points (every 8 ops; every 4096 ops in long histories) and around every Compact. " +
			"distinct_nontrivial counts distinct abstract states (Offset advance in words, len(Words)) x history hash of histories in which Offset moved.",
		Assumptions: []string{"Get only below the end of the stored words; indexes >= 0; o a multiple of 64", "no claim about memory use (Compact's reallocation result is discarded by the library; noted in DESIGN.md 4.4)"},
		Flavours:    releaseThenGo126,
		Required:    req,
		Families: func(c *mon.Config) []mon.Family {
			return []mon.Family{
				{Name: "patterns", Env: 4, N: len(c15Offsets) * len(c15Patterns) * c.Pick(100, 6000), Run: c15Patterned},
				{Name: "long-reclaim", Env: 1, N: c.Pick(4, 64), Run: c15Long},
				{Name: "many-live-long", Env: 1, NoCold: true, N: c.Pick(8, 60), Run: c15ManyLive},
				{Name: "two-live-bitmaps", Env: 4, N: c.Pick(300, 30000), Run: c15TwoLive},
				{Name: "top-of-int64", Env: 2, N: c.Pick(200, 20000), Run: c15TopOfInt64},
				{Name: "tail>=2^31-bits", NoCold: true, N: c.Pick(0, 1) * b2i(c.Base() != "386"), Run: c15HugeTail}, // 1 GiB: thorough only, not in a 32-bit address space
			}
		},
	})
}

func c15Patterned(w *mon.W, idx int) {
	r := w.Rng
	o := c15Offsets[idx%len(c15Offsets)]
	pat := (idx / len(c15Offsets)) % len(c15Patterns)
	c := c15New(w, o, false)
	if o == 1<<40 {
		w.Bucket("offset0=2^40")
	}
	nops := 20 + r.Intn(280)
	hh := gen.Hash64(uint64(o), uint64(pat))
	step := func(j int64) bool {
		if j < 0 {
			j = 0
		}
		if j < c.tb.Offset {
			w.Bucket("set/below-offset")
		} else if c.m.bit(j) == 1 {
			w.Bucket("set/repeat")
		}
		hh = gen.Hash64(hh, uint64(j))
		if !c.Set(j) {
			return false
		}
		if c.nops%11 == 5 && !c.probeBeyond(r) {
			return false
		}
		if c.nops%8 == 0 {
			return c.quiesce()
		}
		return true
	}
	switch pat {
	case 0:
		for k := 0; k < nops; k++ {
			if !step(o + int64(k)) {
				return
			}
		}
	case 1:
		for k := nops - 1; k >= 0; k-- {
			if !step(o + int64(k)) {
				return
			}
		}
	case 2:
		for k := 0; k < nops; k++ {
			if !step(c.tb.Offset - 70 + int64(r.Intn(70+r.Pick(64, 130, 400)))) {
				return
			}
		}
	case 3:
		var last int64 = o
		for k := 0; k < nops; k++ {
			switch r.Intn(4) {
			case 0:
				if !step(last) {
					return
				}
			case 1:
				if !step(c.tb.Offset - 1 - int64(r.Intn(200))) {
					return
				}
			default:
				last = c.tb.Offset + int64(r.Intn(100))
				if !step(last) {
					return
				}
			}
		}
	case 4:
		// fill words 1..k completely, then word 0: Compact must drop k+1 words at once
		for round := 0; round < 2; round++ {
			k := 1 + r.Intn(4)
			base := c.tb.Offset
			for wd := k; wd >= 0; wd-- {
				perm := r.Perm(64)
				for _, b := range perm {
					if !step(base + int64(64*wd+b)) {
						return
					}
				}
			}
		}
	case 5:
		for k := 0; k < nops; k++ {
			if !step(c.tb.Offset + int64(r.Intn(130))) {
				return
			}
			if r.Intn(5) == 0 {
				if !c.Compact() {
					return
				}
			}
		}
	default:
		for k := 0; k < nops; k++ {
			var j int64
			switch r.Intn(6) {
			case 0:
				j = c.tb.Offset + int64(r.Intn(64)) // first word
			case 1:
				j = c.tb.Offset + 64 + int64(r.Intn(256))
			case 2:
				j = c.tb.Offset - int64(r.Intn(130))
			case 3:
				// finish the first word
				j = c.tb.Offset
				for b := int64(0); b < 64; b++ {
					if c.m.bit(c.tb.Offset+b) == 0 {
						j = c.tb.Offset + b
						break
					}
				}
			case 4:
				if !c.Compact() {
					return
				}
				continue
			default:
				j = c.tb.Offset + int64(r.Intn(2000))
			}
			if !step(j) {
				return
			}
		}
	}
	if !c.quiesce() {
		return
	}
	c.finish(c15Patterns[pat])
	if c.tb.Offset > o {
		w.Distinct(hh)
	}
	w.Sample(func() interface{} {
		return mon.D{"initial_offset": o, "pattern": c15Patterns[pat], "ops": c.nops, "final_Offset": c.tb.Offset, "final_len_Words": len(c.tb.Words), "last_ops": c.hist[max(0, len(c.hist)-6):]}
	})
}

func c15Long(w *mon.W, idx int) {
	r := w.Rng
	o := c15Offsets[idx%len(c15Offsets)]
	c := c15New(w, o, true)
	const n = 140000
	kind := "long-forward"
	order := make([]int64, 0, n+64)
	if idx%4 >= 2 {
		// bits far ahead are set first, so the stored words are never empty when the reclaim threshold is crossed
		kind = "long-far-bits-first"
		order = append(order, o+n+5000, o+n+64, o+70000, o+70001)
		for k := 0; k < 20; k++ {
			order = append(order, o+int64(r.Intn(n+4000)))
		}
	}
	if idx%2 == 0 {
		for k := int64(0); k < n; k++ {
			order = append(order, o+k)
		}
	} else {
		if kind == "long-forward" {
			kind = "long-shuffled"
		}
		blk := []int{256, 300, 777, 2048}[r.Intn(4)]
		for s := 0; s < n; s += blk {
			e := min(s+blk, n)
			p := r.Perm(e - s)
			for _, q := range p {
				order = append(order, o+int64(s+q))
			}
		}
	}
	for k, j := range order {
		if !c.Set(j) {
			return
		}
		if k%4096 == 4095 {
			w.Tick()
			if !c.quiesce() {
				return
			}
			if r.Intn(4) == 0 && !c.Compact() {
				return
			}
		}
	}
	if !c.quiesce() {
		return
	}
	c.finish(kind)
	w.Distinct(gen.Hash64(0x1099, uint64(o), uint64(idx)))
	w.Sample(func() interface{} {
		return mon.D{"initial_offset": o, "pattern": kind, "ops": c.nops, "final_Offset": c.tb.Offset, "reclaim_branch_executions": c.reclaims}
	})
}

// c15TwoLive: two (sometimes three) TailBitmaps created one after the other and used INTERLEAVED by one
// goroutine: what one of them does must not show in the other (no shared backing array).
func c15TwoLive(w *mon.W, idx int) {
	r := w.Rng
	k := 2 + idx%2
	var ms []*c15Mon
	for i := 0; i < k; i++ {
		ms = append(ms, c15New(w, c15Offsets[r.Intn(4)], false))
	}
	nops := 30 + r.Intn(200)
	for op := 0; op < nops; op++ {
		c := ms[r.Intn(k)]
		var j int64
		switch r.Intn(4) {
		case 0:
			j = c.tb.Offset + int64(r.Intn(64))
		case 1:
			j = c.tb.Offset + int64(r.Intn(700))
		case 2:
			j = c.tb.Offset
			for b := int64(0); b < 64; b++ {
				if c.m.bit(c.tb.Offset+b) == 0 {
					j = c.tb.Offset + b
					break
				}
			}
		default:
			if !c.Compact() {
				return
			}
			continue
		}
		if !c.Set(j) {
			return
		}
		if op%6 == 5 {
			for _, x := range ms {
				if !x.quiesce() {
					return
				}
			}
		}
	}
	for _, x := range ms {
		if !x.quiesce() {
			return
		}
		x.finish("two-live")
	}
	w.Bucket("two-live-bitmaps")
	w.Distinct(gen.Hash64(0x2117e, uint64(idx), uint64(nops)))
	w.Sample(func() interface{} { return mon.D{"what": "TailBitmaps used interleaved", "bitmaps": k, "ops": nops} })
}

// c15HugeTail (thorough only; about 1 GiB while it runs): one Set 2^31+5 bits beyond the offset makes
// the stored tail longer than 2^31 bits; Get/Get1 at tail-relative indexes around 2^31 and 2^32.
// c15TopOfInt64: bitmaps whose tail reaches the largest positions an int64 can name: offsets MaxInt64&^63 - 64k,
// Sets up to MaxInt64 itself. The top word is never filled completely (Offset could not move past it).
func c15TopOfInt64(w *mon.W, idx int) {
	r := w.Rng
	const top = int64(math.MaxInt64)
	k := []int64{0, 0, 1, 2, 5}[idx%5]
	o := top&^63 - 64*k
	c := c15New(w, o, false)
	hole := top - int64(r.Intn(64)) // stays 0 in the top word
	nops := 20 + r.Intn(200)
	for op := 0; op < nops; op++ {
		var j int64
		switch r.Intn(5) {
		case 0:
			j = top - int64(r.Intn(64))
		case 1:
			j = top
		case 2:
			j = top &^ 63
		case 3:
			j = o + int64(r.Intn(int(64*(k+1))))
		default:
			if !c.Compact() {
				return
			}
			continue
		}
		if j == hole {
			continue
		}
		if !c.Set(j) {
			return
		}
		if op%8 == 7 && !c.quiesce() {
			return
		}
	}
	if !c.quiesce() {
		return
	}
	c.finish("top-of-int64")
	w.Bucket("positions-up-to-MaxInt64")
	w.Distinct(gen.Hash64(0x7f7f, uint64(idx), uint64(nops), uint64(hole)))
	w.Sample(func() interface{} {
		return mon.D{"what": "tail at the top of the int64 range", "initial_offset": o, "ops": nops}
	})
}

func c15HugeTail(w *mon.W, _ int) {
	o := int64(1 << 40)
	c := c15New(w, o, true)
	far := []int64{o + 1<<32 + 5, o + 1<<31 + 5, o + 1<<31 - 1, o + 1<<30, o + 5, o + 64 + 6}
	for _, j := range far {
		w.Tick()
		c.w.Op, c.w.A = "TailBitmap.Set(far)", j
		c.note(fmt.Sprintf("Set(%d)", j))
		c.tb.Set(j)
		c.m.set(j)
		w.Tick()
	}
	for _, j := range []int64{o + 5, o + 6, o + 64 + 6, o + 1<<30, o + 1<<30 + 1, o + 1<<31 - 1, o + 1<<31, o + 1<<31 + 5, o + 1<<31 + 6, o + 1<<32 + 4, o + 1<<32 + 5, o + 1<<32 + 6, o - 1, o - 64, 0} {
		w.Op, w.A = "TailBitmap.Get1(huge tail)", j
		e1 := c.m.bit(j)
		if g1, g := c.tb.Get1(j), c.tb.Get(j); g1 != e1 || g != e1<<uint(j&63) {
			w.Fail("Tail/Get-huge-tail", c.detail(mon.D{"j": j, "relative_to_offset": j - o, "Get1": g1, "Get": fmt.Sprintf("%#x", g), "expected_bit": e1}))
			return
		}
		w.Eval(2)
	}
	w.Bucket("tail>=2^31-bits")
	w.Distinct(gen.Hash64(0x7a11, 1))
	w.Sample(func() interface{} { return mon.D{"what": "stored tail longer than 2^32 bits", "sets": far} })
}

// c15ManyLive (round 11): four to six TailBitmaps with long tails (bits far ahead set first, so the word array has been
// re-grown to a large capacity) are filled forward in interleaved chunks, so that they cross the 65 536-bit reclaim
// threshold one after the other in an order that differs from their creation order; then new bitmaps are created and
// used. All of them are compared with their models throughout: whatever the library recycles between bitmaps (a free
// list of word chunks was seeded that popped the wrong entry) must not make one bitmap forget or invent bits.
func c15ManyLive(w *mon.W, idx int) {
	r := w.Rng
	k := 4 + idx%5
	const n = 70000
	var ms []*c15Mon
	next := make([]int64, k)
	for i := 0; i < k; i++ {
		o := c15Offsets[r.Intn(4)]
		c := c15New(w, o, true)
		ms = append(ms, c)
		// tails of very different lengths (1 000 to 7 000 words at the first reclaim): whatever storage the library
		// recycles between bitmaps comes back in sizes that fit some requests and not others
		for _, far := range []int64{n + int64(r.Pick(66000, 100000, 150000, 250000, 400000)) + int64(r.Intn(50000)), n + 64, 70000, 96063 + int64(r.Intn(1000))} {
			if !c.Set(o + far) {
				return
			}
		}
		next[i] = o
	}
	live := k
	done := make([]bool, k)
	for live > 0 {
		i := r.Intn(k)
		if done[i] {
			continue
		}
		c := ms[i]
		chunk := int64(r.Pick(64, 1000, 5000, 20000, 66000))
		for b := int64(0); b < chunk; b++ {
			if !c.Set(next[i]) {
				return
			}
			next[i]++
		}
		w.Tick()
		if next[i] >= c.m.o+n {
			done[i] = true
			live--
		}
		for _, x := range ms {
			if !x.quiesce() {
				return
			}
		}
	}
	// new bitmaps after the old ones have reclaimed: the old ones keep their bits
	for j := 0; j < 3; j++ {
		c := c15New(w, c15Offsets[r.Intn(4)], true)
		for b := int64(0); b < 300; b++ {
			if !c.Set(c.tb.Offset + int64(r.Intn(3000))) {
				return
			}
		}
		ms = append(ms, c)
		for _, x := range ms {
			if !x.quiesce() {
				return
			}
		}
		w.Tick()
	}
	for _, x := range ms {
		x.finish("many-live-long")
	}
	w.Bucket("many-live-long-bitmaps")
	w.Distinct(gen.Hash64(0x3a4e, uint64(idx), uint64(k)))
	w.Sample(func() interface{} {
		return mon.D{"what": "TailBitmaps with long tails filled interleaved, then new ones created", "bitmaps": len(ms), "bits_each": n}
	})
}

// probeBeyond (round 14): a caller reads a set bit, then probes a position beyond the stored words - outside the stated
// domain, the library panics "index out of range" and the caller recovers -, then sets a bit further out, so that the
// tail grows over the probed word, and reads inside that word. The abnormal call must leave nothing behind (a one-word
// read memo that was re-keyed before the failing load, and so kept the previously read word under the new key, was seeded).
func (c *c15Mon) probeBeyond(r *gen.Rand) bool {
	tb := c.tb
	if len(tb.Words) == 0 || tb.Offset > 1<<61 {
		return true
	}
	// (1) a successful read in a stored word with content
	for k, x := range tb.Words {
		if x != 0 {
			j := tb.Offset + int64(64*k)
			for b := int64(0); b < 64; b++ {
				if x>>uint(b)&1 == 1 {
					j += b
					break
				}
			}
			c.w.Op, c.w.A = "TailBitmap.Get1", j
			if g := tb.Get1(j); g != 1 {
				c.w.Fail("Tail/Get1", c.detail(mon.D{"j": j, "got": g, "expected": 1}))
				return false
			}
			break
		}
	}
	// (2) a probe beyond the stored words; whatever happens, the caller carries on
	end := tb.Offset + int64(64*len(tb.Words))
	probe := end + int64(r.Intn(128))
	func() {
		defer func() { recover() }()
		c.w.Op, c.w.A = "TailBitmap.Get1(beyond the stored words; the caller recovers)", probe
		tb.Get1(probe)
		tb.Get(probe)
	}()
	c.note(fmt.Sprintf("Get1(%d) beyond the end, recovered", probe))
	// (3) the tail grows over the probed word, (4) read inside the probed word first
	far := (probe|63) + 1 + int64(r.Intn(100))
	if !c.Set(far) {
		return false
	}
	for _, j := range []int64{probe, probe &^ 63, probe | 63, probe ^ 1} {
		if j < tb.Offset {
			continue
		}
		c.w.Op, c.w.A = "TailBitmap.Get1(after a recovered out-of-range read)", j
		if g, e := tb.Get1(j), c.m.bit(j); g != e {
			c.w.Fail("Tail/Get1/after-recovered-out-of-range-read", c.detail(mon.D{"j": j, "got": g, "expected": e, "probed": probe}))
			return false
		}
	}
	c.w.Bucket("history/recovered-out-of-range-read-then-growth")
	return true
}
