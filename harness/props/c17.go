package props

import (
	"fmt"
	"strings"

	"github.com/openacid/low/sigbits"

	"verif/internal/gen"
	"verif/internal/mon"
)

// C17 — ShardByPrefix: bounded contiguous shards with ordered, unique prefixes.
// Oracle: a pure checker over the two returned slices.

// c17Universe is designed around the recursion: a key equal to the common prefix of its
// successors, deep shared prefixes, first-byte-distinct keys, NUL and >= 0x80 bytes.
var c17Universe = []string{
	"", "\x00", "\x00\x00", "a", "a\x00", "ab", "abc", "abcd", "abd", "b", "\x80", "\xff\xff",
}

func init() {
	register(&mon.Prop{
		ID:    "C17",
		Level: "exploration",
		Rule: "ALL strictly ascending subsets of sizes 1..6 of a 12-string universe built around the recursion x EVERY maxSize 1..len+2; keyzoo sets of up to 300 keys x maxSize in {1,2,3,5,7,16,64,len,len+1}; " +
			"node fan-outs of 255/256/257 children (a prefix key followed by every one-byte continuation) x maxSize around 256; thorough adds sets of 5000 generated keys with 40-byte common prefixes. Non-trivial+distinct = hash of (keys, maxSize) with >= 2 keys.",
		Assumptions: []string{"non-empty strictly ascending key lists, maxSize >= 1"},
		Flavours:    releaseAnd386,
		Required: []string{"common-prefix>=65535-bytes", "long-run/calls>=100000-per-function", "arguments-in-read-only-memory", "single-key-list", "maxSize=1", "maxSize>=len", "shard/single-key", "shard/full", "key-equals-common-prefix-of-successors", "split/restart-on-shorter-prefix",
			"first-byte-distinct", "bytes/nul", "bytes/>=0x80", "deep-common-prefix", "fan-out/257-children", "fan-out/256-children", "keys>=40000", "keys>2^18", "maxSize>=2^30", "same-buffer-refilled-in-place"},
		Families: func(c *mon.Config) []mon.Family {
			fams := []mon.Family{
				{Name: "cold-start", N: 1, Serial: true, Run: func(w *mon.W, _ int) {
					l := coldPick(coldSigbitsCalls(), "ShardByPrefix", "FirstDiffBits")
					if coldFirst(w, l) && coldLast(w, l) {
						w.Bucket("cold-start")
					}
				}},
				{Name: "universe-subsets", N: 1 << 12, Run: c17Subsets},
				{Name: "keyzoo", Env: 6, N: c.Pick(10000, 2000000), Run: c17Zoo},
				{Name: "fan-out", Env: 2, N: 3 * 4 * 3, Run: c17FanOut},
				{Name: "many-keys", Env: 1, N: c.Pick(2, 40), Run: c17ManyKeys},
				{Name: "very-long-common-prefix", N: c.Pick(4, 16), Run: c17VeryLong},
				lrFamily(c17LongRun),
			}
			if c.Thorough() {
				fams = append(fams, mon.Family{Name: "large", N: 2000, Run: c17Large})
			}
			return fams
		},
	})
}

func lcpBytes(a, b string) int {
	n := min(len(a), len(b))
	for i := 0; i < n; i++ {
		if a[i] != b[i] {
			return i
		}
	}
	return n
}

func c17Check(w *mon.W, keys []string, maxSize int) bool {
	w.Op, w.A, w.Obj = "ShardByPrefix", int64(maxSize), nil
	in := append([]string(nil), keys...)
	keys, guardK := argStrs(w, keys)
	if roPickStrs(in) { // the key list - headers and bytes - in memory that cannot be written (ro.go)
		if v, rel, ok := roOneStrs(w, in); ok {
			keys = v
			defer rel()
		}
	}
	L, B := sigbits.ShardByPrefix(keys, int32(maxSize))
	if overlapI32(L, B) {
		w.Fail("Shard/the-two-results-share-memory", mon.D{"nkeys": len(in), "maxSize": maxSize, "len_L": len(L), "cap_L": cap(L), "len_B": len(B), "cap_B": cap(B)})
		return false
	}
	if !guardK() {
		w.Fail("Shard/wrote-outside-len-of-argument", mon.D{"nkeys": len(in), "maxSize": maxSize})
		return false
	}
	w.Eval(1)
	d := func(what string, extra mon.D) mon.D {
		extra["what"] = what
		extra["keys"] = fmt.Sprintf("%.500q", in)
		extra["nkeys"] = len(in)
		extra["maxSize"] = maxSize
		extra["prefix_lens"] = trunc32(L, 20)
		extra["boundaries"] = trunc32(B, 21)
		return extra
	}
	k := len(L)
	if len(B) != k+1 || k == 0 || B[0] != 0 || int(B[k]) != len(in) {
		w.Fail("Shard/boundaries-shape", d("B[0]=0, B[k]=len(keys), len(B)=len(L)+1", mon.D{}))
		return false
	}
	prevPrefix := ""
	for j := 0; j < k; j++ {
		s, e := int(B[j]), int(B[j+1])
		if s >= e || e > len(in) {
			w.Fail("Shard/boundaries-not-increasing", d("0=B[0]<B[1]<...", mon.D{"j": j}))
			return false
		}
		if e-s > maxSize {
			w.Fail("Shard/too-large", d("shard holds more than maxSize keys", mon.D{"j": j, "size": e - s}))
			return false
		}
		// longest common prefix by direct comparison of every key with the first
		lcp := len(in[s])
		for i := s + 1; i < e; i++ {
			if l := lcpBytes(in[s], in[i]); l < lcp {
				lcp = l
			}
		}
		if int(L[j]) != lcp {
			w.Fail("Shard/prefix-not-longest-common", d("L[j] is not the LCP length of the shard", mon.D{"j": j, "got": L[j], "expected": lcp}))
			return false
		}
		pf := in[s][:lcp]
		if j > 0 && !(prevPrefix < pf) {
			w.Fail("Shard/prefixes-not-strictly-ascending", d("shard prefixes must be strictly ascending", mon.D{"j": j, "prev": fmt.Sprintf("%q", prevPrefix), "this": fmt.Sprintf("%q", pf)}))
			return false
		}
		prevPrefix = pf
		if e-s == 1 {
			w.Bucket("shard/single-key")
		}
		if e-s == maxSize {
			w.Bucket("shard/full")
		}
		if lcp >= 20 {
			w.Bucket("deep-common-prefix")
		}
	}
	for i := range in {
		if in[i] != keys[i] {
			w.Fail("Shard/input-modified", mon.D{"i": i})
			return false
		}
	}
	scribbleI32(L) // ours now
	scribbleI32(B)
	if !retainCheck(w, "Shard", "sigbits.ShardByPrefix", func() uint64 { return gen.Hash64(hashI32(L), hashI32(B)) }) {
		return false
	}
	// coverage of input shapes
	n := len(in)
	if n == 1 {
		w.Bucket("single-key-list")
	}
	if maxSize == 1 {
		w.Bucket("maxSize=1")
	}
	if maxSize >= n {
		w.Bucket("maxSize>=len")
	}
	if n > maxSize {
		// shapes that steer the recursive split
		minl, restart := 1<<30, false
		for i := 0; i+1 < n; i++ {
			l := lcpBytes(in[i], in[i+1])
			if l < minl {
				if i > 0 {
					restart = true
				}
				minl = l
			}
		}
		if restart {
			w.Bucket("split/restart-on-shorter-prefix")
		}
		if minl == 0 && n >= 2 {
			w.Bucket("first-byte-distinct")
		}
	}
	for i := 0; i+1 < n; i++ {
		if lcpBytes(in[i], in[i+1]) == len(in[i]) {
			w.Bucket("key-equals-common-prefix-of-successors")
			break
		}
	}
	if n >= 2 {
		h := uint64(maxSize)
		for _, s := range in {
			h = gen.Hash64(h, gen.HashStr(s))
		}
		w.Distinct(h)
	}
	return true
}

func c17Subsets(w *mon.W, idx int) {
	var keys []string
	for b := 0; b < 12; b++ {
		if idx>>uint(b)&1 == 1 {
			keys = append(keys, c17Universe[b])
		}
	}
	if len(keys) == 0 || len(keys) > 6 {
		return
	}
	keys = gen.SortedUnique(keys)
	for _, k := range keys {
		for _, c := range []byte(k) {
			if c == 0 {
				w.Bucket("bytes/nul")
			}
			if c >= 0x80 {
				w.Bucket("bytes/>=0x80")
			}
		}
	}
	for ms := 1; ms <= len(keys)+2; ms++ {
		if !c17Check(w, keys, ms) {
			return
		}
	}
	w.Extra("universe_subsets_enumerated", 1)
	w.Sample(func() interface{} {
		return mon.D{"keys": fmt.Sprintf("%q", keys), "maxSize": fmt.Sprintf("1..%d", len(keys)+2)}
	})
}

func c17Zoo(w *mon.W, idx int) {
	r := w.Rng
	var keys []string
	n := r.Pick(3, 10, 40, 300)
	ml := r.Pick(2, 4, 9, 26)
	keys = gen.SortedUnique(gen.KeyZoo(r, 1+r.Intn(n), ml))
	if r.Intn(4) == 0 {
		// deep common prefix
		pf := string(gen.ZooBytes(r, 20+r.Intn(30)))
		for i := range keys {
			keys[i] = pf + keys[i]
		}
	}
	for _, ms := range []int{1, 2, 3, 5, 7, 16, 64, len(keys), len(keys) + 1} {
		if ms < 1 {
			continue
		}
		if !c17Check(w, keys, ms) {
			return
		}
	}
	// the caller refills the SAME buffer in place with another key set of the same length (the argument buffer
	// of this worker is reused, so the slice has the same address and length as in the calls above)
	if len(keys) >= 2 {
		g := 1 + r.Intn(min(len(keys), 256))
		k2 := make([]string, len(keys))
		for i := range keys {
			k2[i] = string([]byte{byte(i * g / len(keys))}) + keys[i]
		}
		for _, ms := range []int{1, 3, len(keys)/2 + 1} {
			if !c17Check(w, k2, ms) {
				return
			}
		}
		w.Bucket("same-buffer-refilled-in-place")
	}
	if idx%16 == 0 {
		// maxSize at the top of the int32 domain: one shard
		for _, ms := range []int{1 << 30, 1<<31 - 1, 1<<31 - 6, 1<<31 - 1 - len(keys)} {
			if !c17Check(w, keys, ms) {
				return
			}
		}
		w.Bucket("maxSize>=2^30")
	}
	w.Sample(func() interface{} {
		return mon.D{"nkeys": len(keys), "first_keys": fmt.Sprintf("%.200q", keys[:min(4, len(keys))])}
	})
}

func c17Large(w *mon.W, idx int) {
	r := w.Rng
	pf := string(gen.ZooBytes(r, 40))
	raw := make([]string, 0, 5000)
	for i := 0; i < 5000; i++ {
		raw = append(raw, pf+string(gen.ZooBytes(r, 1+r.Intn(6))))
		if i%50 == 0 {
			w.Tick()
		}
	}
	keys := gen.SortedUnique(raw)
	for _, ms := range []int{1, 5, 7, 16, 64, 1000, len(keys)} {
		if !c17Check(w, keys, ms) {
			return
		}
		w.Tick()
	}
	w.Sample(func() interface{} { return mon.D{"nkeys": len(keys), "common_prefix_bytes": 40} })
}

// c17FanOut builds nodes with the widest possible fan-out: a prefix P, optionally P itself as a key,
// followed by P+b(+tail) for 255 or all 256 byte values b - up to 257 children of one node.
func c17FanOut(w *mon.W, idx int) {
	r := w.Rng
	prefix := []string{"", "key", "\x00\xff\x00\xff\x00\xff\x00\xff\x00"}[idx%3]
	shape := (idx / 3) % 4 // 0: P + 256, 1: 256 without P, 2: P + 255, 3: P + 256 with tails (several keys per child)
	tailMode := idx / 12
	var keys []string
	if shape != 1 {
		keys = append(keys, prefix)
	}
	for b := 0; b < 256; b++ {
		if shape == 2 && b == 77 {
			continue
		}
		k := prefix + string([]byte{byte(b)})
		switch {
		case shape == 3 || tailMode == 2:
			keys = append(keys, k, k+"\x00", k+"z")
		case tailMode == 1:
			keys = append(keys, k+string(gen.ZooBytes(r, 1+r.Intn(2))))
		default:
			keys = append(keys, k)
		}
	}
	keys = gen.SortedUnique(keys)
	switch shape {
	case 0, 3:
		w.Bucket("fan-out/257-children")
	default:
		w.Bucket("fan-out/256-children")
	}
	for _, ms := range []int{1, 2, 3, 100, 255, 256, 257, 300, len(keys) - 1, len(keys)} {
		if !c17Check(w, keys, ms) {
			return
		}
	}
	// the same node with 0..600 keys in front of it and a few behind, so that it sits at every alignment with respect to
	// whatever block size an implementation summarises adjacent pairs in (round 14: blocks of 256 pairs, a uint8 count)
	if prefix != "" && tailMode == 0 {
		for _, before := range []int{1, 63, 64, 127, 254, 255, 256, 257, 511, 512} {
			var front []string
			for i := 0; i < before; i++ {
				front = append(front, fmt.Sprintf("%c%05d", prefix[0]-1, i)) // sorts before every key that starts with prefix
			}
			all := gen.SortedUnique(append(append(front, keys...), prefix+"\xff\xffz", string([]byte{prefix[0] + 1})))
			for _, ms := range []int{1, 7, 255, 256, 257} {
				if !c17Check(w, all, ms) {
					return
				}
			}
		}
		w.Bucket("fan-out/at-every-alignment")
	}
	w.Sample(func() interface{} {
		return mon.D{"prefix": fmt.Sprintf("%q", prefix), "shape": shape, "nkeys": len(keys), "what": "one node with 255..257 children"}
	})
}

// c17ManyKeys: 40000..70000 short keys with small maxSize: more than 2^15 shards.
func c17ManyKeys(w *mon.W, idx int) {
	r := w.Rng
	n := 40000 + r.Intn(30000)
	if idx == 1 || idx%8 == 7 {
		n = 262145 + r.Intn(40000) // beyond 2^18 keys
		w.Bucket("keys>2^18")
	}
	raw := make([]string, 0, n)
	for i := 0; i < n; i++ {
		// a common prefix, so that neighbours anywhere in the list (also across any internal chunk
		// border an implementation may introduce) share at least three bytes
		raw = append(raw, "key"+string([]byte{byte(i >> 16), byte(i >> 8), byte(i)})+string(gen.ZooBytes(r, r.Intn(2))))
		if i&4095 == 0 {
			w.Tick()
		}
	}
	keys := gen.SortedUnique(raw)
	for _, ms := range []int{1, 2, 300, 1000, len(keys)} {
		if !c17Check(w, keys, ms) {
			return
		}
		w.Tick()
	}
	w.Bucket("keys>=40000")
	w.Sample(func() interface{} { return mon.D{"nkeys": len(keys), "maxSize": []int{1, 2, 300}} })
}

// c17VeryLong (round 12): a handful of keys that share 65 535 .. 131 077 bytes (common-prefix lengths that do not fit
// 16 bits; a side array of uint16 prefix lengths was seeded).
func c17VeryLong(w *mon.W, idx int) {
	r := w.Rng
	plen := []int{65535, 65536, 65537, 70000, 131077, 65536 + 255, 131072, 66000}[idx%8]
	p := strings.Repeat(string(rune('a'+idx%20)), plen)
	keys := []string{p, p + "a", p + "aa", p + "ab", p + "b", p + "ba" + string(gen.ZooBytes(r, 3)), p + "c"}
	if idx%2 == 1 {
		keys = append([]string{p[:plen-70000/2], p[:plen-1]}, keys...)
	}
	keys = gen.SortedUnique(keys)
	for _, ms := range []int{1, 2, 3, 4, len(keys)} {
		if !c17Check(w, keys, ms) {
			return
		}
		w.Tick()
	}
	w.Bucket("common-prefix>=65535-bytes")
	w.Sample(func() interface{} { return mon.D{"nkeys": len(keys), "common_prefix_bytes": plen} })
}
