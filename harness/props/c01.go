package props

import (
	"fmt"
	"github.com/openacid/low/bitmap"

	"verif/internal/gen"
	"verif/internal/mon"
)

// C01 — Rank64/Rank128 count the 1-bits before any position.
// Oracle: one left-to-right sweep over the bits with a running counter (no popcount, no masks).

var c01Extreme = []uint64{0, ^uint64(0), 1, 1 << 63, 0x5555555555555555, 0xdeadbeefcafef00d}

var c01BucketNames [12]string

func init() {
	par := []string{"even-len", "odd-len"}
	half := []string{"left-half", "right-half"}
	pos := []string{"first-word", "middle-word", "last-word"}
	var req []string
	for p := 0; p < 2; p++ {
		for h := 0; h < 2; h++ {
			for q := 0; q < 3; q++ {
				n := "rank/" + par[p] + "/" + half[h] + "/" + pos[q]
				c01BucketNames[p*6+h*3+q] = n
				// word 0 is always a left half; the last word is a right half iff the length is even
				impossible := (q == 0 && h == 1) || (q == 2 && h == p)
				if !impossible {
					req = append(req, n)
				}
			}
		}
	}
	req = append(req, "bitmap/empty", "bitmap/all-zero", "bitmap/all-one", "index/trailing", "index/no-trailing", "index/rebuilt-after-in-place-update", "ones>=32768", "ones>=65536", "words>=65536", "arguments-in-read-only-memory", "long-run/calls>=100000-per-function", "bitmap=2^31-bits")
	register(&mon.Prop{
		ID:    "C01",
		Level: "exploration",
		Rule: "every position of every bitmap: (a) full product of 6 extreme word classes for 0..3 words, sampled for 4..9; (b) all 8x256 single-byte-lane words placed at word 0/1/2 of 1..4-word bitmaps; " +
			"(c) zoo bitmaps of 1..40 words (quick) / up to 2000 words (thorough). Rank64 is driven through the plain and the trailing index, Rank128 through IndexRank128; index entries and shapes are checked against the sweep. " +
			"Non-trivial+distinct = hash of bitmaps containing at least one 0 and one 1.",
		Assumptions: []string{"positions only inside the bitmap (stated domain)", "nothing asserted about cap of returned index slices"},
		Flavours:    releaseAnd386,
		Required:    req,
		Families: func(c *mon.Config) []mon.Family {
			return []mon.Family{
				{Name: "cold-start", N: 1, Serial: true, Run: func(w *mon.W, _ int) {
					if !coldFirst(w, coldPick(coldRankSelect(), "Rank64", "Rank128", "IndexRank64", "IndexRank128")) {
						return
					}
					defer coldLast(w, coldPick(coldRankSelect(), "Rank64", "Rank128", "IndexRank64", "IndexRank128"))
					for _, b := range [][]uint64{nil, {}, {^uint64(0)}, {0}, {^uint64(0), ^uint64(0)}, {0, 0}, {1 << 63}} {
						if !c01Check(w, b) {
							return
						}
					}
					w.Bucket("cold-start")
				}},
				{Name: "extreme-product", N: 1 + 6 + 36 + 216 + c.Pick(1000, 100000), Run: c01Product},
				{Name: "byte-lanes", N: 8 * 3, Run: c01Lanes},
				{Name: "zoo", Env: 8, N: c.Pick(60000, 6000000), Run: c01Zoo},
				{Name: "zoo-long", Env: 4, N: c.Pick(1000, 200000), Run: c01ZooLong},
				{Name: "dense-long", Env: 4, N: c.Pick(8, 400), Run: c01DenseLong},
				{Name: "huge-bitmap", NoCold: true, N: b2i(c.Base() != "386"), Run: c01Huge},
				lrFamily(c01LongRun),
			}
		},
	})
}

// c01Check runs the whole rank API on one bitmap against the sweep oracle.
func c01Check(w *mon.W, words []uint64) bool {
	wasNil := words == nil
	words, guard := argW(w, words)
	if wasNil {
		words, guard = nil, func() bool { return true }
	}
	orig := cloneWords(words)
	nw := len(words)
	w.Obj = nil
	w.Op = "IndexRank64"
	idx := bitmap.IndexRank64(words)
	idxF := bitmap.IndexRank64(words, false)
	// "no option" also arrives as a nil and as an empty non-nil variadic slice
	if ie, in := bitmap.IndexRank64(words, []bool{}...), bitmap.IndexRank64(words, []bool(nil)...); !eqI32(ie, idxF) || !eqI32(in, idxF) {
		w.Fail("IndexRank64/empty-variadic-differs-from-no-option", mon.D{"nwords": len(words)})
		return false
	}
	idxT := bitmap.IndexRank64(words, true)
	if nw > 0 && words[0]&3 == 1 {
		// a caller builds other indexes of the same bitmap in between (whatever the builders keep between calls may be
		// shared between them)
		w.Op = "IndexSelect32/IndexSelect32R64 (neighbouring builders between two rank builders)"
		bitmap.IndexSelect32(words)
		bitmap.IndexSelect32R64(words)
	}
	w.Op = "IndexRank128"
	idx128 := bitmap.IndexRank128(words)
	w.Eval(4)
	// indexes returned for earlier bitmaps must not have been changed by building these
	ret, _ := w.State["c01"].(*retained)
	if ret == nil {
		ret = &retained{}
		w.State["c01"] = ret
	}
	_ = ret // the returned indexes are scribbled and retained at the end of the check
	w.Bucket("index/trailing")
	w.Bucket("index/no-trailing")
	d := func(extra mon.D) mon.D {
		extra["words"] = truncW(orig, 6)
		extra["nwords"] = nw
		return extra
	}
	if len(idx) != nw || len(idxF) != nw || len(idxT) != nw+1 || len(idx128) != nw/2+1 {
		w.Fail("Index/shape", d(mon.D{"len_idx64": len(idx), "len_idx64_trailing": len(idxT), "len_idx128": len(idx128)}))
		return false
	}
	// the queries get the indexes as a caller may hold them: views into a larger array (an index file loaded into
	// one buffer), poison before and between len and cap
	qIdx, gIdx := dirtyI32(idx)
	qIdxT, gIdxT := dirtyI32(idxT)
	qIdx128, gIdx128 := dirtyI32(idx128)
	var cnt int32
	var bk [12]int64
	parity := nw & 1
	total := nw * 64
	for i := 0; i < total; i++ {
		if i&63 == 0 {
			k := i >> 6
			if idx[k] != cnt || idxF[k] != cnt || idxT[k] != cnt {
				w.Fail("IndexRank64/entry", d(mon.D{"entry": k, "got": idx[k], "got_trailing_variant": idxT[k], "expected": cnt}))
				return false
			}
			if i&127 == 0 && idx128[i>>7] != cnt {
				w.Fail("IndexRank128/entry", d(mon.D{"entry": i >> 7, "got": idx128[i>>7], "expected": cnt}))
				return false
			}
		}
		bit := int32(bitAt(orig, i))
		w.Op, w.A = "Rank64", int64(i)
		c1, b1 := bitmap.Rank64(words, qIdx, int32(i))
		c2, b2 := bitmap.Rank64(words, qIdxT, int32(i))
		w.Op = "Rank128"
		c3, b3 := bitmap.Rank128(words, qIdx128, int32(i))
		if c1 != cnt || c2 != cnt || b1 != bit || b2 != bit {
			cls := "count"
			if c1 == cnt && c2 == cnt {
				cls = "bit"
			}
			w.Fail("Rank64/"+cls, d(mon.D{"i": i, "got": []int32{c1, b1}, "got_trailing_index": []int32{c2, b2}, "expected": []int32{cnt, bit}}))
			return false
		}
		if c3 != cnt || b3 != bit {
			cls := "count"
			if c3 == cnt {
				cls = "bit"
			}
			w.Fail("Rank128/"+cls, d(mon.D{"i": i, "got": []int32{c3, b3}, "expected": []int32{cnt, bit}, "index128": trunc32(idx128, 8)}))
			return false
		}
		cnt += bit
	}
	// entries past the sweep: grand totals
	if idxT[nw] != cnt {
		w.Fail("IndexRank64/trailing-total", d(mon.D{"got": idxT[nw], "expected": cnt}))
		return false
	}
	if nw&1 == 0 && idx128[nw/2] != cnt {
		w.Fail("IndexRank128/last-entry", d(mon.D{"got": idx128[nw/2], "expected": cnt}))
		return false
	}
	if !eqWords(words, orig) {
		w.Fail("Rank/input-modified", d(mon.D{}))
		return false
	}
	if !guard() {
		w.Fail("Rank/wrote-outside-len-of-argument", d(mon.D{"what": "poison next to the bitmap (before it, or between len and cap) was overwritten"}))
		return false
	}
	if !gIdx() || !gIdxT() || !gIdx128() || !eqI32(qIdx, idx) || !eqI32(qIdxT, idxT) || !eqI32(qIdx128, idx128) {
		w.Fail("Rank/wrote-to-or-outside-the-index-argument", d(mon.D{"what": "the rank index passed to Rank64/Rank128, or the poison next to it, changed during the queries"}))
		return false
	}
	// the bitmap and its indexes in memory that cannot be written (ro.go): same indexes, same answers, no fault
	if w.Idx()%4 == 2 && nw > 0 {
		roReset(w)
		rw, r64, r64t, r128 := roWords(w, orig), roI32(w, idx), roI32(w, idxT), roI32(w, idx128)
		if release, ok := roSeal(w); ok {
			w.Op = "IndexRank64(read-only bitmap)"
			a, b := bitmap.IndexRank64(rw), bitmap.IndexRank64(rw, true)
			w.Op = "IndexRank128(read-only bitmap)"
			c := bitmap.IndexRank128(rw)
			if !eqI32(a, idx) || !eqI32(b, idxT) || !eqI32(c, idx128) {
				release()
				w.Fail("Index/differs-on-read-only-bitmap", d(mon.D{}))
				return false
			}
			step := 1
			if total > 512 {
				step = total/512 | 1
			}
			for i := 0; i < total; i += step {
				w.Op, w.A = "Rank64(read-only bitmap and index)", int64(i)
				c1, b1 := bitmap.Rank64(rw, r64, int32(i))
				c2, b2 := bitmap.Rank64(rw, r64t, int32(i))
				w.Op = "Rank128(read-only bitmap and index)"
				c3, b3 := bitmap.Rank128(rw, r128, int32(i))
				e1, f1 := bitmap.Rank64(words, qIdx, int32(i))
				if c1 != e1 || c2 != e1 || c3 != e1 || b1 != f1 || b2 != f1 || b3 != f1 {
					release()
					w.Fail("Rank/differs-on-read-only-arguments", d(mon.D{"i": i, "got64": []int32{c1, b1}, "got64_trailing_index": []int32{c2, b2}, "got128": []int32{c3, b3}, "expected": []int32{e1, f1}}))
					return false
				}
			}
			release()
			w.Eval(3 + 3*int64((total+step-1)/step))
			w.Bucket("arguments-in-read-only-memory")
		}
	}
	// the caller updates the bitmap IN PLACE (same backing array, same length) and indexes it again,
	// repeating the builder calls in reverse order so that each one directly follows a call of the
	// same function with the same options on the old content: the new indexes must describe the new content
	if nw > 0 {
		k := int((orig[0] >> 7) % uint64(nw))
		words[k] ^= 1<<uint(orig[0]&63) | 1<<uint((orig[0]>>8)&63)
		w.Op = "IndexRank128(after in-place update)"
		r128 := bitmap.IndexRank128(words)
		w.Op = "IndexRank64(after in-place update)"
		rT := bitmap.IndexRank64(words, true)
		rF := bitmap.IndexRank64(words, false)
		r64 := bitmap.IndexRank64(words)
		w.Eval(4)
		if len(rT) != nw+1 || len(rF) != nw || len(r64) != nw || len(r128) != nw/2+1 {
			w.Fail("Index/shape", d(mon.D{"what": "indexes built for the updated bitmap", "len_idx64": len(r64), "len_idx64_trailing": len(rT), "len_idx128": len(r128)}))
			return false
		}
		var c int32
		for i := 0; i <= nw; i++ {
			bad := rT[i] != c || (i < nw && (rF[i] != c || r64[i] != c)) || (i&1 == 0 && i/2 < len(r128) && r128[i/2] != c)
			if bad {
				w.Fail("Index/stale-after-in-place-update", d(mon.D{"what": "the bitmap was changed in place (word " + fmt.Sprint(k) + ") and indexed again; the new index does not describe the new content",
					"entry": i, "expected": c, "IndexRank64_trailing": rT[i]}))
				return false
			}
			if i < nw {
				for x := words[i]; x != 0; x &= x - 1 {
					c++
				}
			}
		}
		w.Bucket("index/rebuilt-after-in-place-update")
	}
	// hostile caller: the returned index slices are ours now - overwrite them up to their capacity
	// (a shared or pooled buffer would poison later results), then remember their content
	scribbleI32(idx)
	scribbleI32(idxF)
	scribbleI32(idxT)
	scribbleI32(idx128)
	if ret.keep(idx, idxT, idx128) >= 0 {
		w.Fail("Index/earlier-returned-index-changed-by-later-call", mon.D{"what": "an index slice returned by an earlier IndexRank64/IndexRank128 call changed its content after a later call", "nwords_of_later_bitmap": nw})
		return false
	}
	w.Eval(int64(3 * total))
	// each word contributes its 64 positions to one (len parity, half of the 128-bit block, word position) class
	for wi := 0; wi < nw; wi++ {
		q := 1
		if wi == nw-1 {
			q = 2
		}
		if wi == 0 {
			q = 0
		}
		bk[parity*6+(wi&1)*3+q] += 64
	}
	for k, v := range bk {
		w.BucketN(c01BucketNames[k], v)
	}
	switch {
	case nw == 0:
		w.Bucket("bitmap/empty")
	case int(cnt) == 0:
		w.Bucket("bitmap/all-zero")
	case int(cnt) == total:
		w.Bucket("bitmap/all-one")
	default:
		w.Distinct(gen.HashWords(orig))
	}
	return true
}

func c01Product(w *mon.W, idx int) {
	var words []uint64
	r := w.Rng
	switch {
	case idx == 0:
		words = []uint64{}
		if !c01Check(w, nil) { // a nil bitmap is an empty bitmap too
			return
		}
	case idx < 1+6:
		words = []uint64{c01Extreme[idx-1]}
	case idx < 1+6+36:
		k := idx - 7
		words = []uint64{c01Extreme[k%6], c01Extreme[k/6]}
	case idx < 1+6+36+216:
		k := idx - 43
		words = []uint64{c01Extreme[k%6], c01Extreme[(k/6)%6], c01Extreme[k/36]}
	default:
		n := 4 + r.Intn(6)
		words = make([]uint64, n)
		for i := range words {
			words[i] = c01Extreme[r.Intn(6)]
		}
	}
	if c01Check(w, words) {
		w.Sample(func() interface{} { return mon.D{"words": hexWords(words), "positions_checked": 64 * len(words)} })
	}
}

func c01Lanes(w *mon.W, idx int) {
	lane := idx % 8
	pos := idx / 8
	r := w.Rng
	for v := 0; v < 256; v++ {
		n := pos + 1 + r.Intn(2)
		words := make([]uint64, n)
		for i := range words {
			words[i] = gen.ZooWord(r, r.Intn(gen.NWordClasses))
		}
		words[pos] = uint64(v) << (8 * uint(lane))
		if !c01Check(w, words) {
			return
		}
	}
	w.Extra("byte_lane_words_enumerated", 256)
	w.Sample(func() interface{} { return mon.D{"lane": lane, "word_position": pos, "lane_values": "0..255"} })
}

func c01Zoo(w *mon.W, idx int) {
	r := w.Rng
	words := gen.ZooBitmap(r, 1+idx%40)
	if idx%10 == 7 {
		words = gen.RunBitmap(r, 140+idx%280) // runs of empty / full / random words with lengths on and next to powers of two
		w.Bucket("bitmap/run-structured")
	}
	if c01Check(w, words) {
		w.Sample(func() interface{} { return mon.D{"nwords": len(words), "first_words": truncW(words, 4)} })
	}
}

func c01ZooLong(w *mon.W, idx int) {
	r := w.Rng
	n := 41 + r.Intn(w.Cfg.Pick(160, 1960))
	words := gen.ZooBitmap(r, n)
	if c01Check(w, words) {
		w.Sample(func() interface{} { return mon.D{"nwords": len(words), "first_words": truncW(words, 3)} })
	}
}

// c01DenseLong: all-one and dense bitmaps of 520..2100 words (quick) / up to 40000 words (thorough),
// so that prefix counts pass 2^15 and 2^16.
func c01DenseLong(w *mon.W, idx int) {
	r := w.Rng
	n := []int{520, 1030, 1100, 2100}[idx%4]
	if w.Cfg.Thorough() && idx%16 == 15 {
		n = 10000 + r.Intn(30000)
	}
	if idx >= 6 && idx < 8 || w.Cfg.Thorough() && idx%32 == 7 {
		n = []int{65536, 65539, 131075, 70000 + r.Intn(9)}[r.Intn(4)] // at and beyond 2^16 words
		w.Bucket("words>=65536")
	}
	words := make([]uint64, n)
	for i := range words {
		switch (idx / 4) % 2 {
		case 0:
			words[i] = ^uint64(0)
		default:
			words[i] = r.Uint64() | r.Uint64() | r.Uint64()
		}
	}
	if idx%8 >= 4 {
		words[r.Intn(n)] = 0
	}
	w.Tick()
	if c01Check(w, words) {
		ones := 0
		for _, x := range words {
			for ; x != 0; x &= x - 1 {
				ones++
			}
		}
		if ones >= 32768 {
			w.Bucket("ones>=32768")
		}
		if ones >= 65536 {
			w.Bucket("ones>=65536")
		}
		w.Sample(func() interface{} { return mon.D{"nwords": n, "ones": ones, "what": "dense long bitmap"} })
	}
}

// c01Huge (round 12): the largest bitmaps whose positions an int32 can name - 2^25-1 and 2^25 words (2^31 bits: the
// last position is MaxInt32). A few 1-bits at the head, around 2^30 and in the last words; the pages in between are never
// written. The indexes are built by the library and checked at sampled entries against the closed form; queries at the
// positions around every 1-bit and at the very top. Not in the 386 flavour (the bitmap and its indexes take 450 MiB of
// address space).
func c01Huge(w *mon.W, _ int) {
	for _, nw := range []int{1<<25 - 1, 1 << 25} {
		n := int64(nw) * 64
		words, release := hugeZeroWords(nw)
		defer release()
		ones := []int64{3, 64, 127, 1 << 20, 1<<30 + 5, n - 4000, n - 129, n - 128, n - 65, n - 64, n - 2, n - 1}
		for _, p := range ones {
			words[p>>6] |= 1 << uint(p&63)
		}
		rank := func(i int64) int32 {
			var c int32
			for _, p := range ones {
				if p < i {
					c++
				}
			}
			return c
		}
		bit := func(i int64) int32 { return int32(words[i>>6] >> uint(i&63) & 1) }
		w.Op, w.A = "IndexRank64(huge)", int64(nw)
		i64 := bitmap.IndexRank64(words)
		w.Tick()
		i64t := bitmap.IndexRank64(words, true)
		w.Tick()
		w.Op = "IndexRank128(huge)"
		i128 := bitmap.IndexRank128(words)
		w.Tick()
		if len(i64) != nw || len(i64t) != nw+1 || len(i128) != nw/2+1 {
			w.Fail("Index/shape", mon.D{"nwords": nw, "len_idx64": len(i64), "len_idx64_trailing": len(i64t), "len_idx128": len(i128)})
			return
		}
		var ks []int64
		for _, p := range ones {
			for d := int64(-2); d <= 2; d++ {
				if k := p>>6 + d; k >= 0 && k < int64(nw) {
					ks = append(ks, k)
				}
			}
		}
		ks = append(ks, 0, 1, int64(nw)/2, int64(nw)-1)
		for _, k := range ks {
			e := rank(64 * k)
			if i64[k] != e || i64t[k] != e || (k&1 == 0 && i128[k/2] != e) {
				w.Fail("IndexRank/entry/huge-bitmap", mon.D{"nwords": nw, "entry": k, "idx64": i64[k], "idx64_trailing": i64t[k], "idx128": i128[k/2], "expected": e})
				return
			}
		}
		if i64t[nw] != int32(len(ones)) || (nw&1 == 0 && i128[nw/2] != int32(len(ones))) {
			w.Fail("IndexRank/total/huge-bitmap", mon.D{"nwords": nw, "trailing_total": i64t[nw], "expected": len(ones)})
			return
		}
		var qs []int64
		for _, p := range ones {
			for d := int64(-66); d <= 66; d++ {
				if q := p + d; q >= 0 && q < n {
					qs = append(qs, q)
				}
			}
		}
		for d := int64(1); d <= 200; d++ {
			qs = append(qs, n-d)
		}
		qs = append(qs, 0, n/2, 1<<31-1-64*int64(1-b2i(nw == 1<<25)))
		var ev int64
		for _, q := range qs {
			if q < 0 || q >= n || q > 1<<31-1 {
				continue
			}
			er, eb := rank(q), bit(q)
			w.Op, w.A, w.B = "Rank64(huge)", q, int64(nw)
			c1, b1 := bitmap.Rank64(words, i64, int32(q))
			c2, b2 := bitmap.Rank64(words, i64t, int32(q))
			w.Op = "Rank128(huge)"
			c3, b3 := bitmap.Rank128(words, i128, int32(q))
			ev += 3
			if c1 != er || c2 != er || c3 != er || b1 != eb || b2 != eb || b3 != eb {
				w.Fail("Rank/huge-bitmap", mon.D{"nwords": nw, "i": q, "rank64": []int32{c1, b1}, "rank64_trailing_index": []int32{c2, b2}, "rank128": []int32{c3, b3}, "expected": []int32{er, eb}})
				return
			}
		}
		w.Eval(ev + 3)
		w.Tick()
	}
	w.Bucket("bitmap=2^31-bits")
	w.Distinct(gen.Hash64(0x2b31, 2))
	w.Sample(func() interface{} {
		return mon.D{"nwords": []int{1<<25 - 1, 1 << 25}, "what": "indexes built by the library, queries around every 1-bit and at the last 200 positions"}
	})
}
