package props

import (
	"github.com/openacid/low/bitmap"
	"github.com/openacid/low/bitstr"
	"github.com/openacid/low/bitword"
	"github.com/openacid/low/bmtree"
	"github.com/openacid/low/sigbits"

	"verif/internal/gen"
)

// The call universe of C19: every query / codec function named in the property's quantifier,
// plus the index builders and path helpers. A call is (function id, three small integers that
// select shared corpus elements or are literal arguments); its result is folded into one hash.

const (
	fRank64 = iota
	fRank128
	fSelect32
	fSelect32R64
	fNextOne
	fPrevOne
	fSlice
	fToArray
	fGetw
	fGetFamily
	fFromStr32
	fIndexBuilders
	fOf
	fJoin
	fPathToIndex
	fIndexToPath
	fAllPaths
	fDecode
	fPathsOf
	fPathHelpers
	fBitstrCmp
	fBitstrCmpUpto
	fBitstrStrCmpUpto
	fBitstrNewLen
	fBitwordFromStrGet
	fBitwordToStr
	fBitwordFirstDiff
	fBitwordStrs
	fFirstDiffBits
	fShardByPrefix
	fSigNewCountPrefixes
	fSharedSigCountPrefixes
	fNFuncs
)

var c19FnNames = [fNFuncs]string{
	"bitmap.Rank64", "bitmap.Rank128", "bitmap.Select32", "bitmap.Select32R64", "bitmap.NextOne", "bitmap.PrevOne", "bitmap.Slice", "bitmap.ToArray",
	"bitmap.Getw", "bitmap.Get/Get1/SafeGet/SafeGet1", "bitmap.FromStr32", "bitmap.IndexRank64/128/IndexSelect32/R64", "bitmap.Of", "bitmap.Join",
	"bmtree.PathToIndex/Loose", "bmtree.IndexToPath", "bmtree.AllPaths", "bmtree.Decode", "bmtree.PathOf/PathsOf", "bmtree.NewPath/PathStr/PathLen/...",
	"bitstr.Cmp", "bitstr.CmpUpto", "bitstr.StrCmpUpto", "bitstr.New/Len",
	"bitword.FromStr/Get", "bitword.ToStr", "bitword.FirstDiff", "bitword.FromStrs/ToStrs",
	"sigbits.FirstDiffBits", "sigbits.ShardByPrefix", "sigbits.New+CountPrefixes", "SigBits.CountPrefixes(shared)",
}

type c19Call struct {
	fn      uint8
	a, b, c int32
	m       int32 // > 0: the main slice argument is passed as its prefix [:m] (cap > len), see c19Exec
}

var c19JoinWidths = []int32{1, 2, 4, 8, 16, 32, 64}
var c19BWWidths = []int{1, 2, 4, 8}

// c19Gen draws a call whose arguments are inside the functions' stated domains.
func c19Gen(r *gen.Rand, cp *c19Corpus, shared bool) c19Call {
	for {
		fn := r.Intn(fNFuncs)
		if fn == fSharedSigCountPrefixes && !shared {
			continue
		}
		call := c19Call{fn: uint8(fn)}
		switch fn {
		case fRank64, fRank128, fGetFamily:
			b := r.Intn(len(cp.bms))
			n := len(cp.bms[b].words)
			if fn != fRank128 && n >= 2 && r.Intn(3) == 0 {
				n = 1 + r.Intn(n-1)
				call.m = int32(n)
			}
			call.a, call.b, call.c = int32(b), int32(r.Intn(64*n)), int32(r.Intn(2))
			if call.m > 0 {
				call.c = 0 // the trailing-total index belongs to the full bitmap
			}
		case fSelect32, fSelect32R64:
			b := cp.sel[r.Intn(len(cp.sel))]
			call.a, call.b = int32(b), int32(r.Intn(cp.bms[b].ones))
		case fNextOne, fPrevOne, fSlice:
			b := r.Intn(len(cp.bms))
			nw := len(cp.bms[b].words)
			if nw >= 2 && r.Intn(3) == 0 {
				nw = 1 + r.Intn(nw-1)
				call.m = int32(nw)
			}
			n := 64 * nw
			i := r.Intn(n)
			e := i + r.Intn(n-i+1)
			if fn == fPrevOne && e < 1 {
				e = 1
			}
			call.a, call.b, call.c = int32(b), int32(i), int32(e)
		case fToArray, fIndexBuilders, fOf:
			b := r.Intn(len(cp.bms))
			call.a = int32(b)
			if n := len(cp.bms[b].words); fn != fOf && n >= 2 && r.Intn(2) == 0 {
				call.m = int32(1 + r.Intn(n-1))
			}
			if n := len(cp.bms[b].pos); fn == fOf && n >= 2 && r.Intn(2) == 0 {
				call.m = int32(1 + r.Intn(n-1))
			}
			if fn == fOf {
				call.c = int32(r.Intn(2)) // 1: the positions in shuffled order
			}
		case fGetw:
			b := r.Intn(len(cp.bms))
			w := c19JoinWidths[r.Intn(7)]
			call.a, call.b, call.c = int32(b), int32(r.Intn(64*len(cp.bms[b].words)/int(w))), w
		case fFromStr32:
			s := r.Intn(len(cp.strs))
			call.a, call.b, call.c = int32(s), int32(r.Intn(8*len(cp.strs[s])+10)), int32(r.Intn(33))
		case fJoin:
			call.a, call.b = int32(r.Intn(len(cp.vals))), c19JoinWidths[r.Intn(7)]
			if n := len(cp.vals[call.a]); n >= 2 && r.Bool() {
				call.m = int32(1 + r.Intn(n-1))
			}
		case fPathToIndex:
			call.a, call.b, call.c = int32(r.Intn(len(cp.masks)+len(cp.bigMasks))), int32(r.Uint64()>>33), int32(r.Intn(31))
		case fIndexToPath:
			h := r.Intn(31)
			call.a, call.b = int32(h), int32(r.Uint64()%uint64((int64(1)<<uint(h+1))-1))
		case fAllPaths:
			call.a, call.b, call.c = int32(r.Intn(len(cp.masks))), int32(r.Intn(600)), int32(r.Intn(600))
		case fDecode:
			call.a = int32(r.Intn(len(cp.masks)))
			if n := len(cp.decBms[call.a]); n >= 2 && r.Intn(3) == 0 {
				call.m = int32(1 + r.Intn(n-1))
			}
		case fPathsOf:
			call.a, call.b, call.c = int32(r.Intn(len(cp.keyLists))), int32(r.Intn(40)), int32(r.Intn(33)<<1|r.Intn(2))
		case fPathHelpers:
			call.a, call.b, call.c = int32(r.Intn(33)), int32(r.Intn(33)), int32(r.Uint64()>>33)
		case fBitstrCmp:
			call.a, call.b = int32(r.Intn(len(cp.encs))), int32(r.Intn(len(cp.encs)))
		case fBitstrCmpUpto, fBitstrStrCmpUpto:
			call.a, call.b = int32(r.Intn(len(cp.plainB))), int32(r.Intn(len(cp.encs)))
			if r.Bool() {
				call.b = call.a // the related pair
			}
		case fBitstrNewLen:
			call.a = int32(r.Intn(len(cp.encSrc)))
		case fBitwordFromStrGet:
			call.a, call.b, call.c = int32(r.Intn(4)), int32(r.Intn(len(cp.strs))), int32(r.Intn(1<<20))
		case fBitwordToStr:
			wi := r.Intn(4)
			call.a, call.b = int32(wi), int32(r.Intn(len(cp.bwWords[wi])))
		case fBitwordFirstDiff:
			call.a, call.b, call.c = int32(r.Intn(4)), int32(r.Intn(len(cp.strs))<<10|r.Intn(len(cp.strs))), int32(r.Intn(40)<<8|r.Intn(42))
		case fBitwordStrs, fFirstDiffBits:
			call.a, call.b = int32(r.Intn(4)), int32(r.Intn(len(cp.keyLists)))
			if n := len(cp.keyLists[call.b]); n >= 3 && r.Intn(3) == 0 {
				call.m = int32(2 + r.Intn(n-2))
			}
			if fn == fBitwordStrs && r.Intn(80) == 0 {
				call.c, call.m = 1, 0 // the 5000-string batch
			}
		case fShardByPrefix:
			call.a, call.b = int32(r.Intn(len(cp.keyLists))), int32(1+r.Intn(12))
			if n := len(cp.keyLists[call.a]); n >= 3 && r.Intn(3) == 0 {
				call.m = int32(2 + r.Intn(n-2))
			}
		case fSigNewCountPrefixes, fSharedSigCountPrefixes:
			k := r.Intn(len(cp.keyLists))
			n := len(cp.keyLists[k])
			s := r.Intn(n - 1)
			e := s + 2 + r.Intn(n-s-1)
			call.a, call.b, call.c = int32(k), int32(s<<8|e), int32(1+r.Intn(40))
		}
		return call
	}
}

func hI32(h uint64, v []int32) uint64 {
	for _, x := range v {
		h = gen.Hash64(h, uint64(uint32(x)))
	}
	return gen.Hash64(h, uint64(len(v)))
}

func hStrs(h uint64, v []string) uint64 {
	for _, s := range v {
		h = gen.Hash64(h, gen.HashStr(s))
	}
	return gen.Hash64(h, uint64(len(v)))
}

// c19Exec executes one call on the shared corpus. With g != nil every slice / string argument is
// first copied into a different memory context (other capacity, alignment, poisoned neighbours):
// the result must not change and the poison must stay intact (checked by the caller through g).
// sigs are the shared, library-built SigBits (warm phases only).
func c19Exec(cp *c19Corpus, sigs []*sigbits.SigBits, call c19Call, g *c19Guards) uint64 {
	W := func(w []uint64) []uint64 {
		if g != nil {
			return g.words(w)
		}
		return w
	}
	I := func(w []int32) []int32 {
		if g != nil {
			return g.i32(w)
		}
		return w
	}
	S := func(s string) string {
		if g != nil {
			return g.str(s)
		}
		return s
	}
	B := func(b []byte) []byte {
		if g != nil {
			return g.bytes(b)
		}
		return b
	}
	L := func(l []string) []string {
		if g != nil {
			return g.strs(l)
		}
		return l
	}
	// prefix views of shared slices: len < cap, the rest of the backing array belongs to other readers
	PW := func(w []uint64) []uint64 {
		if call.m > 0 && int(call.m) < len(w) {
			return w[:call.m]
		}
		return w
	}
	PI := func(w []int32) []int32 {
		if call.m > 0 && int(call.m) < len(w) {
			return w[:call.m]
		}
		return w
	}
	PL := func(l []string) []string {
		if call.m > 0 && int(call.m) < len(l) {
			return l[:call.m]
		}
		return l
	}
	// a word-slice result must not be a view of the word-slice argument (checked in the guarded replay, where the
	// argument is a private copy: the shared corpus itself is never handed to anything that might be appended to)
	noAlias := func(res, arg []uint64) []uint64 {
		if g != nil && overlapW(res, arg) {
			g.alias = true
		}
		return res
	}
	h := uint64(call.fn)
	switch int(call.fn) {
	case fRank64:
		b := &cp.bms[call.a]
		idx := b.r64
		if call.c == 1 {
			idx = b.r64t
		}
		c, bit := bitmap.Rank64(W(PW(b.words)), I(PI(idx)), call.b)
		return gen.Hash64(h, uint64(c), uint64(bit))
	case fRank128:
		b := &cp.bms[call.a]
		c, bit := bitmap.Rank128(W(b.words), I(b.r128), call.b)
		return gen.Hash64(h, uint64(c), uint64(bit))
	case fSelect32:
		b := &cp.bms[call.a]
		x, y := bitmap.Select32(W(b.words), I(b.sidx), call.b)
		return gen.Hash64(h, uint64(x), uint64(y))
	case fSelect32R64:
		b := &cp.bms[call.a]
		x, y := bitmap.Select32R64(W(b.words), I(b.sidx), I(b.r64t), call.b)
		return gen.Hash64(h, uint64(x), uint64(y))
	case fNextOne:
		return gen.Hash64(h, uint64(uint32(bitmap.NextOne(W(PW(cp.bms[call.a].words)), call.b, call.c))))
	case fPrevOne:
		return gen.Hash64(h, uint64(uint32(bitmap.PrevOne(W(PW(cp.bms[call.a].words)), call.b, call.c))))
	case fSlice:
		arg := W(PW(cp.bms[call.a].words))
		return gen.Hash64(h, gen.HashWords(noAlias(bitmap.Slice(arg, call.b, call.c), arg)))
	case fToArray:
		return hI32(h, bitmap.ToArray(W(PW(cp.bms[call.a].words))))
	case fGetw:
		return gen.Hash64(h, bitmap.Getw(W(cp.bms[call.a].words), call.b, call.c))
	case fGetFamily:
		w := W(PW(cp.bms[call.a].words))
		return gen.Hash64(h, bitmap.Get(w, call.b), bitmap.Get1(w, call.b), bitmap.SafeGet(w, call.b), bitmap.SafeGet1(w, call.b+int32(64*len(w))))
	case fFromStr32:
		n, v := bitmap.FromStr32(S(cp.strs[call.a]), call.b, call.b+call.c)
		return gen.Hash64(h, uint64(n), v)
	case fIndexBuilders:
		w := W(PW(cp.bms[call.a].words))
		h = hI32(h, bitmap.IndexRank64(w))
		h = hI32(h, bitmap.IndexRank64(w, true))
		h = hI32(h, bitmap.IndexRank128(w))
		h = hI32(h, bitmap.IndexSelect32(w))
		s, r := bitmap.IndexSelect32R64(w)
		return hI32(hI32(h, s), r)
	case fOf:
		b := &cp.bms[call.a]
		src := b.pos
		if call.c == 1 {
			src = b.posShuf
		}
		return gen.Hash64(h, gen.HashWords(bitmap.Of(I(PI(src)), int32(64*len(b.words)))))
	case fJoin:
		arg := W(PW(cp.vals[call.a]))
		return gen.Hash64(h, gen.HashWords(noAlias(bitmap.Join(arg, call.b), arg)))
	case fPathToIndex:
		var m uint32
		if int(call.a) < len(cp.masks) {
			m = cp.masks[call.a]
		} else {
			m = cp.bigMasks[int(call.a)-len(cp.masks)]
		}
		ht := bmHeight(m)
		l := int(call.c) % (ht + 1)
		prefix := uint64(call.b) & ((uint64(1) << uint(l)) - 1)
		p := bmPathWord(prefix, l, ht)
		i, has := bmtree.PathToIndexLoose(int32(m), p)
		h = gen.Hash64(h, uint64(uint32(i)), uint64(has))
		if has == 1 {
			h = gen.Hash64(h, uint64(uint32(bmtree.PathToIndex(int32(m), p))))
		}
		return h
	case fIndexToPath:
		return gen.Hash64(h, bmtree.IndexToPath(call.a, call.b))
	case fAllPaths:
		m := cp.masks[call.a]
		// a quarter of the ranges start at the very first path; the low half of `to` is 0, the top bit, all ones or a
		// small value (end points on, between and beyond path words)
		from, to := uint64(call.b)<<31, uint64(call.c>>2)<<32|[4]uint64{0, 0x80000000, 0xffffffff, 0x10}[call.c&3]
		if call.b&3 == 0 {
			from = 0
		}
		ap := bmtree.AllPaths(int32(m), from, to)
		if g != nil && overlapW(ap, bmtree.AllPaths(int32(m), from, to)) {
			g.alias = true
		}
		return gen.Hash64(h, gen.HashWords(ap))
	case fDecode:
		arg := W(PW(cp.decBms[call.a]))
		return gen.Hash64(h, gen.HashWords(noAlias(bmtree.Decode(int32(cp.masks[call.a]), arg), arg)))
	case fPathsOf:
		ks := L(cp.keyLists[call.a])
		ht := call.c >> 1
		h = gen.Hash64(h, gen.HashWords(bmtree.PathsOf(ks, call.b, ht, call.c&1 == 1)))
		return gen.Hash64(h, bmtree.PathOf(ks[0], call.b, ht))
	case fPathHelpers:
		ht, l := int(call.a), int(call.b)
		if l > ht {
			l = ht
		}
		prefix := uint64(call.c) & ((uint64(1) << uint(l)) - 1)
		p := bmtree.NewPath(prefix<<uint(ht-l), int32(l), int32(ht))
		return gen.Hash64(h, p, uint64(bmtree.PathLen(p)), uint64(bmtree.PathHeight(p)), bmtree.PathBits(p), bmtree.PathMask(p), gen.HashStr(bmtree.PathStr(p)), uint64(bmtree.Height(int32(call.c|1))))
	case fBitstrCmp:
		return gen.Hash64(h, uint64(bitstr.Cmp(B(cp.encs[call.a]), B(cp.encs[call.b]))+1))
	case fBitstrCmpUpto:
		return gen.Hash64(h, uint64(bitstr.CmpUpto(B(cp.plainB[call.a]), B(cp.encs[call.b]))+1))
	case fBitstrStrCmpUpto:
		// the same logical result as CmpUpto: folded with CmpUpto's function id on purpose, so the
		// sequential recomputation also ties the two together
		return gen.Hash64(uint64(fBitstrCmpUpto), uint64(bitstr.StrCmpUpto(S(cp.plainS[call.a]), B(cp.encs[call.b]))+1))
	case fBitstrNewLen:
		src := cp.encSrc[call.a]
		e := bitstr.New(S(cp.strs[src[0]]), int32(src[1]), int32(src[2]))
		if g != nil {
			// two calls hand out two objects: the results must not share memory (one owner writing to its encoding
			// would change the other's)
			if e2 := bitstr.New(cp.strs[src[0]], int32(src[1]), int32(src[2])); overlapB(e, e2) {
				g.alias = true
			}
		}
		return gen.Hash64(h, gen.HashBytes(e), uint64(bitstr.Len(e)), uint64(bitstr.Len(B(cp.encs[call.a]))))
	case fBitwordFromStrGet:
		n := c19BWWidths[call.a]
		bw := bitword.BitWord[n]
		s := S(cp.strs[call.b])
		fs := bw.FromStr(s)
		if g != nil && overlapB(fs, bw.FromStr(s)) {
			g.alias = true
		}
		h = gen.Hash64(h, gen.HashBytes(fs))
		if nw := 8 * len(s) / n; nw > 0 {
			h = gen.Hash64(h, uint64(bw.Get(s, int(call.c)%nw)))
		}
		return h
	case fBitwordToStr:
		return gen.Hash64(h, gen.HashStr(bitword.BitWord[c19BWWidths[call.a]].ToStr(B(cp.bwWords[call.a][call.b]))))
	case fBitwordFirstDiff:
		bw := bitword.BitWord[c19BWWidths[call.a]]
		sa, sb := S(cp.strs[call.b>>10]), S(cp.strs[call.b&1023])
		return gen.Hash64(h, uint64(bw.FirstDiff(sa, sb, int(call.c>>8), int(call.c&255)-1)))
	case fBitwordStrs:
		bw := bitword.BitWord[c19BWWidths[call.a]]
		lst := cp.keyLists[call.b]
		if call.c == 1 {
			lst = cp.bigStrs
		}
		ws := bw.FromStrs(L(PL(lst)))
		for _, x := range ws {
			h = gen.Hash64(h, gen.HashBytes(x))
		}
		return hStrs(h, bw.ToStrs(ws))
	case fFirstDiffBits:
		return hI32(h, sigbits.FirstDiffBits(L(PL(cp.keyLists[call.b]))))
	case fShardByPrefix:
		l, b := sigbits.ShardByPrefix(L(PL(cp.keyLists[call.a])), call.b)
		return hI32(hI32(h, l), b)
	case fSigNewCountPrefixes:
		sb := sigbits.New(L(cp.keyLists[call.a]))
		m, cs := sb.CountPrefixes(call.b>>8, call.b&255, call.c)
		// same logical result as on the shared SigBits
		return hI32(gen.Hash64(uint64(fSharedSigCountPrefixes), uint64(m)), cs)
	case fSharedSigCountPrefixes:
		m, cs := sigs[call.a].CountPrefixes(call.b>>8, call.b&255, call.c)
		return hI32(gen.Hash64(h, uint64(m)), cs)
	}
	panic("c19: unknown function id")
}
