package props

import (
	"fmt"

	"github.com/openacid/low/bitmap"

	"verif/internal/gen"
	"verif/internal/mon"
)

// C14 — Join/Getw pack fixed-width words losslessly; Slice copies a bit range.

var c14Widths = []int32{1, 2, 4, 8, 16, 32, 64}

func init() {
	register(&mon.Prop{
		ID:    "C14",
		Level: "exploration",
		Rule: "Join: every width x every list length 0..130 (x repetitions) with random high bits, every element read back with Getw and the whole " +
			"result compared word-for-word with an independently built bitmap; Slice: ALL (from,to) windows of zoo bitmaps of 1..3 words, sampled windows of 4..40 words. " +
			"Non-trivial+distinct = hash of (width, values) with a non-empty list carrying at least one bit above w (w<64), or hash of (bitmap, from, to) batches whose bitmap has both 0s and 1s.",
		Assumptions: []string{"Getw/Join widths restricted to {1,2,4,8,16,32,64} and Slice to 0<=from<=to<=64*len (the stated domain)",
			"nothing asserted about capacity of returned slices"},
		Flavours: releaseAnd386,
		Required: []string{"join/element-index*width>=2^31", "long-run/calls>=100000-per-function", "arguments-in-read-only-memory", "join/w=1", "join/w=2", "join/w=4", "join/w=8", "join/w=16", "join/w=32", "join/w=64", "join/empty", "join/long-list",
			"slice/empty", "slice/aligned", "slice/unaligned", "slice/multiword", "slice/to-end", "slice/sub-word", "slice/bitmap>=2^31-bits"},
		Families: func(c *mon.Config) []mon.Family {
			reps := c.Pick(6, 1000)
			return []mon.Family{
				{Name: "cold-start", N: 1, Serial: true, Run: func(w *mon.W, _ int) {
					l := coldPick(coldBitmapCalls(), "Getw", "Join", "Slice")
					if coldFirst(w, l) && coldLast(w, l) {
						w.Bucket("cold-start")
					}
				}},
				{Name: "join", Env: 4, N: len(c14Widths) * 131 * reps, Run: c14Join},
				{Name: "slice-all", N: c.Pick(900, 150000), Run: c14SliceAll},
				{Name: "slice-zoo", Env: 6, N: c.Pick(4000, 1000000), Run: c14SliceZoo},
				{Name: "slice-huge-bitmap", N: 1, Run: c14SliceHuge},
				{Name: "join-beyond-2^31-bits", NoCold: true, N: b2i(c.Base() != "386"), Run: c14JoinHuge},
				{Name: "join-long", Env: 3, N: 7 * c.Pick(2, 100), Run: c14JoinLong},
				lrFamily(c14LongRun),
			}
		},
	})
}

func c14Join(w *mon.W, idx int) {
	r := w.Rng
	wi := idx % len(c14Widths)
	n := (idx / len(c14Widths)) % 131
	width := c14Widths[wi]
	vals := make([]uint64, n)
	high := false
	for i := range vals {
		switch r.Intn(4) {
		case 0:
			vals[i] = ^uint64(0)
		case 1:
			vals[i] = gen.ZooWord(r, r.Intn(gen.NWordClasses))
		default:
			vals[i] = r.Uint64()
		}
		if width < 64 && vals[i]>>uint(width) != 0 {
			high = true
		}
	}
	if n == 0 && idx&1 == 1 {
		vals = nil
	}
	in := cloneWords(vals)
	guardV := func() bool { return true }
	roVals := false
	if vals != nil && idx%4 == 2 {
		var rel func()
		if vals, rel, roVals = roOneW(w, vals); roVals {
			defer rel()
		}
	}
	if vals != nil && !roVals {
		vals, guardV = argW(w, vals)
	}
	w.Op, w.A, w.B = "Join", int64(width), int64(n)
	got := bitmap.Join(vals, width)
	if !guardV() {
		w.Fail("Join/wrote-outside-len-of-argument", mon.D{"width": width, "n": n})
		return
	}
	if overlapW(got, vals) {
		w.Fail("Join/result-is-a-view-of-the-argument", mon.D{"width": width, "n": n, "len_result": len(got), "cap_result": cap(got)})
		return
	}
	// oracle: bit j*w+k = bit k of values[j]
	nbits := n * int(width)
	exp := make([]uint64, (nbits+63)/64)
	for j, v := range in {
		for k := 0; k < int(width); k++ {
			if (v>>uint(k))&1 == 1 {
				setBit(exp, j*int(width)+k)
			}
		}
	}
	w.Eval(1)
	w.Bucket(fmt.Sprintf("join/w=%d", width))
	if n == 0 {
		w.Bucket("join/empty")
	}
	if len(got) != len(exp) {
		w.Fail("Join/len", mon.D{"width": width, "n": n, "got_words": len(got), "expected_words": len(exp)})
		return
	}
	if !eqWords(got, exp) {
		w.Fail(fmt.Sprintf("Join/bits/w=%d", width), mon.D{"width": width, "values": truncW(in, 8), "got": truncW(got, 8), "expected": truncW(exp, 8)})
		return
	}
	if !eqWords(vals, in) {
		w.Fail("Join/input-modified", mon.D{"width": width, "n": n})
	}
	w.Op = "Getw"
	qGot, gGot := dirtyW(got) // the bitmap as a view into a larger array
	hGot := gen.HashWords(qGot)
	if idx%4 == 3 && len(got) > 0 { // or in memory that cannot be written
		if v, rel, ok := roOneW(w, got); ok {
			qGot, gGot, hGot = v, func() bool { return true }, gen.HashWords(v)
			defer rel()
		}
	}
	defer func() {
		if !gGot() || gen.HashWords(qGot) != hGot {
			w.Fail("Getw/wrote-to-or-outside-len-of-argument", mon.D{"width": width, "n": n})
		}
	}()
	for i := 0; i < n; i++ {
		w.C = int64(i)
		g := bitmap.Getw(qGot, int32(i), width)
		e := in[i]
		if width < 64 {
			e &= (uint64(1) << uint(width)) - 1
		}
		if g != e {
			w.Fail(fmt.Sprintf("Getw/w=%d", width), mon.D{"width": width, "i": i, "got": g, "expected": e, "bitmap": truncW(got, 8)})
			break
		}
	}
	w.Eval(int64(n))
	if n > 0 && (high || width == 64) {
		w.Distinct(gen.Hash64(uint64(width), gen.HashWords(in)))
	}
	scribbleW(got) // ours now
	if !retainCheck(w, "Join", "bitmap.Join", func() uint64 { return gen.HashWords(got) }) {
		return
	}
	w.Sample(func() interface{} {
		return mon.D{"call": "Join+Getw", "width": width, "values": truncW(in, 4), "n": n, "result_words": len(got)}
	})
}

// c14CheckSlice runs one Slice call against the definition.
func c14CheckSlice(w *mon.W, words, orig []uint64, from, to int) bool {
	w.Op, w.A, w.B = "Slice", int64(from), int64(to)
	got := bitmap.Slice(words, int32(from), int32(to))
	if overlapW(got, words) {
		w.Fail("Slice/result-is-a-view-of-the-argument", mon.D{"nwords": len(orig), "from": from, "to": to, "len_result": len(got), "cap_result": cap(got)})
		return false
	}
	n := to - from
	expLen := (n + 63) / 64
	if len(got) != expLen {
		w.Fail("Slice/len", mon.D{"words": truncW(orig, 4), "nwords": len(orig), "from": from, "to": to, "got_words": len(got), "expected_words": expLen})
		return false
	}
	for k := 0; k < expLen; k++ {
		var e uint64
		lim := n - 64*k
		if lim > 64 {
			lim = 64
		}
		for j := 0; j < lim; j++ {
			e |= bitAt(orig, from+64*k+j) << uint(j)
		}
		if got[k] != e {
			w.Fail("Slice/bits", mon.D{"words": truncW(orig, 4), "from": from, "to": to, "word": k, "got": fmt.Sprintf("%016x", got[k]), "expected": fmt.Sprintf("%016x", e)})
			return false
		}
	}
	if (from+to)%7 == 0 {
		scribbleW(got) // ours now
		if !retainCheck(w, "Slice", "bitmap.Slice", func() uint64 { return gen.HashWords(got) }) {
			return false
		}
	}
	return true
}

func c14Bucket(w *mon.W, nwords, from, to int) {
	switch {
	case from == to:
		w.Bucket("slice/empty")
	case from&63 == 0:
		w.Bucket("slice/aligned")
	default:
		w.Bucket("slice/unaligned")
	}
	if to-from > 64 {
		w.Bucket("slice/multiword")
	} else if to > from && to-from < 64 {
		w.Bucket("slice/sub-word")
	}
	if to == 64*nwords {
		w.Bucket("slice/to-end")
	}
}

func nontrivialBitmap(ws []uint64) bool {
	z, o := false, false
	for _, x := range ws {
		if x != 0 {
			o = true
		}
		if x != ^uint64(0) {
			z = true
		}
	}
	return z && o
}

func c14SliceAll(w *mon.W, idx int) {
	r := w.Rng
	nw := 1 + idx%3
	words, guard := argW(w, gen.ZooBitmap(r, nw))
	defer func() {
		if !guard() {
			w.Fail("Slice/wrote-outside-len-of-argument", mon.D{"nwords": nw})
		}
	}()
	if idx%3 == 1 {
		if v, rel, ok := roOneW(w, cloneWords(words)); ok {
			words = v
			defer rel()
		}
	}
	orig := cloneWords(words)
	total := 64 * nw
	var ev int64
	for from := 0; from <= total; from++ {
		for to := from; to <= total; to++ {
			ev++
			if !c14CheckSlice(w, words, orig, from, to) {
				w.Eval(ev)
				return
			}
		}
		// bucket accounting kept out of the inner loop: every class occurs for every bitmap
	}
	w.Eval(ev)
	for _, ft := range [][2]int{{0, 0}, {0, 64}, {5, 64}, {0, total}, {3, 3 + 70}, {64, 64 + 10}, {7, 9}} {
		if ft[1] <= total && ft[0] <= ft[1] {
			c14Bucket(w, nw, ft[0], ft[1])
		}
	}
	if !eqWords(words, orig) {
		w.Fail("Slice/input-modified", mon.D{"words": truncW(orig, 4), "after": truncW(words, 4)})
	}
	w.Extra("slice_windows_enumerated", ev)
	if nontrivialBitmap(orig) {
		w.Distinct(gen.Hash64(1, gen.HashWords(orig)))
	}
	w.Sample(func() interface{} {
		return mon.D{"call": "Slice, all windows", "words": hexWords(orig), "windows": ev}
	})
}

func c14SliceZoo(w *mon.W, idx int) {
	r := w.Rng
	nw := r.Range(4, 40)
	words := gen.ZooBitmap(r, nw)
	if idx%10 == 7 {
		words = gen.RunBitmap(r, 60+idx%200)
		nw = len(words)
	}
	if idx%3 == 1 {
		if v, rel, ok := roOneW(w, words); ok {
			words = v
			defer rel()
		}
	}
	orig := cloneWords(words)
	total := 64 * nw
	pick := func() int {
		switch r.Intn(4) {
		case 0:
			return 64 * r.Intn(nw+1)
		case 1:
			v := 64*r.Intn(nw+1) + r.Pick(-1, 1)
			if v < 0 {
				v = 0
			}
			if v > total {
				v = total
			}
			return v
		default:
			return r.Intn(total + 1)
		}
	}
	for k := 0; k < 40; k++ {
		a, b := pick(), pick()
		if a > b {
			a, b = b, a
		}
		if k == 0 {
			a, b = 0, total
		}
		w.Eval(1)
		c14Bucket(w, nw, a, b)
		if !c14CheckSlice(w, words, orig, a, b) {
			return
		}
		if a < b && nontrivialBitmap(orig) {
			w.Distinct(gen.Hash64(2, gen.HashWords(orig), uint64(a), uint64(b)))
		}
	}
	if !eqWords(words, orig) {
		w.Fail("Slice/input-modified", mon.D{"words": truncW(orig, 4), "after": truncW(words, 4)})
	}
	w.Sample(func() interface{} {
		return mon.D{"call": "Slice, sampled windows", "nwords": nw, "first_words": truncW(orig, 3)}
	})
}

// c14SliceHuge: windows at the very top of a bitmap of 2^25 words (2^31 bits, the largest the int32 API addresses;
// untouched pages cost no memory) and of 2^25-1 words, with the last word empty, sparse and full.
func c14SliceHuge(w *mon.W, idx int) {
	big := make([]uint64, 1<<25)
	const top = 1<<31 - 1
	for _, lastWord := range []uint64{0, 1 << 63, 1, ^uint64(0)} {
		big[1<<25-1] = lastWord
		big[1<<25-2] = 0x8000000000000001
		big[1<<25-3] = 0
		for _, nw := range []int{1 << 25, 1<<25 - 1} {
			words := big[:nw]
			end := 64 * int64(nw)
			if end > top {
				end = top // "to" is an int32: the last addressable end
			}
			for _, ft := range [][2]int64{{end - 1, end}, {end - 63, end}, {end - 64, end}, {end - 130, end}, {end - 200, end - 64}, {end - 129, end - 1}, {end, end}} {
				from, to := int(ft[0]), int(ft[1])
				w.Op, w.A, w.B = "Slice(huge)", int64(from), int64(to)
				got := bitmap.Slice(words, int32(from), int32(to))
				w.Eval(1)
				n := to - from
				if len(got) != (n+63)/64 {
					w.Fail("Slice/len", mon.D{"nwords": nw, "from": from, "to": to, "got_words": len(got), "expected_words": (n + 63) / 64})
					return
				}
				for j := 0; j < 64*len(got); j++ {
					var e uint64
					if j < n {
						e = bitAt(words, from+j)
					}
					if bitAt(got, j) != e {
						w.Fail("Slice/bits", mon.D{"nwords": nw, "from": from, "to": to, "bit": j, "got": bitAt(got, j), "expected": e, "last_word": fmt.Sprintf("%#x", lastWord)})
						return
					}
				}
			}
		}
	}
	w.Bucket("slice/bitmap>=2^31-bits")
	w.Distinct(gen.Hash64(0x511ce, 1))
}

// c14JoinLong: lists of 5000..70000 values (element index * width beyond 2^16 and 2^21 bits).
func c14JoinLong(w *mon.W, idx int) {
	r := w.Rng
	width := c14Widths[idx%7]
	n := 5000 + r.Intn(65000)
	vals := make([]uint64, n)
	for i := range vals {
		vals[i] = r.Uint64()
	}
	if idx%2 == 1 {
		vals = gen.RunValues(r, 70000) // runs of equal values with lengths on and next to powers of two up to 2^14
		n = len(vals)
		w.Bucket("join/run-structured-values")
	}
	w.Op, w.A, w.B = "Join(long)", int64(width), int64(n)
	got := bitmap.Join(vals, width)
	w.Eval(1)
	w.Tick()
	if len(got) != (n*int(width)+63)/64 {
		w.Fail("Join/len", mon.D{"width": width, "n": n, "got_words": len(got), "expected_words": (n*int(width) + 63) / 64})
		return
	}
	mask := ^uint64(0)
	if width < 64 {
		mask = (uint64(1) << uint(width)) - 1
	}
	for i := 0; i < n; i++ {
		if g := bitmap.Getw(got, int32(i), width); g != vals[i]&mask {
			w.Fail(fmt.Sprintf("Getw/w=%d", width), mon.D{"width": width, "i": i, "n": n, "got": g, "expected": vals[i] & mask})
			return
		}
	}
	// no other bit set: total popcount equals the popcount of the masked values
	var a, b int
	for _, x := range got {
		for ; x != 0; x &= x - 1 {
			a++
		}
	}
	for _, x := range vals {
		for x &= mask; x != 0; x &= x - 1 {
			b++
		}
	}
	if a != b {
		w.Fail("Join/stray-bits", mon.D{"width": width, "n": n, "ones_in_result": a, "ones_in_values": b})
		return
	}
	w.Eval(int64(n))
	w.Bucket("join/long-list")
	w.Distinct(gen.Hash64(0x7019, uint64(width), uint64(n), vals[0]))
	w.Sample(func() interface{} { return mon.D{"call": "Join+Getw, long list", "width": width, "n": n} })
}

// c14JoinHuge (round 12): value lists so long that element index x width passes 2^31 (2^25+ values of 64 bits, 2^26+ of
// 32 bits: 256 MiB of values). Only a few values are non-zero; every element near the ends and around 2^31 bits is read back.
func c14JoinHuge(w *mon.W, _ int) {
	for _, c := range [][2]int{{64, 1<<25 + 10}, {32, 1<<26 + 11}, {16, 1<<27 + 3}} { // (never run in the 386 flavour)
		width, n := int32(c[0]), c[1]
		vals, release := hugeZeroWords(n)
		defer release()
		marks := map[int]uint64{0: 0x1234567890abcdef, 5: ^uint64(0), n/2 - 1: 0x0f0f0f0f0f0f0f0f, n / 2: 0xdeadbeefcafef00d, n/2 + 1: 1, n - 3: 0x8000000000000001, n - 1: 0xffffffffffffffff}
		lim := int((int64(1) << 31) / int64(width)) // the first element whose bit position is no int32
		marks[lim-1], marks[lim], marks[lim+1] = 0xa5a5a5a5a5a5a5a5, 0x5a5a5a5a5a5a5a5a, 0x1111111111111111
		for i, v := range marks {
			vals[i] = v
		}
		w.Op, w.A, w.B = "Join(huge list)", int64(width), int64(n)
		j := bitmap.Join(vals, width)
		w.Tick()
		if exp := (n*int(width) + 63) / 64; len(j) != exp {
			w.Fail("Join/len", mon.D{"width": width, "n": n, "got_words": len(j), "expected_words": exp})
			return
		}
		mask := ^uint64(0)
		if width < 64 {
			mask = 1<<uint(width) - 1
		}
		var probes []int
		for i := range marks {
			probes = append(probes, i-1, i, i+1)
		}
		for _, i := range probes {
			if i < 0 || i >= n {
				continue
			}
			w.Op, w.C = "Getw(huge list)", int64(i)
			if g, e := bitmap.Getw(j, int32(i), width), vals[i]&mask; g != e {
				w.Fail("Getw/element-index*width>=2^31", mon.D{"width": width, "n": n, "i": i, "got": fmt.Sprintf("%#x", g), "expected": fmt.Sprintf("%#x", e)})
				return
			}
		}
		w.Eval(int64(len(probes) + 1))
		w.Tick()
	}
	w.Bucket("join/element-index*width>=2^31")
	w.Distinct(gen.Hash64(0x2b14, 3))
	w.Sample(func() interface{} { return mon.D{"lists": "2^25+10 x 64 bit, 2^26+11 x 32 bit, 2^27+3 x 16 bit"} })
}
