package props

import (
	"fmt"
	"strings"

	"github.com/openacid/low/bmtree"

	"verif/internal/gen"
	"verif/internal/mon"
)

// C10 — path words are self-consistent and their numeric order is pre-order.
// Oracle: (h, l, prefix) -> expected fields; pre-order of two nodes = order of their bit texts,
// a proper prefix (ancestor) first, 0 (left subtree) before 1.

func c10Text(prefix uint64, l int) string {
	var sb strings.Builder
	for k := l - 1; k >= 0; k-- {
		sb.WriteByte('0' + byte((prefix>>uint(k))&1))
	}
	return sb.String()
}

type c10Kept struct{ got, exp []string }

func init() {
	register(&mon.Prop{
		ID:    "C10",
		Level: "exploration",
		Rule: "every (h <= 12, l <= h, l-bit prefix): 16369 words, fields checked; ALL pairs of equal height for h <= 8 (quick) / h <= 10 (thorough) for the order claim; heights 13..32 with prefixes " +
			"{0..0, 1..1, 10..0, 01..1, random} at every length and sampled pairs per height. Non-trivial+distinct = exact count of enumerated words with l >= 1; hash of (h, a, b) pairs with a != b.",
		Assumptions: []string{"h <= 32, l <= h, prefix < 2^l"},
		Flavours: func(tier string) []string {
			if tier == "thorough" {
				return []string{"release", "386", "go126", "debug"}
			}
			return []string{"release", "386", "debug"}
		},
		Exhaustive: nil,
		Required:   []string{"pathstr/more-than-2^17-distinct-paths-each-rendered-twice", "long-run/calls>=100000-per-function", "cold-start/all-ones-path-first", "field/l=0", "field/l=h", "field/h=32", "field/h=0", "order/ancestor-descendant", "order/left-right-subtrees", "order/equal", "order/h>=13", "pathstr/retained-results-reread", "field/relatives-in-consecutive-calls"},
		Families: func(c *mon.Config) []mon.Family {
			hp := c.Pick(8, 12)
			return []mon.Family{
				{Name: "cold-start", N: 1, Serial: true, Run: c10Cold},
				{Name: "fields-small", N: 13, Run: c10FieldsSmall},
				{Name: "pathstr-many-distinct", N: 1, NoCold: true, Run: c10ManyDistinct},
				{Name: "fields-large", Env: 10, N: 20 * c.Pick(100, 50000), Run: c10FieldsLarge},
				{Name: "order-all-pairs", N: (1 << uint(hp+1)) * 2, Run: func(w *mon.W, idx int) { c10OrderAll(w, idx, hp) }},
				{Name: "order-sampled", Env: 10, N: 20 * c.Pick(250, 100000), Run: c10OrderSampled},
				lrFamily(c10LongRun),
			}
		},
	})
}

func c10CheckFields(w *mon.W, h, l int, prefix uint64) (uint64, bool) {
	w.Op, w.A, w.B, w.C = "NewPath", int64(h), int64(l), int64(prefix)
	p := bmtree.NewPath(prefix<<uint(h-l), int32(l), int32(h))
	eb := prefix << uint(h-l)
	em := ((uint64(1) << uint(l)) - 1) << uint(h-l)
	d := func(what string, got, exp interface{}) mon.D {
		return mon.D{"h": h, "l": l, "prefix": fmt.Sprintf("%b", prefix), "word": fmt.Sprintf("%#016x", p), "field": what, "got": got, "expected": exp}
	}
	if p>>32 != eb || p&0xffffffff != em {
		w.Fail("NewPath/word", d("word", fmt.Sprintf("%#x", p), fmt.Sprintf("%#x", eb<<32|em)))
		return p, false
	}
	w.Op = "PathLen"
	if g := bmtree.PathLen(p); int(g) != l {
		w.Fail("PathLen", d("PathLen", g, l))
		return p, false
	}
	w.Op = "PathHeight"
	if g := bmtree.PathHeight(p); l >= 1 && int(g) != h {
		w.Fail("PathHeight", d("PathHeight", g, h))
		return p, false
	}
	w.Op = "PathBits"
	if g := bmtree.PathBits(p); g != eb || g != p>>32 {
		w.Fail("PathBits", d("PathBits", g, eb))
		return p, false
	}
	w.Op = "PathMask"
	if g := bmtree.PathMask(p); g != em || g != p&0xffffffff {
		w.Fail("PathMask", d("PathMask", g, em))
		return p, false
	}
	w.Op = "PathStr"
	g, e := bmtree.PathStr(p), c10Text(prefix, l)
	if g != e {
		w.Fail("PathStr", d("PathStr", g, e))
		return p, false
	}
	// a returned string is the caller's for good: this worker keeps its last 1024 results and re-reads them every
	// 1024 calls (a string pointing into a buffer the library recycles reads differently later)
	if l > 0 {
		kept, _ := w.State["c10kept"].(*c10Kept)
		if kept == nil {
			kept = &c10Kept{}
			w.State["c10kept"] = kept
		}
		kept.got = append(kept.got, g)
		kept.exp = append(kept.exp, e)
		if len(kept.got) >= 1024 {
			for i := range kept.got {
				if kept.got[i] != kept.exp[i] {
					w.Fail("PathStr/earlier-result-changed-by-later-call", mon.D{"returned_then": kept.exp[i], "reads_now": kept.got[i], "calls_in_between": len(kept.got) - i})
					kept.got, kept.exp = kept.got[:0], kept.exp[:0]
					return p, false
				}
			}
			kept.got, kept.exp = kept.got[:0], kept.exp[:0]
			w.Bucket("pathstr/retained-results-reread")
		}
	}
	w.Eval(6)
	if l == 0 {
		w.Bucket("field/l=0")
	}
	if l == h {
		w.Bucket("field/l=h")
	}
	if h == 32 {
		w.Bucket("field/h=32")
	}
	if h == 0 {
		w.Bucket("field/h=0")
	}
	return p, true
}

func c10FieldsSmall(w *mon.W, h int) {
	var n int64
	for l := 0; l <= h; l++ {
		for prefix := uint64(0); prefix < 1<<uint(l); prefix++ {
			if _, ok := c10CheckFields(w, h, l, prefix); !ok {
				return
			}
			if l >= 1 {
				n++
			}
		}
	}
	w.DistinctExact(n)
	w.Extra("path_words_enumerated", n+1)
	w.Sample(func() interface{} { return mon.D{"height": h, "words": n + 1, "what": "every (l, prefix)"} })
}

func c10Prefix(r *gen.Rand, l int) uint64 {
	if l == 0 {
		return 0
	}
	m := (uint64(1) << uint(l)) - 1
	switch r.Intn(5) {
	case 0:
		return 0
	case 1:
		return m
	case 2:
		return 1 << uint(l-1)
	case 3:
		return m >> 1
	}
	return r.Uint64() & m
}

func c10FieldsLarge(w *mon.W, idx int) {
	h := 13 + idx%20
	for l := 0; l <= h; l++ {
		pf := c10Prefix(w.Rng, l)
		if _, ok := c10CheckFields(w, h, l, pf); !ok {
			return
		}
		// the node's relatives in the calls that directly follow: sibling, parent, both children, and the same
		// prefix in the neighbouring heights (state carried from one call to the next, or a key that does not tell
		// two relatives apart, shows between neighbours)
		if l >= 1 {
			if _, ok := c10CheckFields(w, h, l, pf^1); !ok {
				return
			}
			if _, ok := c10CheckFields(w, h, l-1, pf>>1); !ok {
				return
			}
			// ... and the root twice in a row right after a non-root node
			for k := 0; k < 2; k++ {
				if _, ok := c10CheckFields(w, h, 0, 0); !ok {
					return
				}
			}
			w.Bucket("field/relatives-in-consecutive-calls")
		}
		if l < h {
			for b := uint64(0); b < 2; b++ {
				if _, ok := c10CheckFields(w, h, l+1, pf<<1|b); !ok {
					return
				}
			}
		}
		if h < 32 {
			if _, ok := c10CheckFields(w, h+1, l, pf); !ok {
				return
			}
		}
		if l >= 1 {
			w.Distinct(gen.Hash64(uint64(h), uint64(l), pf))
		}
	}
	w.Sample(func() interface{} { return mon.D{"height": h, "lengths": "0..h", "prefixes": "extreme+random"} })
}

func c10Compare(w *mon.W, h int, la int, pa uint64, lb int, pb uint64) bool {
	a := bmtree.NewPath(pa<<uint(h-la), int32(la), int32(h))
	b := bmtree.NewPath(pb<<uint(h-lb), int32(lb), int32(h))
	// pre-order: ancestor first; otherwise decided by the first differing bit
	exp := 0
	m := min(la, lb)
	xa, xb := pa>>uint(la-m), pb>>uint(lb-m)
	switch {
	case xa != xb:
		if xa < xb { // equal-length prefixes: first differing bit decides, 0 first
			exp = -1
		} else {
			exp = 1
		}
		w.Bucket("order/left-right-subtrees")
	case la < lb:
		exp = -1
		w.Bucket("order/ancestor-descendant")
	case la > lb:
		exp = 1
		w.Bucket("order/ancestor-descendant")
	default:
		w.Bucket("order/equal")
	}
	got := 0
	if a < b {
		got = -1
	} else if a > b {
		got = 1
	}
	if got != exp {
		w.Fail("order", mon.D{"h": h, "a": c10Text(pa, la), "b": c10Text(pb, lb), "a_word": fmt.Sprintf("%#016x", a), "b_word": fmt.Sprintf("%#016x", b), "numeric": got, "preorder": exp})
		return false
	}
	return true
}

// node k of height h in a fixed enumeration: (l, prefix) with index 2^l - 1 + prefix
func c10Node(k int) (int, uint64) {
	l := 0
	for (1<<uint(l+1))-1 <= k {
		l++
	}
	return l, uint64(k - ((1 << uint(l)) - 1))
}

func c10OrderAll(w *mon.W, idx int, hmax int) {
	// case = (height parity block, node a): all nodes b of every height h in [0,hmax] that contains node a
	half := idx & 1
	k := idx >> 1
	la, pa := c10Node(k)
	var ev int64
	for h := la; h <= hmax; h++ {
		if h&1 != half {
			continue
		}
		nodes := (1 << uint(h+1)) - 1
		for j := 0; j < nodes; j++ {
			lb, pb := c10Node(j)
			if !c10Compare(w, h, la, pa, lb, pb) {
				w.Eval(ev)
				return
			}
			ev++
		}
	}
	w.Eval(ev)
	w.DistinctExact(ev)
	w.Extra("ordered_pairs_enumerated", ev)
	if ev > 0 {
		w.Sample(func() interface{} {
			return mon.D{"a": c10Text(pa, la), "against": "every node of every height of that parity up to hmax", "pairs": ev}
		})
	}
}

func c10OrderSampled(w *mon.W, idx int) {
	r := w.Rng
	h := 13 + idx%20
	for k := 0; k < 100; k++ {
		la, lb := r.Intn(h+1), r.Intn(h+1)
		pa := c10Prefix(r, la)
		var pb uint64
		switch r.Intn(3) {
		case 0: // related: shares the first min(la,lb) bits
			pb = c10Prefix(r, lb)
			m := min(la, lb)
			if m > 0 {
				pb = (pa>>uint(la-m))<<uint(lb-m) | pb&((uint64(1)<<uint(lb-m))-1)
			}
		default:
			pb = c10Prefix(r, lb)
		}
		if !c10Compare(w, h, la, pa, lb, pb) {
			return
		}
		w.Eval(1)
		w.Bucket("order/h>=13")
		if la != lb || pa != pb {
			w.Distinct(gen.Hash64(uint64(h), uint64(la), pa, uint64(lb), pb))
		}
	}
	w.Sample(func() interface{} { return mon.D{"height": h, "sampled_pairs": 100} })
}

// c10Cold is the very first thing the process does: the accessors are called on the path words that
// look like typical "nothing yet" sentinels (all ones, zero) before anything else has been rendered.
func c10Cold(w *mon.W, _ int) {
	list := []struct {
		h, l   int
		prefix uint64
	}{{32, 32, 0xffffffff}, {0, 0, 0}, {32, 0, 0}, {32, 32, 0}, {1, 1, 1}, {31, 31, 0x7fffffff}, {8, 8, 0xaa}, {9, 3, 5}}
	rot := w.Cfg.ColdRotation() // which word is rendered first in this process
	for k := range list {
		c := list[(k+rot)%len(list)]
		if _, ok := c10CheckFields(w, c.h, c.l, c.prefix); !ok {
			return
		}
	}
	w.Bucket("cold-start/all-ones-path-first")
}

// c10ManyDistinct (round 12): every node of a height-17 tree (262 143 distinct path words), each rendered twice in a row
// and once more a little later (a table of interned strings whose 16-bit entry id narrowed when the table filled up was
// seeded: the first rendering of the 65 537th distinct word was right, every later one returned the first string of the
// table).
func c10ManyDistinct(w *mon.W, _ int) {
	const h = 17
	type late struct {
		p uint64
		s string
	}
	var ring [64]late
	n := 0
	ok := true
	bmPreorder(h, func(l int, prefix uint64) {
		if !ok {
			return
		}
		p := bmPathWord(prefix, l, h)
		e := c10Text(prefix, l)
		w.Op, w.A, w.B = "PathStr(many distinct)", int64(l), int64(prefix)
		a, b := bmtree.PathStr(p), bmtree.PathStr(p)
		if a != e || b != e {
			w.Fail("PathStr/many-distinct-paths", mon.D{"h": h, "path": e, "first_rendering": a, "second_rendering": b, "distinct_paths_before": n})
			ok = false
			return
		}
		if old := ring[n&63]; old.s != "" || n >= 64 {
			if g := bmtree.PathStr(old.p); g != old.s {
				w.Fail("PathStr/many-distinct-paths", mon.D{"h": h, "path": old.s, "rendered_again_64_paths_later": g, "distinct_paths_before": n})
				ok = false
				return
			}
		}
		ring[n&63] = late{p, e}
		n++
		if n&8191 == 0 {
			w.Tick()
		}
	})
	if !ok {
		return
	}
	w.Eval(int64(3 * n))
	w.Bucket("pathstr/more-than-2^17-distinct-paths-each-rendered-twice")
	w.Distinct(gen.Hash64(0x2b10, uint64(n)))
	w.Sample(func() interface{} { return mon.D{"height": h, "distinct_paths": n} })
}
