//go:build verif

package props

import "testing"

func TestColdCallLists(t *testing.T) {
	for name, l := range map[string][]coldCall{"rank": coldRankSelect(), "bitmap": coldBitmapCalls(), "bitstr": coldBitstrCalls(), "path": coldPathCalls(), "sigbits": coldSigbitsCalls(), "pb": coldPbCalls(), "size": coldSizeCalls()} {
		for _, c := range l {
			g, e := c.run()
			if g != e {
				t.Errorf("%s/%s: got %s expected %s", name, c.name, g, e)
			}
		}
	}
}
