package props

import (
	"fmt"
	"strings"

	"github.com/openacid/low/sigbits"

	"verif/internal/gen"
	"verif/internal/mon"
)

// C16 — sigbits: first-difference bits and prefix counts match the keys' bit strings.

func c16FirstDiff(a, b string) int {
	n := 8 * min(len(a), len(b))
	for p := 0; p < n; p++ {
		if (a[p>>3]>>(7-uint(p&7)))&1 != (b[p>>3]>>(7-uint(p&7)))&1 {
			return p
		}
	}
	return n
}

// c16Trunc is the key truncated to nbits bits, as text (the whole key if it is shorter).
func c16Trunc(k string, nbits int) string {
	if 8*len(k) < nbits {
		nbits = 8 * len(k)
	}
	return c09ByteText([]byte(k), nbits)
}

func init() {
	register(&mon.Prop{
		ID:    "C16",
		Level: "exploration",
		Rule: "FirstDiffBits on ALL ordered pairs of the 40 strings of length <= 3 over {00,01,ff}, on keyzoo lists (any order) and on stems of length 7,8,9,15,16,17,23,24,25 with a difference / NUL padding / extension " +
			"just before, at and after each 8-byte chunk boundary; long keys of 31..300 and 4100 bytes (first-difference bits beyond 2048 and 32768) with differences at the far end; CountPrefixes on strictly ascending keyzoo sets of 2..40 keys x ALL sub-ranges [s,e) with e-s >= 2 (sets <= 8 keys) or sampled x m in {1,2,3,8,9,17,64,200}, " +
			"against explicitly built sets of truncated bit strings. Non-trivial+distinct = hash of (a,b) pairs with a != b; hash of (keys, s, e, m).",
		Assumptions: []string{"non-empty key lists; CountPrefixes only on strictly ascending keys, e-s >= 2, m >= 1"},
		Flavours:    releaseAnd386,
		Required: []string{"long-run/calls>=100000-per-function", "arguments-in-read-only-memory", "fd/equal", "fd/byte-prefix", "fd/nul-padding-twin", "fd/diff-in-chunk-0", "fd/diff-in-chunk-1", "fd/diff-in-chunk-2", "fd/diff-at-chunk-boundary", "fd/empty-key", "fd/single-key-list",
			"cp/s>0", "cp/m=1", "cp/m>=64", "cp/key-shorter-than-prefix", "cp/all-subranges", "cp/keys>=66", "cp/range-ends-at-multiple-of-64-keys", "cp/range>2^17-dense-keys", "cp/key-buffer-refilled-after-New", "fd/first-diff-bit>=2048", "fd/first-diff-bit>=32768", "fd/keys>2^18"},
		Families: func(c *mon.Config) []mon.Family {
			return []mon.Family{
				{Name: "cold-start", N: 1, Serial: true, Run: func(w *mon.W, _ int) {
					if !coldFirst(w, coldPick(coldSigbitsCalls(), "FirstDiffBits", "New+CountPrefixes")) {
						return
					}
					defer coldLast(w, coldPick(coldSigbitsCalls(), "FirstDiffBits", "New+CountPrefixes"))
					for _, l := range [][]string{{""}, {"", "\x00"}, {"\xff", "\xff\xff"}, {"", ""}, {"a"}} {
						if !c16CheckList(w, l) {
							return
						}
					}
					w.Bucket("cold-start")
				}},
				{Name: "fd-small-universe", N: 40, Run: c16Small},
				{Name: "fd-chunk-boundaries", N: 9 * c.Pick(200, 20000), Run: c16Chunks},
				{Name: "fd-keyzoo", Env: 6, N: c.Pick(10000, 1500000), Run: c16Zoo},
				{Name: "countprefixes", Env: 4, N: c.Pick(6000, 800000), Run: c16Count},
				{Name: "countprefixes-medium", Env: 2, N: c.Pick(150, 15000), Run: c16CountMedium},
				{Name: "long-keys", Env: 2, N: len(c16LongLens) * c.Pick(2, 200), Run: c16LongKeys},
				{Name: "many-keys", Env: 1, N: c.Pick(1, 12), Run: c16ManyKeys},
				{Name: "deep-chains", N: c.Pick(8, 80), Run: c16Chains},
				lrFamily(c16LongRun),
			}
		},
	})
}

func c16CheckList(w *mon.W, keys []string) bool {
	w.Op, w.Obj = "FirstDiffBits", keys
	in := append([]string(nil), keys...)
	keys, guardK := argStrs(w, keys)
	if roPickStrs(in) { // the key list - headers and bytes - in memory that cannot be written (ro.go)
		if v, rel, ok := roOneStrs(w, in); ok {
			keys = v
			defer rel()
		}
	}
	got := sigbits.FirstDiffBits(keys)
	if !guardK() {
		w.Fail("FirstDiffBits/wrote-outside-len-of-argument", mon.D{"nkeys": len(in)})
		return false
	}
	if len(got) != len(keys)-1 {
		w.Fail("FirstDiffBits/len", mon.D{"keys": fmt.Sprintf("%q", in), "got": len(got)})
		return false
	}
	for i := range got {
		a, b := in[i], in[i+1]
		e := c16FirstDiff(a, b)
		if int(got[i]) != e {
			w.Fail("FirstDiffBits/value", mon.D{"a": fmt.Sprintf("%q", a), "b": fmt.Sprintf("%q", b), "got": got[i], "expected": e})
			return false
		}
		// coverage
		ml := min(len(a), len(b))
		switch {
		case a == b:
			w.Bucket("fd/equal")
		case e == 8*ml:
			w.Bucket("fd/byte-prefix")
			long := a
			if len(b) > len(a) {
				long = b
			}
			nul := true
			for _, c := range []byte(long[ml:]) {
				if c != 0 {
					nul = false
				}
			}
			if nul {
				w.Bucket("fd/nul-padding-twin")
			}
		default:
			ch := e / 64
			if ch <= 2 {
				w.Bucket(fmt.Sprintf("fd/diff-in-chunk-%d", ch))
			}
			if e%64 == 0 || e%64 == 63 {
				w.Bucket("fd/diff-at-chunk-boundary")
			}
		}
		if len(a) == 0 || len(b) == 0 {
			w.Bucket("fd/empty-key")
		}
		if a != b {
			w.Distinct(gen.Hash64(gen.HashStr(a), gen.HashStr(b)))
		}
	}
	for i := range in {
		if in[i] != keys[i] {
			w.Fail("FirstDiffBits/input-modified", mon.D{"i": i})
			return false
		}
	}
	if len(keys) == 1 {
		w.Bucket("fd/single-key-list")
	}
	scribbleI32(got) // ours now
	if len(got) > 0 && !retainCheck(w, "FirstDiffBits", "sigbits.FirstDiffBits", func() uint64 { return hashI32(got) }) {
		return false
	}
	w.Eval(int64(len(got)) + 1)
	return true
}

func c16SmallUniverse() []string {
	al := []byte{0x00, 0x01, 0xff}
	out := []string{""}
	for _, a := range al {
		out = append(out, string([]byte{a}))
		for _, b := range al {
			out = append(out, string([]byte{a, b}))
			for _, c := range al {
				out = append(out, string([]byte{a, b, c}))
			}
		}
	}
	return out // 1+3+9+27 = 40
}

func c16Small(w *mon.W, idx int) {
	u := c16SmallUniverse()
	a := u[idx]
	for _, b := range u {
		if !c16CheckList(w, []string{a, b}) {
			return
		}
	}
	c16CheckList(w, []string{a})
	w.Extra("small_universe_ordered_pairs", int64(len(u)))
	w.Sample(func() interface{} {
		return mon.D{"a": fmt.Sprintf("%q", a), "against": "all 40 strings of length<=3 over {00,01,ff}"}
	})
}

func c16Chunks(w *mon.W, idx int) {
	r := w.Rng
	l := []int{7, 8, 9, 15, 16, 17, 23, 24, 25}[idx%9]
	stem := gen.ZooBytes(r, l)
	var keys []string
	keys = append(keys, string(stem))
	// difference just before, at and after each chunk boundary
	for _, pos := range []int{l - 1, 7, 8, 15, 16, 23, 24, r.Intn(l)} {
		if pos < 0 || pos >= l {
			continue
		}
		m := append([]byte(nil), stem...)
		m[pos] ^= 1 << uint(r.Pick(0, 7, r.Intn(8)))
		keys = append(keys, string(m), string(stem))
	}
	// NUL padding and extension
	for _, ext := range []string{"\x00", "\x00\x00\x00\x00\x00\x00\x00\x00\x00", "\x00\x01", "\xff", "a"} {
		keys = append(keys, string(stem)+ext, string(stem))
	}
	keys = append(keys, string(stem[:l-1]), string(stem), string(stem[:l/2]), "", string(stem))
	if c16CheckList(w, keys) {
		w.Sample(func() interface{} {
			return mon.D{"stem_len": l, "keys": len(keys), "first": fmt.Sprintf("%q", keys[:3])}
		})
	}
}

func c16Zoo(w *mon.W, idx int) {
	r := w.Rng
	keys := gen.KeyZoo(r, 1+r.Intn(12), r.Pick(2, 5, 9, 17, 26))
	if r.Bool() {
		keys = gen.SortedUnique(keys)
	}
	if c16CheckList(w, keys) {
		w.Sample(func() interface{} { return mon.D{"keys": fmt.Sprintf("%.300q", keys)} })
	}
}

var c16Ms = []int{1, 2, 3, 8, 9, 17, 64, 200}

// every m in 1..20 (a seeded single-pass count was wrong only for m in 10..16 on one range) and some larger ones
var c16MsAll = []int{1, 2, 3, 4, 5, 6, 7, 8, 9, 10, 11, 12, 13, 14, 15, 16, 17, 18, 19, 20, 24, 33, 64, 200}

func c16Count(w *mon.W, idx int) { c16CountWith(w, idx, false) }

// c16CountMedium: 66..270 keys and ranges that end at, just before and just after multiples of 64 keys.
func c16CountMedium(w *mon.W, idx int) { c16CountWith(w, idx, true) }

func c16CountWith(w *mon.W, idx int, medium bool) {
	r := w.Rng
	var keys []string
	for len(keys) < 2 || medium && len(keys) < 66 {
		if medium {
			keys = gen.SortedUnique(gen.KeyZoo(r, 90+r.Intn(200), r.Pick(2, 3, 9, 17)))
			continue
		}
		keys = gen.SortedUnique(gen.KeyZoo(r, 2+r.Intn(r.Pick(7, 7, 39)), r.Pick(1, 2, 3, 9, 17)))
	}
	w.Op, w.Obj = "sigbits.New", keys
	qKeys, gKeys := argStrs(w, keys)    // the reused, poisoned argument buffer of this worker
	if idx&1 == 0 && roPickStrs(keys) { // or a list in memory that cannot be written (ro.go)
		if v, rel, ok := roOneStrs(w, keys); ok {
			qKeys = v
			defer rel()
		}
	}
	sb := sigbits.New(qKeys)
	if !gKeys() {
		w.Fail("New/wrote-outside-len-of-argument", mon.D{"nkeys": len(keys)})
		return
	}
	for i := range qKeys {
		if qKeys[i] != keys[i] {
			w.Fail("New/input-modified", mon.D{"nkeys": len(keys), "i": i})
			return
		}
	}
	// every other case: the caller refills the buffer it passed to New before it queries (the next batch of keys is
	// read into the same slice); the SigBits describes the keys it was built from
	if idx&1 == 1 {
		for i := range qKeys {
			qKeys[i] = poisonS
		}
		w.Bucket("cp/key-buffer-refilled-after-New")
	}
	n := len(keys)
	all := n <= 8
	check := func(s, e, m int) bool {
		w.Op, w.A, w.B, w.C = "CountPrefixes", int64(s), int64(e), int64(m)
		gm, gc := sb.CountPrefixes(int32(s), int32(e), int32(m))
		m0 := 1 << 30
		for i := s; i < e-1; i++ {
			if d := c16FirstDiff(keys[i], keys[i+1]); d < m0 {
				m0 = d
			}
		}
		w.Eval(1)
		d := func(extra mon.D) mon.D {
			extra["keys"] = fmt.Sprintf("%.400q", keys[s:e])
			extra["s"], extra["e"], extra["m"] = s, e, m
			return extra
		}
		if int(gm) != m0 {
			w.Fail("CountPrefixes/min", d(mon.D{"got": gm, "expected": m0}))
			return false
		}
		if len(gc) != m {
			w.Fail("CountPrefixes/len", d(mon.D{"got": len(gc), "expected": m}))
			return false
		}
		for i := 0; i < m; i++ {
			set := map[string]struct{}{}
			for _, k := range keys[s:e] {
				if 8*len(k) < m0+i {
					w.Bucket("cp/key-shorter-than-prefix")
				}
				set[c16Trunc(k, m0+i)] = struct{}{}
			}
			if int(gc[i]) != len(set) {
				w.Fail("CountPrefixes/counter", d(mon.D{"i": i, "prefix_bits": m0 + i, "got": gc[i], "expected": len(set), "counters": trunc32(gc, 12)}))
				return false
			}
			if len(set) == e-s && i > 24 {
				// all keys already distinct: the remaining counters must stay at e-s; check two more and stop building sets
				for j := i + 1; j < m; j++ {
					if int(gc[j]) != e-s {
						w.Fail("CountPrefixes/counter", d(mon.D{"i": j, "got": gc[j], "expected": e - s}))
						return false
					}
				}
				break
			}
		}
		// hostile caller: the counters are ours now; overwrite them and remember them. A later call on the
		// same SigBits must not touch them (no reused result buffer)
		scribbleI32(gc)
		if !retainCheck(w, "CountPrefixes", "SigBits.CountPrefixes", func() uint64 { return hashI32(gc) }) {
			return false
		}
		if s > 0 {
			w.Bucket("cp/s>0")
		}
		if m == 1 {
			w.Bucket("cp/m=1")
		}
		if m >= 64 {
			w.Bucket("cp/m>=64")
		}
		h := gen.Hash64(uint64(s), uint64(e), uint64(m))
		for _, k := range keys[s:e] {
			h = gen.Hash64(h, gen.HashStr(k))
		}
		w.Distinct(h)
		return true
	}
	switch {
	case medium:
		w.Bucket("cp/keys>=66")
		for e := 64; e <= n+1; e += 64 {
			for _, ee := range []int{e - 1, e, e + 1} {
				if ee > n || ee < 2 {
					continue
				}
				for _, s := range []int{0, ee - 64, ee - 65, ee - 63, ee - 2, r.Intn(ee - 1)} {
					if s < 0 || s > ee-2 {
						continue
					}
					if !check(s, ee, c16MsAll[r.Intn(len(c16MsAll))]) {
						return
					}
					if ee%64 == 0 && ee < n {
						w.Bucket("cp/range-ends-at-multiple-of-64-keys")
					}
				}
			}
		}
		if !check(0, n, 33) {
			return
		}
	case all:
		w.Bucket("cp/all-subranges")
		for s := 0; s < n; s++ {
			for e := s + 2; e <= n; e++ {
				for _, m := range c16Ms {
					if !check(s, e, m) {
						return
					}
				}
				// and four more widths out of 1..20, 24, 33
				for k := 0; k < 4; k++ {
					if !check(s, e, c16MsAll[r.Intn(len(c16MsAll)-2)]) {
						return
					}
				}
			}
		}
	default:
		for k := 0; k < 12; k++ {
			s := r.Intn(n - 1)
			e := s + 2 + r.Intn(n-s-1)
			if !check(s, e, c16MsAll[r.Intn(len(c16MsAll))]) {
				return
			}
		}
		if !check(0, n, 200) {
			return
		}
	}
	w.Sample(func() interface{} { return mon.D{"keys": fmt.Sprintf("%.300q", keys), "all_subranges": all} })
}

var c16LongLens = []int{31, 32, 33, 63, 64, 65, 127, 128, 129, 255, 256, 257, 300, 4100, 8192, 65537, 70000}

// c16LongKeys: keys of 31..4100 bytes that agree on almost all of their length (first-difference
// bits beyond 2^11 and 2^15), FirstDiffBits on the list and CountPrefixes on its sorted version.
func c16LongKeys(w *mon.W, idx int) {
	r := w.Rng
	l := c16LongLens[idx%len(c16LongLens)]
	stem := gen.ZooBytes(r, l)
	keys := []string{string(stem)}
	for _, pos := range []int{l - 1, l - 2, l - 8, l - 9, l / 2, 8 * (l / 8), 8*(l/8) - 1, r.Intn(l)} {
		if pos < 0 || pos >= l {
			continue
		}
		m := append([]byte(nil), stem...)
		m[pos] ^= 1 << uint(r.Intn(8))
		keys = append(keys, string(m), string(stem))
	}
	keys = append(keys, string(stem)+"\x00", string(stem), string(stem)+"\x00\x00\x00\x00\x00\x00\x00\x00\x01", string(stem[:l-1]), string(stem)+"\xff")
	if !c16CheckList(w, keys) {
		return
	}
	for i := 0; i+1 < len(keys); i++ {
		if d := c16FirstDiff(keys[i], keys[i+1]); d >= 2048 {
			w.Bucket("fd/first-diff-bit>=2048")
			if d >= 32768 {
				w.Bucket("fd/first-diff-bit>=32768")
			}
		}
	}
	sorted := gen.SortedUnique(keys)
	sb := sigbits.New(sorted)
	n := len(sorted)
	for k := 0; k < 6; k++ {
		s := r.Intn(n - 1)
		e := s + 2 + r.Intn(n-s-1)
		if k == 0 {
			s, e = 0, n
		}
		m := r.Pick(1, 2, 3, 9)
		gm, gc := sb.CountPrefixes(int32(s), int32(e), int32(m))
		w.Eval(1)
		m0 := 1 << 30
		for i := s; i < e-1; i++ {
			if d := c16FirstDiff(sorted[i], sorted[i+1]); d < m0 {
				m0 = d
			}
		}
		if int(gm) != m0 || len(gc) != m {
			w.Fail("CountPrefixes/min", mon.D{"key_len": l, "s": s, "e": e, "m": m, "got": gm, "expected": m0, "len_counters": len(gc)})
			return
		}
		for i := 0; i < m; i++ {
			set := map[string]struct{}{}
			for _, key := range sorted[s:e] {
				// compare only the region around the first difference: all keys agree before m0
				lo := (m0 / 8) * 8
				t := c16Trunc(key, m0+i)
				if len(t) > lo {
					t = t[lo:]
				} else {
					t = "short:" + fmt.Sprint(len(t))
				}
				set[t] = struct{}{}
			}
			if int(gc[i]) != len(set) {
				w.Fail("CountPrefixes/counter", mon.D{"key_len": l, "s": s, "e": e, "m": m, "i": i, "got": gc[i], "expected": len(set)})
				return
			}
		}
	}
	w.Distinct(gen.Hash64(0x10a6, uint64(l), gen.HashBytes(stem)))
	w.Sample(func() interface{} {
		return mon.D{"key_len": l, "keys": len(keys), "what": "long keys differing near their end"}
	})
}

// c16ManyKeys: more than 2^18 ascending keys under a common prefix (every adjacent pair shares bytes).
func c16ManyKeys(w *mon.W, idx int) {
	r := w.Rng
	n := 262145 + r.Intn(30000)
	keys := make([]string, 0, n)
	for i := 0; i < n; i++ {
		keys = append(keys, "key"+string([]byte{byte(i >> 16), byte(i >> 8), byte(i)}))
		if i&8191 == 0 {
			w.Tick()
		}
	}
	w.Op = "FirstDiffBits(many keys)"
	got := sigbits.FirstDiffBits(keys)
	w.Tick()
	if len(got) != n-1 {
		w.Fail("FirstDiffBits/len", mon.D{"nkeys": n, "got": len(got)})
		return
	}
	for i := range got {
		if e := c16FirstDiff(keys[i], keys[i+1]); int(got[i]) != e {
			w.Fail("FirstDiffBits/value", mon.D{"nkeys": n, "pair": i, "a": fmt.Sprintf("%q", keys[i]), "b": fmt.Sprintf("%q", keys[i+1]), "got": got[i], "expected": e})
			return
		}
	}
	w.Eval(int64(n))
	w.Bucket("fd/keys>2^18")
	// CountPrefixes over ranges of more than 2^17 of these dense keys (sequential ids: tens of thousands of adjacent
	// pairs share one first-difference bit). All keys have 48 bits, so for sorted keys the number of distinct k-bit
	// prefixes (k <= 48) is 1 + the number of adjacent pairs in the range that differ before bit k.
	w.Op = "sigbits.New(many keys)"
	sb := sigbits.New(keys)
	for _, q := range [][3]int{{0, n, 30}, {1000, 140000, 25}, {n - 131073, n, 12}, {5, 70000, 20}} {
		s, e, m := q[0], q[1], q[2]
		m0 := 1 << 30
		for i := s; i < e-1; i++ {
			if int(got[i]) < m0 {
				m0 = int(got[i])
			}
		}
		if m0+m > 48 {
			m = 48 - m0
		}
		below := make([]int32, m+1) // below[k] = pairs with fd < m0+k
		for i := s; i < e-1; i++ {
			if d := int(got[i]) - m0; d < m {
				below[d+1]++
			}
		}
		for k := 1; k <= m; k++ {
			below[k] += below[k-1]
		}
		w.Op, w.A, w.B, w.C = "CountPrefixes(many keys)", int64(s), int64(e), int64(m)
		gm, gc := sb.CountPrefixes(int32(s), int32(e), int32(m))
		w.Tick()
		w.Eval(1)
		if int(gm) != m0 || len(gc) != m {
			w.Fail("CountPrefixes/min", mon.D{"nkeys": n, "s": s, "e": e, "m": m, "got_min": gm, "expected_min": m0, "got_len": len(gc)})
			return
		}
		for i := 0; i < m; i++ {
			if int(gc[i]) != 1+int(below[i]) {
				w.Fail("CountPrefixes/counter", mon.D{"nkeys": n, "s": s, "e": e, "m": m, "i": i, "prefix_bits": m0 + i, "got": gc[i], "expected": 1 + below[i], "what": "dense sequential keys: more than 2^16 adjacent pairs of the range share one first-difference bit"})
				return
			}
		}
	}
	w.Bucket("cp/range>2^17-dense-keys")
	w.Distinct(gen.Hash64(0x3a9, uint64(n)))
	w.Sample(func() interface{} {
		return mon.D{"nkeys": n, "what": "more than 2^18 ascending keys under a common prefix"}
	})
}

// c16Chains (round 14): key sets with hundreds of NESTED branch points on one path - a prefix chain ("a", "aa", "aaa", ...)
// or a comb ("a", "ba", "bba", ...) of 200-600 keys closed by a key that differs early - FirstDiffBits on the list and
// CountPrefixes over ranges that start inside the chain and reach past its end (a monotonic stack of fixed depth 256 with
// a uint8 index was seeded: random keys have logarithmic nesting depth).
func c16Chains(w *mon.W, idx int) {
	r := w.Rng
	n := []int{200, 255, 256, 257, 258, 300, 511, 600}[idx%8]
	ch := byte('a' + idx%3)
	var keys []string
	if idx%2 == 0 {
		for i := 1; i <= n; i++ {
			keys = append(keys, strings.Repeat(string(ch), i))
		}
	} else {
		for i := 0; i < n; i++ {
			keys = append(keys, strings.Repeat(string(ch+1), i)+string(ch))
		}
	}
	keys = append(keys, string(ch+2), string(ch+2)+"x")
	keys = gen.SortedUnique(keys)
	if !c16CheckList(w, keys) {
		return
	}
	sb := sigbits.New(keys)
	nk := len(keys)
	for q := 0; q < 10; q++ {
		s, e := r.Intn(nk-1), nk
		if q%3 == 1 {
			e = s + 2 + r.Intn(nk-s-1)
		}
		if q == 0 {
			s = 0
		}
		if q == 1 {
			s = 3
		}
		m := r.Pick(1, 8, 12, 16)
		w.Op, w.A, w.B, w.C = "CountPrefixes(deep chain)", int64(s), int64(e), int64(m)
		gm, gc := sb.CountPrefixes(int32(s), int32(e), int32(m))
		m0 := 1 << 30
		for i := s; i < e-1; i++ {
			if d := c16FirstDiff(keys[i], keys[i+1]); d < m0 {
				m0 = d
			}
		}
		w.Eval(1)
		if int(gm) != m0 || len(gc) != m {
			w.Fail("CountPrefixes/min", mon.D{"nkeys": nk, "shape": []string{"chain", "comb"}[idx%2], "s": s, "e": e, "m": m, "got": gm, "expected": m0})
			return
		}
		for i := 0; i < m; i++ {
			set := map[string]struct{}{}
			for _, k := range keys[s:e] {
				set[c16Trunc(k, m0+i)] = struct{}{}
			}
			if int(gc[i]) != len(set) {
				w.Fail("CountPrefixes/counter", mon.D{"nkeys": nk, "shape": []string{"chain", "comb"}[idx%2], "s": s, "e": e, "m": m, "i": i, "got": gc[i], "expected": len(set)})
				return
			}
		}
	}
	w.Bucket("keys/nesting-depth>=200")
	w.Distinct(gen.Hash64(0x2b16, uint64(idx)))
	w.Sample(func() interface{} { return mon.D{"nkeys": nk, "shape": []string{"chain", "comb"}[idx%2]} })
}
