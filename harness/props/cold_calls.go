package props

import (
	"bytes"
	"fmt"
	"math/bits"
	"sort"
	"strings"

	"github.com/openacid/low/bitmap"
	"github.com/openacid/low/bitstr"
	"github.com/openacid/low/bmtree"
	"github.com/openacid/low/pbcmpl"
	"github.com/openacid/low/sigbits"
	"github.com/openacid/low/size"

	"verif/internal/mon"
)

// Cold calls: for every property with more than one public function, a list of single calls on small fixed inputs whose
// arguments are built by HARNESS code only (indexes by counting, encodings and frames by the models), so that any of
// them can be the very first library call of a process. The cold-start family of the property runs the list rotated
// by Config.ColdRotation(): in the primary process entry 0 goes first, in the process variant "#coldconcN" (odd N)
// entry N. A function that relies on state another function initialises (a lazily built table, a sync.Once someone else
// runs) answers wrongly only when it is the first one called.

func hexW(ws []uint64) string { return fmt.Sprintf("%x", ws) }

type coldCall struct {
	name string
	run  func() (got, exp string)
}

func coldRun(w *mon.W, calls []coldCall) bool {
	rot := w.Cfg.ColdRotation()
	for k := range calls {
		c := calls[(k+rot)%len(calls)]
		w.Op = "cold call " + c.name
		got, exp := c.run()
		w.Eval(1)
		if got != exp {
			w.Fail("cold/"+c.name, mon.D{"call": c.name, "position_in_the_process": k, "first_call_of_the_process": calls[rot%len(calls)].name, "got": got, "expected": exp,
				"what": "single call on a small fixed input whose arguments were built by harness code only; it was call number position_in_the_process of this process"})
			return false
		}
	}
	w.Bucket("cold-calls/rotated")
	return true
}

// coldPick selects the entries of a list by name, in the given order.
func coldPick(l []coldCall, names ...string) []coldCall {
	var out []coldCall
	for _, n := range names {
		for _, c := range l {
			if c.name == n {
				out = append(out, c)
			}
		}
	}
	if len(out) != len(names) {
		panic("coldPick: unknown name")
	}
	return out
}

// coldFirst is what every cold-start family begins with: in a rotated process variant the cold calls come before
// anything else; in the primary process the family's own first inputs keep their place and the list follows.
func coldFirst(w *mon.W, l []coldCall) bool {
	if w.Cfg.ColdRotation() > 0 {
		return coldRun(w, l)
	}
	return true
}

func coldLast(w *mon.W, l []coldCall) bool {
	if w.Cfg.ColdRotation() == 0 {
		return coldRun(w, l)
	}
	return true
}

var coldWords = []uint64{0x8000000000000001, 0, 0xf0f0f0f0f0f0f0f0, 0xffffffffffffffff, 0x10}

func coldPositions() []int32 {
	var p []int32
	for i := 0; i < 64*len(coldWords); i++ {
		if bitAt(coldWords, i) == 1 {
			p = append(p, int32(i))
		}
	}
	return p
}

func coldRankIdx(trailing bool, stride int) []int32 {
	var idx []int32
	var c int32
	for k, w := range coldWords {
		if k%stride == 0 {
			idx = append(idx, c)
		}
		c += int32(bits.OnesCount64(w))
	}
	if trailing || (stride == 2 && len(coldWords)%2 == 0) {
		idx = append(idx, c)
	}
	return idx
}

func coldRankSelect() []coldCall {
	pos := coldPositions()
	n := len(pos)
	rank := func(i int) (int32, int32) {
		var c int32
		for _, p := range pos {
			if int(p) < i {
				c++
			}
		}
		return c, int32(bitAt(coldWords, i))
	}
	var sidx []int32
	for k := 0; k < n; k += 32 {
		sidx = append(sidx, pos[k])
	}
	sel := func(i int) string {
		nx := int32(64 * len(coldWords))
		if i+1 < n {
			nx = pos[i+1]
		}
		return fmt.Sprint(pos[i], nx)
	}
	probe := []int{0, 63, 64, 130, 200, 255, 260, 319}
	return []coldCall{
		{"Rank64", func() (string, string) {
			var g, e []string
			for _, i := range probe {
				a, b := bitmap.Rank64(coldWords, coldRankIdx(false, 1), int32(i))
				c, d := rank(i)
				g, e = append(g, fmt.Sprint(a, b)), append(e, fmt.Sprint(c, d))
			}
			return strings.Join(g, ";"), strings.Join(e, ";")
		}},
		{"Rank128", func() (string, string) {
			var g, e []string
			for _, i := range probe {
				a, b := bitmap.Rank128(coldWords, coldRankIdx(false, 2), int32(i))
				c, d := rank(i)
				g, e = append(g, fmt.Sprint(a, b)), append(e, fmt.Sprint(c, d))
			}
			return strings.Join(g, ";"), strings.Join(e, ";")
		}},
		{"Select32", func() (string, string) {
			var g, e []string
			for _, i := range []int{0, 1, 31, 32, 33, n - 1} {
				a, b := bitmap.Select32(coldWords, sidx, int32(i))
				g, e = append(g, fmt.Sprint(a, b)), append(e, sel(i))
			}
			return strings.Join(g, ";"), strings.Join(e, ";")
		}},
		{"Select32R64", func() (string, string) {
			var g, e []string
			for _, i := range []int{n - 1, 33, 32, 31, 1, 0} {
				a, b := bitmap.Select32R64(coldWords, sidx, coldRankIdx(true, 1), int32(i))
				g, e = append(g, fmt.Sprint(a, b)), append(e, sel(i))
			}
			return strings.Join(g, ";"), strings.Join(e, ";")
		}},
		{"IndexRank64", func() (string, string) {
			return fmt.Sprint(bitmap.IndexRank64(coldWords), bitmap.IndexRank64(coldWords, true)), fmt.Sprint(coldRankIdx(false, 1), coldRankIdx(true, 1))
		}},
		{"IndexRank128", func() (string, string) {
			return fmt.Sprint(bitmap.IndexRank128(coldWords)), fmt.Sprint(coldRankIdx(false, 2))
		}},
		{"IndexSelect32", func() (string, string) { return fmt.Sprint(bitmap.IndexSelect32(coldWords)), fmt.Sprint(sidx) }},
		{"IndexSelect32R64", func() (string, string) {
			a, b := bitmap.IndexSelect32R64(coldWords)
			return fmt.Sprint(a, b), fmt.Sprint(sidx, coldRankIdx(true, 1))
		}},
	}
}

func coldBitmapCalls() []coldCall {
	pos := coldPositions()
	nb := 64 * len(coldWords)
	next := func(i, end int) int32 {
		for _, p := range pos {
			if int(p) >= i && int(p) < end {
				return p
			}
		}
		return -1
	}
	prev := func(i, end int) int32 {
		r := int32(-1)
		for _, p := range pos {
			if int(p) >= i && int(p) < end {
				r = p
			}
		}
		return r
	}
	vals := []uint64{3, 0, 15, 9, 1, 14, 0, 7, 8, 2, 5, 12, 0, 0, 6, 11, 4}
	joined := make([]uint64, 2)
	for i, v := range vals {
		joined[(4*i)>>6] |= v << uint((4*i)&63)
	}
	return []coldCall{
		{"NextOne", func() (string, string) {
			return fmt.Sprint(bitmap.NextOne(coldWords, 1, int32(nb)), bitmap.NextOne(coldWords, 64, 128), bitmap.NextOne(coldWords, 260, int32(nb)), bitmap.NextOne(coldWords, 261, int32(nb))),
				fmt.Sprint(next(1, nb), next(64, 128), next(260, nb), next(261, nb))
		}},
		{"PrevOne", func() (string, string) {
			return fmt.Sprint(bitmap.PrevOne(coldWords, 0, int32(nb)), bitmap.PrevOne(coldWords, 64, 128), bitmap.PrevOne(coldWords, 1, 63), bitmap.PrevOne(coldWords, 0, 260)),
				fmt.Sprint(prev(0, nb), prev(64, 128), prev(1, 63), prev(0, 260))
		}},
		{"Getw", func() (string, string) {
			var g []uint64
			for i := range vals {
				g = append(g, bitmap.Getw(joined, int32(i), 4))
			}
			return fmt.Sprint(g), fmt.Sprint(vals)
		}},
		{"Join", func() (string, string) { return hexW(bitmap.Join(vals, 4)), hexW(joined) }},
		{"Slice", func() (string, string) {
			exp := make([]uint64, 2)
			for j := 0; j < 70; j++ {
				exp[j>>6] |= bitAt(coldWords, 126+j) << uint(j&63)
			}
			return hexW(bitmap.Slice(coldWords, 126, 196)), hexW(exp)
		}},
		{"Get/Get1/SafeGet/SafeGet1", func() (string, string) {
			return fmt.Sprint(bitmap.Get1(coldWords, 63), bitmap.Get1(coldWords, 62), bitmap.Get(coldWords, 63) != 0, bitmap.SafeGet1(coldWords, 260), bitmap.SafeGet1(coldWords, 10000), bitmap.SafeGet(coldWords, -1)),
				fmt.Sprint(1, 0, true, 1, 0, 0)
		}},
		{"ToArray", func() (string, string) { return fmt.Sprint(bitmap.ToArray(coldWords)), fmt.Sprint(pos) }},
		{"Of", func() (string, string) { return hexW(bitmap.Of(pos)), hexW(coldWords) }},
		{"OfMany", func() (string, string) {
			return hexW(bitmap.OfMany([][]int32{{0, 63}, {}, {1, 2}}, []int32{64, 3, 64})), hexW([]uint64{0x8000000000000001, 0x30, 0})
		}},
		{"Builder", func() (string, string) {
			b := bitmap.NewBuilder(0)
			b.Extend([]int32{0, 63}, 64)
			b.Set(70, 1)
			b.Extend([]int32{1}, 2)
			return fmt.Sprint(b.Offset, hexW(b.Words)), fmt.Sprint(73, hexW([]uint64{0x8000000000000001, 0x140}))
		}},
	}
}

func coldBitstrCalls() []coldCall {
	s1, s2 := "ab\x80", "ab\x81\xff"
	e1 := c19EncModel(s1, 0, 17) // "ab" + 1 bit (1)
	e2 := c19EncModel(s2, 0, 24) // 3 bytes
	e3 := c19EncModel(s1, 0, 16) // "ab"
	return []coldCall{
		{"Cmp", func() (string, string) {
			return fmt.Sprint(bitstr.Cmp(e1, e2), bitstr.Cmp(e2, e1), bitstr.Cmp(e3, e1), bitstr.Cmp(e1, e1)), fmt.Sprint(-1, 1, -1, 0)
		}},
		{"CmpUpto", func() (string, string) {
			return fmt.Sprint(bitstr.CmpUpto([]byte("ab\x80zz"), e1), bitstr.CmpUpto([]byte("ab"), e1), bitstr.CmpUpto([]byte("ab\x00"), e1), bitstr.CmpUpto([]byte("ac"), e2)), fmt.Sprint(0, -1, -1, 1)
		}},
		{"StrCmpUpto", func() (string, string) {
			return fmt.Sprint(bitstr.StrCmpUpto("ab\x80zz", e1), bitstr.StrCmpUpto("ab", e1), bitstr.StrCmpUpto("ab\x00", e1), bitstr.StrCmpUpto("ac", e2)), fmt.Sprint(0, -1, -1, 1)
		}},
		{"Len", func() (string, string) {
			return fmt.Sprint(bitstr.Len(e1), bitstr.Len(e2), bitstr.Len(e3)), fmt.Sprint(17, 24, 16)
		}},
		{"New", func() (string, string) {
			return fmt.Sprintf("%x %x %x", bitstr.New(s1, 0, 17), bitstr.New(s2, 0, 24), bitstr.New(s1, 8, 8)), fmt.Sprintf("%x %x %x", e1, e2, []byte{0xff})
		}},
	}
}

func coldPathCalls() []coldCall {
	// level mask 1011 (levels 0,1,3 stored; height 3): pre-order list of stored nodes by the literal traversal
	const mask = uint32(0xb)
	h := bmHeight(mask)
	var list []uint64
	bmPreorder(h, func(l int, prefix uint64) {
		if bmStored(mask, l) {
			list = append(list, bmPathWord(prefix, l, h))
		}
	})
	size := int32(0)
	for l := 0; l <= h; l++ {
		if bmStored(mask, l) {
			size += 1 << uint(l)
		}
	}
	_ = size
	idxOf := func(p uint64) int {
		for i, q := range list {
			if q == p {
				return i
			}
		}
		return -1
	}
	// bitmapSize in the library's convention = the level mask itself
	bs := int32(mask)
	full := int32(15)
	var fullList []uint64
	bmPreorder(3, func(l int, prefix uint64) { fullList = append(fullList, bmPathWord(prefix, l, 3)) })
	dec := []uint64{0x25}
	return []coldCall{
		{"PathToIndex", func() (string, string) {
			var g, e []int
			for _, p := range list {
				g, e = append(g, int(bmtree.PathToIndex(bs, p))), append(e, idxOf(p))
			}
			return fmt.Sprint(g), fmt.Sprint(e)
		}},
		{"PathToIndexLoose", func() (string, string) {
			var g, e []string
			for _, p := range list {
				i, has := bmtree.PathToIndexLoose(bs, p)
				g, e = append(g, fmt.Sprint(i, has)), append(e, fmt.Sprint(idxOf(p), 1))
			}
			return strings.Join(g, ";"), strings.Join(e, ";")
		}},
		{"IndexToPath", func() (string, string) {
			var g []uint64
			for i := range fullList {
				g = append(g, bmtree.IndexToPath(3, int32(i)))
			}
			return hexW(g), hexW(fullList)
		}},
		{"AllPaths", func() (string, string) { return hexW(bmtree.AllPaths(bs, 0, ^uint64(0))), hexW(list) }},
		{"Decode", func() (string, string) {
			var e []uint64
			for i, p := range fullList {
				if (dec[0]>>uint(i))&1 == 1 {
					e = append(e, p)
				}
			}
			return hexW(bmtree.Decode(full, dec)), hexW(e)
		}},
		{"PathOf/PathsOf", func() (string, string) {
			return fmt.Sprintf("%x %s", bmtree.PathOf("\xa5", 1, 4), hexW(bmtree.PathsOf([]string{"\x00", "\x00", "\xf0"}, 0, 4, true))),
				fmt.Sprintf("%x %s", bmPathWord(0x4, 4, 4), hexW([]uint64{bmPathWord(0, 4, 4), bmPathWord(0xf, 4, 4)}))
		}},
		{"FromStr32", func() (string, string) {
			k, v := bitmap.FromStr32("\xa5\x0f", 3, 12)
			k2, v2 := bitmap.FromStr32("\xa5", 4, 20)
			return fmt.Sprint(k, v, k2, v2), fmt.Sprint(9, 0x50, 4, uint64(0x5)<<12)
		}},
	}
}

func coldSigbitsCalls() []coldCall {
	keys := []string{"a", "ab", "ab\x00", "ac", "b\x80"}
	fd := func(a, b string) int32 {
		n := 8 * min(len(a), len(b))
		for i := 0; i < n; i++ {
			if (a[i>>3]>>(7-uint(i&7)))&1 != (b[i>>3]>>(7-uint(i&7)))&1 {
				return int32(i)
			}
		}
		return int32(n)
	}
	var exp []int32
	for i := 1; i < len(keys); i++ {
		exp = append(exp, fd(keys[i-1], keys[i]))
	}
	count := func(s, e, m int) string {
		m0 := exp[s]
		for _, d := range exp[s : e-1] {
			if d < m0 {
				m0 = d
			}
		}
		var cnt []int32
		for i := 0; i < m; i++ {
			set := map[string]bool{}
			nb := int(m0) + i
			for _, k := range keys[s:e] {
				if 8*len(k) < nb {
					set["k"+k] = true
					continue
				}
				b := []byte(k[:(nb+7)/8])
				if r := nb & 7; r != 0 {
					b[len(b)-1] &= 0xff << uint(8-r)
				}
				set[fmt.Sprintf("p%d/%x", nb, b)] = true
			}
			cnt = append(cnt, int32(len(set)))
		}
		return fmt.Sprint(m0, cnt)
	}
	return []coldCall{
		{"FirstDiffBits", func() (string, string) { return fmt.Sprint(sigbits.FirstDiffBits(keys)), fmt.Sprint(exp) }},
		{"New+CountPrefixes", func() (string, string) {
			sb := sigbits.New(keys)
			a, b := sb.CountPrefixes(0, 5, 9)
			c, d := sb.CountPrefixes(1, 4, 3)
			return fmt.Sprint(a, b, c, d), count(0, 5, 9) + " " + count(1, 4, 3)
		}},
		{"ShardByPrefix", func() (string, string) {
			l, b := sigbits.ShardByPrefix(keys, 2)
			ok := len(b) == len(l)+1 && b[0] == 0 && int(b[len(l)]) == len(keys)
			for j := 0; ok && j < len(l); j++ {
				ok = b[j] < b[j+1] && b[j+1]-b[j] <= 2
			}
			return fmt.Sprint(ok), "true"
		}},
	}
}

func coldPbCalls() []coldCall {
	c1 := pbCase{Kind: pbKBytes, Payload: []byte("hello, frame"), Ver: ""}
	c2 := pbCase{Kind: pbKLegacyVer, Payload: []byte{1, 2, 3}, Ver: "2.0.1"}
	return []coldCall{
		{"Unmarshal", func() (string, string) {
			into := c1.empty()
			n, ver, err := pbcmpl.Unmarshal(bytes.NewReader(c1.frame()), into)
			return fmt.Sprint(n, ver, err, c1.sameMsg(into)), fmt.Sprint(len(c1.frame()), c1.expVer(), nil, true)
		}},
		{"ReadHeader", func() (string, string) {
			n, h, err := pbcmpl.ReadHeader(bytes.NewReader(c2.frame()))
			if err != nil || h == nil {
				return fmt.Sprint(n, err), "32 <nil>"
			}
			return fmt.Sprint(n, h.GetVersion(), h.GetHeaderSize(), h.GetBodySize()), fmt.Sprint(32, c2.expVer(), 32, len(c2.body()))
		}},
		{"Size/HeaderSize", func() (string, string) {
			return fmt.Sprint(pbcmpl.Size(c1.msg()), pbcmpl.HeaderSize(c1.msg()), pbcmpl.Size(c2.msg())), fmt.Sprint(len(c1.frame()), 32, len(c2.frame()))
		}},
		{"Marshal", func() (string, string) {
			var b bytes.Buffer
			n, err := pbcmpl.Marshal(&b, c2.msg())
			return fmt.Sprintf("%d %v %x", n, err, b.Bytes()), fmt.Sprintf("%d %v %x", len(c2.frame()), nil, c2.frame())
		}},
		{"Unmarshal(versioned)", func() (string, string) {
			into := c2.empty()
			n, ver, err := pbcmpl.Unmarshal(bytes.NewReader(c2.frame()), into)
			return fmt.Sprint(n, ver, err, c2.sameMsg(into)), fmt.Sprint(len(c2.frame()), c2.expVer(), nil, true)
		}},
	}
}

func coldSizeCalls() []coldCall {
	type t struct {
		A int32
		S string
		P *uint16
		L []int8
	}
	x := uint16(7)
	v := t{A: 1, S: "abc", P: &x, L: []int8{1, 2}}
	exp := 4 + 16 + 3 + 8 + 2 + 24 + 2
	return []coldCall{
		{"size.Stat", func() (string, string) {
			out := size.Stat(v, 2, 3)
			first := strings.SplitN(out, "\n", 2)[0]
			f := strings.Fields(first)
			return f[len(f)-1], fmt.Sprint(exp)
		}},
		{"size.Of", func() (string, string) { return fmt.Sprint(size.Of(v)), fmt.Sprint(exp) }},
	}
}

var _ = sort.Strings
