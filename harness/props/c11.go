package props

import (
	"fmt"
	"sort"
	"strings"
	"unsafe"

	"github.com/openacid/low/bitmap"
	"github.com/openacid/low/bmtree"

	"verif/internal/gen"
	"verif/internal/mon"
)

// C11 — FromStr32 / PathOf / PathsOf extract exactly the requested bits of a string.

var c11Alphabet = []byte{0x00, 0x01, 0x80, 0xa5, 0xff}

func c11SmallStrings() []string {
	out := []string{""}
	for _, a := range c11Alphabet {
		out = append(out, string([]byte{a}))
	}
	for _, a := range c11Alphabet {
		for _, b := range c11Alphabet {
			out = append(out, string([]byte{a, b}))
		}
	}
	return out
}

func init() {
	small := c11SmallStrings()
	register(&mon.Prop{
		ID:    "C11",
		Level: "exploration",
		Rule: "FromStr32: ALL (from, w) with from in [0, 8*len+9], w in [0,32] for all strings of length 0..2 over {00,01,80,a5,ff} and for keyzoo strings of 0..9 bytes; " +
			"PathOf for every h in [0,32] at every from; PathsOf on sorted/unsorted key lists with repeated keys and repeated paths, dedup on/off, incl. all-ones paths. " +
			"Non-trivial+distinct = hash of (string, from, w) with k >= 1 (at least one bit extracted); PathsOf: hash of (keys, from, h, dedup) with >= 2 keys.",
		Assumptions: []string{"from >= 0 and 0 <= w <= 32 (stated domain)", "oracle reads bits one at a time, MSB of each byte first"},
		Flavours:    releaseAnd386Debug,
		Required: []string{"string>=2^28-bytes", "long-run/calls>=100000-per-function", "arguments-in-read-only-memory", "k=0/beyond-end", "k<w/clamped", "k=w", "from/aligned", "from/unaligned", "span/1", "span/2", "span/3", "span/4", "span/5",
			"w=0", "w=32", "string>=50-bytes", "from>=MaxInt32-32", "pathsof/dedup-hit", "pathsof/dedup-off-repeat", "pathsof/all-ones-first", "pathof/h=0", "pathof/h=32"},
		Families: func(c *mon.Config) []mon.Family {
			return []mon.Family{
				{Name: "cold-start", N: 1, Serial: true, Run: func(w *mon.W, _ int) {
					if !coldFirst(w, coldPick(coldPathCalls(), "FromStr32", "PathOf/PathsOf")) {
						return
					}
					defer coldLast(w, coldPick(coldPathCalls(), "FromStr32", "PathOf/PathsOf"))
					c11All(w, "")
					c11All(w, "\xff\xff\xff\xff\xff")
					c11All(w, "\x00")
					w.Bucket("cold-start")
				}},
				{Name: "small-all", N: len(small), Run: func(w *mon.W, idx int) { c11All(w, small[idx]) }},
				{Name: "keyzoo-all", Env: 2, N: c.Pick(800, 200000), Run: func(w *mon.W, idx int) {
					ks := gen.KeyZoo(w.Rng, 1+w.Rng.Intn(3), 1+w.Rng.Intn(9))
					k := ks[len(ks)-1]
					if len(k) > 9 {
						k = k[:9]
					}
					c11All(w, k)
				}},
				{Name: "long-strings", Env: 2, N: c.Pick(60, 6000), Run: c11Long},
				{Name: "pathsof-structured", N: 33 * 4, Run: c11PathsOfStructured},
				{Name: "pathsof-big", Env: 3, N: 7 * c.Pick(2, 40), Run: c11PathsOfBig},
				{Name: "pathsof-zoo", Env: 10, N: c.Pick(15000, 3000000), Run: c11PathsOfZoo},
				lrFamily(c11LongRun),
				{Name: "huge-string", NoCold: true, N: 1, Run: c11HugeString},
			}
		},
	})
}

// c11Bits is the oracle: k and the w-bit value, read bit by bit.
func c11Bits(s string, from, w int) (int, uint64) {
	k := 8*len(s) - from
	if k < 0 {
		k = 0
	}
	if k > w {
		k = w
	}
	var v uint64
	for j := 0; j < k; j++ {
		p := from + j
		bit := uint64(s[p>>3]>>(7-uint(p&7))) & 1
		v |= bit << uint(w-1-j)
	}
	return k, v
}

func c11PathWord(val uint64, k, h int) uint64 {
	mask := ((uint64(1) << uint(k)) - 1) << uint(h-k)
	return val<<32 | mask
}

func c11BitText(s string, from, k int) string {
	var sb strings.Builder
	for j := 0; j < k; j++ {
		p := from + j
		if (s[p>>3]>>(7-uint(p&7)))&1 == 1 {
			sb.WriteByte('1')
		} else {
			sb.WriteByte('0')
		}
	}
	return sb.String()
}

func c11All(w *mon.W, s string) {
	var ev int64
	w.Obj = fmt.Sprintf("%q", s)
	if gen.HashStr(s)&1 == 0 {
		// the string as the last bytes of a mapping (the last key of a mapped file): nothing may be read beyond it
		if v, rel, ok := roTailStr(w, s); ok {
			s = v
			defer rel()
		}
	}
	for from := 0; from <= 8*len(s)+9; from++ {
		for wd := 0; wd <= 32; wd++ {
			w.Op, w.A, w.B = "FromStr32", int64(from), int64(wd)
			gk, gv := bitmap.FromStr32(s, int32(from), int32(from+wd))
			ek, evv := c11Bits(s, from, wd)
			ev++
			if int(gk) != ek || gv != evv {
				cls := "k"
				if int(gk) == ek {
					cls = "value"
				}
				w.Fail("FromStr32/"+cls, mon.D{"s": fmt.Sprintf("%q", s), "from": from, "to": from + wd, "got_k": gk, "got_value": fmt.Sprintf("%#x", gv),
					"expected_k": ek, "expected_value": fmt.Sprintf("%#x", evv)})
				w.Eval(ev)
				return
			}
			// PathOf with h = wd
			w.Op = "PathOf"
			gp := bmtree.PathOf(s, int32(from), int32(wd))
			ep := c11PathWord(evv, ek, wd)
			ev++
			if gp != ep {
				w.Fail("PathOf/word", mon.D{"s": fmt.Sprintf("%q", s), "from": from, "h": wd, "got": fmt.Sprintf("%#x", gp), "expected": fmt.Sprintf("%#x", ep)})
				w.Eval(ev)
				return
			}
			w.Op = "PathStr"
			if gs, es := bmtree.PathStr(gp), c11BitText(s, from, ek); gs != es {
				w.Fail("PathOf/PathStr", mon.D{"s": fmt.Sprintf("%q", s), "from": from, "h": wd, "got": gs, "expected": es})
				w.Eval(ev)
				return
			}
			ev++
			// coverage
			switch {
			case ek == 0 && 8*len(s) <= from:
				w.Bucket("k=0/beyond-end")
			case ek < wd:
				w.Bucket("k<w/clamped")
			case ek == wd:
				w.Bucket("k=w")
			}
			if ek > 0 {
				span := (from+ek-1)/8 - from/8 + 1
				w.Bucket(fmt.Sprintf("span/%d", span))
				w.Distinct(gen.Hash64(gen.HashStr(s), uint64(from), uint64(wd)))
			}
			if wd == 0 {
				w.Bucket("w=0")
				w.Bucket("pathof/h=0")
			}
			if wd == 32 {
				w.Bucket("w=32")
				w.Bucket("pathof/h=32")
			}
		}
		if from&7 == 0 {
			w.Bucket("from/aligned")
		} else {
			w.Bucket("from/unaligned")
		}
	}
	w.Eval(ev)
	w.Sample(func() interface{} {
		return mon.D{"string": fmt.Sprintf("%q", s), "from_range": []int{0, 8*len(s) + 9}, "widths": "0..32", "events": ev}
	})
}

func c11PathsModel(keys []string, from, h int, dedup bool) []uint64 {
	out := []uint64{}
	for i, s := range keys {
		k, v := c11Bits(s, from, h)
		p := c11PathWord(v, k, h)
		if dedup && i > 0 {
			pk, pv := c11Bits(keys[i-1], from, h)
			if c11PathWord(pv, pk, h) == p {
				continue
			}
		}
		out = append(out, p)
	}
	return out
}

func c11CheckPathsOf(w *mon.W, keys []string, from, h int, dedup bool) {
	w.Op, w.A, w.B, w.Obj = "PathsOf", int64(from), int64(h), keys
	in := append([]string(nil), keys...)
	guardK := func() bool { return true }
	if keys != nil {
		keys, guardK = argStrs(w, keys)
		if roPickStrs(in) { // the key list - headers and bytes - in memory that cannot be written (ro.go)
			if v, rel, ok := roOneStrs(w, in); ok {
				keys = v
				defer rel()
			}
		}
	}
	got := bmtree.PathsOf(keys, int32(from), int32(h), dedup)
	if !guardK() {
		w.Fail("PathsOf/wrote-outside-len-of-argument", mon.D{"nkeys": len(in)})
		return
	}
	exp := c11PathsModel(in, from, h, dedup)
	w.Eval(1)
	all := c11PathsModel(in, from, h, false)
	if dedup && len(exp) < len(all) {
		w.Bucket("pathsof/dedup-hit")
	}
	if !dedup {
		for i := 1; i < len(all); i++ {
			if all[i] == all[i-1] {
				w.Bucket("pathsof/dedup-off-repeat")
				break
			}
		}
	}
	if dedup && len(all) > 0 && all[0] == ^uint64(0) {
		w.Bucket("pathsof/all-ones-first")
	}
	if len(keys) >= 2 {
		h64 := gen.Hash64(uint64(from), uint64(h), uint64(b2i(dedup)))
		for _, k := range keys {
			h64 = gen.Hash64(h64, gen.HashStr(k))
		}
		w.Distinct(h64)
	}
	if !eqWords(got, exp) {
		sig := "PathsOf/mismatch"
		if dedup && len(all) > 0 && all[0] == ^uint64(0) && len(got) == len(exp)-1 {
			sig = "PathsOf/dedup/first-all-ones-dropped"
		}
		if len(in) > 64 {
			at := 0
			for at < len(got) && at < len(exp) && got[at] == exp[at] {
				at++
			}
			w.Fail(sig, mon.D{"nkeys": len(in), "first_keys": fmt.Sprintf("%q", in[:8]), "from": from, "h": h, "dedup": dedup, "got_len": len(got), "expected_len": len(exp), "first_difference_at": at,
				"got_there": hexWords(got[min(at, len(got)):min(at+3, len(got))]), "expected_there": hexWords(exp[min(at, len(exp)):min(at+3, len(exp))])})
			return
		}
		w.Fail(sig, mon.D{"keys": fmt.Sprintf("%q", in), "from": from, "h": h, "dedup": dedup, "got": hexWords(got), "expected": hexWords(exp)})
		return
	}
	for i := range in {
		if in[i] != keys[i] {
			w.Fail("PathsOf/input-modified", mon.D{"i": i})
		}
	}
	if len(got) > 0 {
		scribbleW(got) // ours now
		retainCheck(w, "PathsOf", "bmtree.PathsOf", func() uint64 { return gen.HashWords(got) })
	}
}

func c11PathsOfStructured(w *mon.W, idx int) {
	h := idx % 33
	variant := idx / 33
	ff := "\xff\xff\xff\xff\xff"
	lists := [][]string{
		{ff},
		{ff, ff, ff + "a"},
		{"", ff[:4], ff[:4] + "\x00", ff},
		{"a", "a", "ab", "b", "b", ff, ff},
	}
	keys := lists[variant]
	for _, from := range []int{0, 1, 7, 8, 9, 16} {
		for _, dd := range []bool{false, true} {
			c11CheckPathsOf(w, keys, from, h, dd)
		}
	}
	w.Sample(func() interface{} { return mon.D{"keys": fmt.Sprintf("%q", keys), "h": h} })
}

func c11PathsOfZoo(w *mon.W, idx int) {
	r := w.Rng
	n := r.Intn(9)
	keys := gen.KeyZoo(r, n, 1+r.Intn(8))
	if r.Bool() {
		keys = gen.SortedUnique(keys)
	}
	// repeated keys on purpose
	if len(keys) > 0 && r.Bool() {
		j := r.Intn(len(keys))
		keys = append(keys[:j+1], keys[j:]...)
	}
	if r.Intn(4) == 0 {
		keys = append([]string{"\xff\xff\xff\xff\xff\xff"}, keys...)
	}
	from := r.Pick(0, 0, 8, r.Intn(40), r.Intn(80))
	h := r.Pick(0, 1, 8, 32, r.Intn(33), r.Intn(33))
	for _, dd := range []bool{false, true} {
		c11CheckPathsOf(w, keys, from, h, dd)
	}
	w.Sample(func() interface{} { return mon.D{"keys": fmt.Sprintf("%q", keys), "from": from, "h": h} })
}

// c11PathsOfBig: batches of 1000..100003 keys (lengths that are no multiple of any small number), sorted as an
// index builder passes them, short heights and late starts so that long runs of equal paths occur everywhere.
func c11PathsOfBig(w *mon.W, idx int) {
	r := w.Rng
	n := []int{1000, 4096, 4097, 5003, 20011, 65537, 100003}[idx%7]
	keys := make([]string, 0, n)
	alpha := r.Pick(2, 3, 16, 256)
	kl := 2 + r.Intn(5)
	for len(keys) < n {
		b := make([]byte, kl+r.Intn(2))
		for i := range b {
			b[i] = byte(r.Intn(alpha)) * byte(255/(alpha-1))
		}
		keys = append(keys, string(b))
	}
	if r.Intn(4) != 0 {
		sort.Strings(keys)
	}
	from := r.Pick(0, 0, 3, 8, 13)
	h := r.Pick(1, 3, 8, 11, 17, 32)
	w.Bucket("PathsOf/batch>=1000")
	for _, dd := range []bool{false, true} {
		c11CheckPathsOf(w, keys, from, h, dd)
	}
	w.Sample(func() interface{} { return mon.D{"keys": n, "from": from, "h": h} })
}

// c11Long: strings of 50..1200 bytes, start bits near 0, in the middle and around the end, all widths.
func c11Long(w *mon.W, idx int) {
	r := w.Rng
	s := string(gen.ZooBytes(r, 50+r.Intn(1150)))
	n := 8 * len(s)
	var froms []int
	for d := -40; d <= 9; d++ {
		froms = append(froms, n+d)
	}
	for k := 0; k < 20; k++ {
		froms = append(froms, r.Intn(n))
	}
	froms = append(froms, 0, 1, 7, 8, 255, 256, 257, 2047, 2048, n+1000)
	var ev int64
	for _, from := range froms {
		if from < 0 {
			continue
		}
		for wd := 0; wd <= 32; wd++ {
			w.Op, w.A, w.B = "FromStr32(long)", int64(from), int64(wd)
			gk, gv := bitmap.FromStr32(s, int32(from), int32(from+wd))
			ek, evv := 0, uint64(0)
			if from < n {
				ek, evv = c11Bits(s, from, wd)
			}
			ev++
			if int(gk) != ek || gv != evv {
				w.Fail("FromStr32/long-string", mon.D{"len": len(s), "from": from, "to": from + wd, "got_k": gk, "got_value": fmt.Sprintf("%#x", gv), "expected_k": ek, "expected_value": fmt.Sprintf("%#x", evv)})
				w.Eval(ev)
				return
			}
			if gp, ep := bmtree.PathOf(s, int32(from), int32(wd)), c11PathWord(evv, ek, wd); gp != ep {
				w.Fail("PathOf/long-string", mon.D{"len": len(s), "from": from, "h": wd, "got": fmt.Sprintf("%#x", gp), "expected": fmt.Sprintf("%#x", ep)})
				w.Eval(ev)
				return
			}
			if ek > 0 {
				w.Distinct(gen.Hash64(gen.HashStr(s), uint64(from), uint64(wd)))
			}
		}
	}
	// start bits at the top of the int32 domain: nothing of the string is left, the path is empty
	for _, from := range []int32{1<<31 - 1, 1<<31 - 2, 1<<31 - 32, 1<<31 - 33, 1 << 30} {
		for _, h := range []int32{0, 1, 8, 31, 32} {
			w.Op, w.A, w.B = "PathOf(from near MaxInt32)", int64(from), int64(h)
			gp := bmtree.PathOf(s, from, h)
			ep := c11PathWord(0, 0, int(h))
			ev++
			if gp != ep || bmtree.PathStr(gp) != "" {
				w.Fail("PathOf/from-near-MaxInt32", mon.D{"len": len(s), "from": from, "h": h, "got": fmt.Sprintf("%#x", gp), "expected": fmt.Sprintf("%#x", ep), "PathStr": bmtree.PathStr(gp)})
				w.Eval(ev)
				return
			}
			gps := bmtree.PathsOf([]string{s, "", s}, from, h, false)
			if len(gps) != 3 || gps[0] != ep || gps[1] != ep || gps[2] != ep {
				w.Fail("PathsOf/from-near-MaxInt32", mon.D{"from": from, "h": h, "got": hexWords(gps)})
				w.Eval(ev)
				return
			}
		}
	}
	w.Bucket("from>=MaxInt32-32")
	w.Eval(2 * ev)
	w.Bucket("string>=50-bytes")
	w.Sample(func() interface{} { return mon.D{"len": len(s), "start_bits": len(froms), "widths": "0..32"} })
}

// c11HugeString (round 12): strings of 2^28 bytes and more - 8*len(s) no longer fits an int32, so every int32 start bit
// lies inside the string. Views of zero pages of which only the first and the last kilobyte are written.
func c11HugeString(w *mon.W, _ int) {
	r := w.Rng
	for _, n := range []int{1<<28 - 1, 1 << 28, 1<<28 + 3} {
		buf, release := hugeZeroBytes(n)
		defer release()
		for i := 0; i < 1024; i++ {
			buf[i] = r.Byte()
			buf[n-1-i] = r.Byte()
		}
		s := unsafe.String(&buf[0], n)
		top := int64(1<<31 - 1)
		var froms []int64
		for _, f := range []int64{0, 1, 7, 8, 13, 1000, 1 << 30, 8*int64(n) - 40, 8*int64(n) - 33, 8*int64(n) - 32, 8*int64(n) - 9, 8*int64(n) - 1, 8 * int64(n), top - 40, top - 32, top - 31, top - 8, top} {
			if f >= 0 && f <= top {
				froms = append(froms, f)
			}
		}
		var ev int64
		for _, from := range froms {
			for _, wd := range []int{0, 1, 7, 8, 9, 31, 32} {
				if from+int64(wd) > top {
					continue // from+w must be an int32 to be passed at all
				}
				// model on the (at most 5) bytes the span touches
				lo := from / 8
				hi := lo + 5
				if hi > int64(n) {
					hi = int64(n)
				}
				ek, evv := 0, uint64(0)
				if lo < int64(n) {
					ek, evv = c11Bits(s[lo:hi], int(from-8*lo), wd)
				}
				w.Op, w.A, w.B, w.C = "FromStr32(huge string)", from, int64(wd), int64(n)
				gk, gv := bitmap.FromStr32(s, int32(from), int32(from+int64(wd)))
				ev++
				if int(gk) != ek || gv != evv {
					w.Fail("FromStr32/huge-string", mon.D{"len_s": n, "from": from, "to": from + int64(wd), "got_k": gk, "got_value": fmt.Sprintf("%#x", gv), "expected_k": ek, "expected_value": fmt.Sprintf("%#x", evv)})
					return
				}
				w.Op = "PathOf(huge string)"
				if gp, ep := bmtree.PathOf(s, int32(from), int32(wd)), c11PathWord(evv, ek, wd); gp != ep {
					w.Fail("PathOf/huge-string", mon.D{"len_s": n, "from": from, "h": wd, "got": fmt.Sprintf("%#x", gp), "expected": fmt.Sprintf("%#x", ep)})
					return
				}
				ev++
			}
		}
		w.Eval(ev)
		w.Tick()
	}
	w.Bucket("string>=2^28-bytes")
	w.Distinct(gen.Hash64(0x2b11, 3))
	w.Sample(func() interface{} { return mon.D{"string_lengths": []int{1<<28 - 1, 1 << 28, 1<<28 + 3}} })
}
