package props

import (
	"fmt"
)

// bitAt reads bit i of a bitmap, LSB-first inside each word (the library's convention).
func bitAt(words []uint64, i int) uint64 {
	return (words[i>>6] >> uint(i&63)) & 1
}

func setBit(words []uint64, i int) { words[i>>6] |= 1 << uint(i&63) }

func hexWords(ws []uint64) []string {
	out := make([]string, len(ws))
	for i, w := range ws {
		out[i] = fmt.Sprintf("%016x", w)
	}
	return out
}

func cloneWords(ws []uint64) []uint64 { return append([]uint64(nil), ws...) }

func eqWords(a, b []uint64) bool {
	if len(a) != len(b) {
		return false
	}
	for i := range a {
		if a[i] != b[i] {
			return false
		}
	}
	return true
}

func eqI32(a, b []int32) bool {
	if len(a) != len(b) {
		return false
	}
	for i := range a {
		if a[i] != b[i] {
			return false
		}
	}
	return true
}

func trunc32(a []int32, n int) []int32 {
	if len(a) > n {
		return a[:n]
	}
	return a
}

func truncW(a []uint64, n int) []string {
	if len(a) > n {
		a = a[:n]
	}
	return hexWords(a)
}

func b2i(b bool) int {
	if b {
		return 1
	}
	return 0
}

func min(a, b int) int {
	if a < b {
		return a
	}
	return b
}

func max(a, b int) int {
	if a > b {
		return a
	}
	return b
}

// short renders a value with %v and truncates the text.
func short(x interface{}, n int) string {
	s := fmt.Sprintf("%v", x)
	if len(s) > n {
		s = s[:n] + "…"
	}
	return s
}
