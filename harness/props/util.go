package props

import (
	"fmt"

	"verif/internal/mon"
)

// bitAt reads bit i of a bitmap, LSB-first inside each word (the library's convention).
func bitAt(words []uint64, i int) uint64 {
	return (words[i>>6] >> uint(i&63)) & 1
}

func setBit(words []uint64, i int) { words[i>>6] |= 1 << uint(i&63) }

func hexWords(ws []uint64) []string {
	out := make([]string, len(ws))
	for i, w := range ws {
		out[i] = fmt.Sprintf("%016x", w)
	}
	return out
}

func cloneWords(ws []uint64) []uint64 { return append([]uint64(nil), ws...) }

func eqWords(a, b []uint64) bool {
	if len(a) != len(b) {
		return false
	}
	for i := range a {
		if a[i] != b[i] {
			return false
		}
	}
	return true
}

func eqI32(a, b []int32) bool {
	if len(a) != len(b) {
		return false
	}
	for i := range a {
		if a[i] != b[i] {
			return false
		}
	}
	return true
}

func trunc32(a []int32, n int) []int32 {
	if len(a) > n {
		return a[:n]
	}
	return a
}

func truncW(a []uint64, n int) []string {
	if len(a) > n {
		a = a[:n]
	}
	return hexWords(a)
}

func b2i(b bool) int {
	if b {
		return 1
	}
	return 0
}

func min(a, b int) int {
	if a < b {
		return a
	}
	return b
}

func max(a, b int) int {
	if a > b {
		return a
	}
	return b
}

// short renders a value with %v and truncates the text.
func short(x interface{}, n int) string {
	s := fmt.Sprintf("%v", x)
	if len(s) > n {
		s = s[:n] + "…"
	}
	return s
}

// retained remembers slices returned by earlier library calls of this worker together with their
// content hash; check reports whether any of them was changed by a later call (a returned slice
// must not alias state the library reuses).
type retained struct {
	i32  [][]int32
	hash []uint64
}

func hashI32s(v []int32) uint64 {
	h := uint64(len(v)) + 0x9e37
	for _, x := range v {
		h = h*0x100000001b3 ^ uint64(uint32(x))
	}
	return h
}

// keep adds slices (ring of 9) and returns the index of an earlier slice whose content changed, or -1.
func (r *retained) keep(vs ...[]int32) int {
	bad := -1
	for k, v := range r.i32 {
		if hashI32s(v) != r.hash[k] {
			bad = k
		}
	}
	for _, v := range vs {
		if len(r.i32) >= 9 {
			r.i32, r.hash = r.i32[1:], r.hash[1:]
		}
		r.i32 = append(r.i32, v)
		r.hash = append(r.hash, hashI32s(v))
	}
	return bad
}

// retainCheck remembers results returned by earlier library calls of this worker (as closures that
// re-hash them) and re-evaluates all of them whenever new ones are added: a result handed to the
// caller must not change when the library is called again (no aliasing of reused internal buffers).
// It returns false, after recording the violation, if an earlier result changed.
type retainedFn struct {
	f func() uint64
	h uint64
}

func retainCheck(w *mon.W, key, what string, fs ...func() uint64) bool {
	cur, _ := w.State["retain/"+key].([]retainedFn)
	for _, r := range cur {
		if r.f() != r.h {
			w.Fail(key+"/earlier-result-changed-by-later-call", mon.D{"what": "a slice returned by an earlier " + what + " call changed its content after a later library call"})
			w.State["retain/"+key] = []retainedFn(nil)
			return false
		}
	}
	for _, f := range fs {
		if len(cur) >= 8 {
			cur = cur[1:]
		}
		cur = append(cur, retainedFn{f, f()})
	}
	w.State["retain/"+key] = cur
	return true
}
