package props

import (
	"fmt"
	"unsafe"

	"verif/internal/mon"
)

// bitAt reads bit i of a bitmap, LSB-first inside each word (the library's convention).
func bitAt(words []uint64, i int) uint64 {
	return (words[i>>6] >> uint(i&63)) & 1
}

func setBit(words []uint64, i int) { words[i>>6] |= 1 << uint(i&63) }

func hexWords(ws []uint64) []string {
	out := make([]string, len(ws))
	for i, w := range ws {
		out[i] = fmt.Sprintf("%016x", w)
	}
	return out
}

func cloneWords(ws []uint64) []uint64 { return append([]uint64(nil), ws...) }

func eqWords(a, b []uint64) bool {
	if len(a) != len(b) {
		return false
	}
	for i := range a {
		if a[i] != b[i] {
			return false
		}
	}
	return true
}

func eqI32(a, b []int32) bool {
	if len(a) != len(b) {
		return false
	}
	for i := range a {
		if a[i] != b[i] {
			return false
		}
	}
	return true
}

func trunc32(a []int32, n int) []int32 {
	if len(a) > n {
		return a[:n]
	}
	return a
}

func truncW(a []uint64, n int) []string {
	if len(a) > n {
		a = a[:n]
	}
	return hexWords(a)
}

func b2i(b bool) int {
	if b {
		return 1
	}
	return 0
}

func min(a, b int) int {
	if a < b {
		return a
	}
	return b
}

func max(a, b int) int {
	if a > b {
		return a
	}
	return b
}

// short renders a value with %v and truncates the text.
func short(x interface{}, n int) string {
	s := fmt.Sprintf("%v", x)
	if len(s) > n {
		s = s[:n] + "…"
	}
	return s
}

// retained remembers slices returned by earlier library calls of this worker together with their
// content hash; check reports whether any of them was changed by a later call (a returned slice
// must not alias state the library reuses).
type retained struct {
	i32  [][]int32
	hash []uint64
}

func hashI32s(v []int32) uint64 {
	h := uint64(len(v)) + 0x9e37
	for _, x := range v {
		h = h*0x100000001b3 ^ uint64(uint32(x))
	}
	return h
}

// keep adds slices (ring of 9) and returns the index of an earlier slice whose content changed, or -1.
func (r *retained) keep(vs ...[]int32) int {
	bad := -1
	for k, v := range r.i32 {
		if hashI32s(v) != r.hash[k] {
			bad = k
		}
	}
	for _, v := range vs {
		if len(r.i32) >= 9 {
			r.i32, r.hash = r.i32[1:], r.hash[1:]
		}
		r.i32 = append(r.i32, v)
		r.hash = append(r.hash, hashI32s(v))
	}
	return bad
}

// retainCheck remembers results returned by earlier library calls of this worker (as closures that
// re-hash them) and re-evaluates all of them whenever new ones are added: a result handed to the
// caller must not change when the library is called again (no aliasing of reused internal buffers).
// It returns false, after recording the violation, if an earlier result changed.
type retainedFn struct {
	f func() uint64
	h uint64
}

func retainCheck(w *mon.W, key, what string, fs ...func() uint64) bool {
	cur, _ := w.State["retain/"+key].([]retainedFn)
	for _, r := range cur {
		if r.f() != r.h {
			w.Fail(key+"/earlier-result-changed-by-later-call", mon.D{"what": "a slice returned by an earlier " + what + " call changed its content after a later library call"})
			w.State["retain/"+key] = []retainedFn(nil)
			return false
		}
	}
	for _, f := range fs {
		if len(cur) >= 8 {
			cur = cur[1:]
		}
		cur = append(cur, retainedFn{f, f()})
	}
	w.State["retain/"+key] = cur
	return true
}

// ---- hostile-but-legitimate caller ---------------------------------------------------------------
//
// (1) dirty spare capacity: slice arguments are handed to the library as views of a larger array
//     whose cells beyond len (and before the view) hold poison. The memory beyond len is not part of
//     the argument: results must not depend on it and it must not be written (guard).
// (2) scribbling: a slice the library returned belongs to the caller; once a driver has finished
//     checking it, it overwrites it up to its capacity. If the library handed out memory it still
//     uses (a shared constant, a pooled or cached buffer), later results go wrong and the ordinary
//     oracle reports them.

const poisonW = uint64(0xdeadbeefdeadbeef)
const poisonI = int32(0x5a5a5a5a)
const poisonB = byte(0xa5)

func dirtyW(ws []uint64) ([]uint64, func() bool) {
	n := len(ws)
	big := make([]uint64, n+5)
	for i := range big {
		big[i] = poisonW
	}
	copy(big[2:], ws)
	return big[2 : 2+n : n+4], func() bool {
		return big[0] == poisonW && big[1] == poisonW && big[2+n] == poisonW && big[3+n] == poisonW && big[4+n] == poisonW
	}
}

func dirtyI32(ws []int32) ([]int32, func() bool) {
	n := len(ws)
	big := make([]int32, n+6)
	for i := range big {
		big[i] = poisonI
	}
	copy(big[2:], ws)
	return big[2 : 2+n : n+5], func() bool {
		for i, x := range big {
			if (i < 2 || i >= 2+n) && x != poisonI {
				return false
			}
		}
		return true
	}
}

func dirtyB(b []byte) ([]byte, func() bool) {
	n := len(b)
	big := make([]byte, n+12)
	for i := range big {
		big[i] = poisonB
	}
	copy(big[4:], b)
	return big[4 : 4+n : n+11], func() bool {
		for i, x := range big {
			if (i < 4 || i >= 4+n) && x != poisonB {
				return false
			}
		}
		return true
	}
}

const poisonS = "\xff\xfe poison beyond len \x00"

func dirtyStrs(l []string) ([]string, func() bool) {
	n := len(l)
	big := make([]string, n+4)
	for i := range big {
		big[i] = poisonS
	}
	copy(big[1:], l)
	return big[1 : 1+n : n+3], func() bool {
		return big[0] == poisonS && big[1+n] == poisonS && big[2+n] == poisonS && big[3+n] == poisonS
	}
}

func scribbleW(ws []uint64) {
	ws = ws[:cap(ws)]
	for i := range ws {
		ws[i] = ^ws[i] ^ 0x1357924680acebdf
	}
}

func scribbleI32(ws []int32) {
	ws = ws[:cap(ws)]
	for i := range ws {
		ws[i] = ^ws[i] ^ 0x13579bdf
	}
}

func scribbleB(b []byte) {
	b = b[:cap(b)]
	for i := range b {
		b[i] = ^b[i] ^ 0x3c
	}
}

// argW is dirtyW on a per-worker buffer that is reused from case to case: consecutive bitmaps of
// one worker live at the SAME address (and often have the same length) with different content, as
// they do for a caller that updates a bitmap in place - a result cached by the identity of its
// argument goes stale and the ordinary oracle reports it.
func argW(w *mon.W, ws []uint64) ([]uint64, func() bool) {
	n := len(ws)
	buf, _ := w.State["argW"].([]uint64)
	if cap(buf) < n+5 {
		buf = make([]uint64, 2*n+64)
		w.State["argW"] = buf
	}
	big := buf[:n+5]
	for i := range big {
		big[i] = poisonW
	}
	copy(big[2:], ws)
	return big[2 : 2+n : n+4], func() bool {
		return big[0] == poisonW && big[1] == poisonW && big[2+n] == poisonW && big[3+n] == poisonW && big[4+n] == poisonW
	}
}

// argStrs / argI32: as argW, for []string and []int32 arguments.
func argStrs(w *mon.W, l []string) ([]string, func() bool) {
	n := len(l)
	buf, _ := w.State["argStrs"].([]string)
	if cap(buf) < n+4 {
		buf = make([]string, 2*n+32)
		w.State["argStrs"] = buf
	}
	big := buf[:n+4]
	for i := range big {
		big[i] = poisonS
	}
	copy(big[1:], l)
	return big[1 : 1+n : n+3], func() bool {
		return big[0] == poisonS && big[1+n] == poisonS && big[2+n] == poisonS && big[3+n] == poisonS
	}
}

func argI32(w *mon.W, l []int32) ([]int32, func() bool) {
	n := len(l)
	buf, _ := w.State["argI32"].([]int32)
	if cap(buf) < n+6 {
		buf = make([]int32, 2*n+64)
		w.State["argI32"] = buf
	}
	big := buf[:n+6]
	for i := range big {
		big[i] = poisonI
	}
	copy(big[2:], l)
	return big[2 : 2+n : n+5], func() bool {
		return big[0] == poisonI && big[1] == poisonI && big[2+n] == poisonI && big[3+n] == poisonI && big[4+n] == poisonI && big[5+n] == poisonI
	}
}

// overlapI32 reports whether the backing arrays of a and b, each taken up to its CAPACITY, share memory. Two
// slices handed to the caller by one call are two objects: appending to one (within its capacity) must not be
// able to reach the other.
func overlapI32(a, b []int32) bool {
	if cap(a) == 0 || cap(b) == 0 {
		return false
	}
	a0 := uintptr(unsafe.Pointer(unsafe.SliceData(a)))
	b0 := uintptr(unsafe.Pointer(unsafe.SliceData(b)))
	return a0 < b0+4*uintptr(cap(b)) && b0 < a0+4*uintptr(cap(a))
}

// overlapW is overlapI32 for word slices: a result of the same element type as an argument must not be a view of it
// (a caller who appends to the result, or overwrites it, would write into its own input).
func overlapW(a, b []uint64) bool {
	if cap(a) == 0 || cap(b) == 0 {
		return false
	}
	a0 := uintptr(unsafe.Pointer(unsafe.SliceData(a)))
	b0 := uintptr(unsafe.Pointer(unsafe.SliceData(b)))
	return a0 < b0+8*uintptr(cap(b)) && b0 < a0+8*uintptr(cap(a))
}

// overlapB: the same for byte slices.
func overlapB(a, b []byte) bool {
	if cap(a) == 0 || cap(b) == 0 {
		return false
	}
	a0 := uintptr(unsafe.Pointer(unsafe.SliceData(a)))
	b0 := uintptr(unsafe.Pointer(unsafe.SliceData(b)))
	return a0 < b0+uintptr(cap(b)) && b0 < a0+uintptr(cap(a))
}
