package props

import (
	"runtime/debug"
	"syscall"
	"unsafe"

	"verif/internal/mon"
)

// Read-only arguments (added in round 10). A slice a caller passes may legitimately live in memory that cannot be
// written: a memory-mapped index file, a page the caller protected, the read-only data of the binary. A pure function
// works there; one that plants a sentinel in its argument and removes it before returning, or sorts / pads / patches the
// argument and restores it, gives every single-goroutine result the snapshot comparison expects - and faults there. ro*
// copy an argument into a per-worker anonymous mapping (poison before and behind it, inside the same mapping), make the
// mapping PROT_READ and hand out the view; release() makes it writable again for the next case. The worker goroutine runs
// with debug.SetPanicOnFault(true), so a store becomes a panic at the storing instruction, whose stack names the library
// function: mon.runCase reports it as store-into-read-only-argument/<family>/<op>. A store from a goroutine the library
// started kills the process; the parent then re-runs the in-flight cases alone (crash attribution, 2.3).
//
// The harness itself only reads the views. Nothing is asserted that the properties do not state: on a library that
// does not write into its arguments (the unchanged tree) the protection is never touched.

const roArenaBytes = 8 << 20

type roArena struct {
	mem  []byte // the arena; the page behind it is PROT_NONE for good (guard)
	off  int
	ro   bool
	full bool // an argument of this case did not fit: roSeal refuses, the case runs without protection
	// One allocation per case ends exactly at the guard page: an access beyond the end of that argument faults (a string
	// that is the last thing in a mapped file; round 12 seeded an 8-byte load guarded for 5 bytes). tailAt says which
	// allocation of the case it is (0 = the first), tail is where the tail allocation begins (len(mem) while unused).
	nalloc, tailAt, tail int
	seals                int
}

func roGet(w *mon.W) *roArena {
	a, _ := w.State["roArena"].(*roArena)
	if a == nil {
		page := syscall.Getpagesize()
		all, err := syscall.Mmap(-1, 0, roArenaBytes+page, syscall.PROT_READ|syscall.PROT_WRITE, syscall.MAP_ANON|syscall.MAP_PRIVATE)
		if err != nil {
			panic("harness: mmap: " + err.Error())
		}
		if err := syscall.Mprotect(all[roArenaBytes:], syscall.PROT_NONE); err != nil {
			panic("harness: mprotect: " + err.Error())
		}
		a = &roArena{mem: all[:roArenaBytes:roArenaBytes], tail: roArenaBytes}
		w.State["roArena"] = a
		lo := uintptr(unsafe.Pointer(&all[0]))
		w.ROArena = [2]uintptr{lo, lo + roArenaBytes}
		w.ROGuard = [2]uintptr{lo + roArenaBytes, lo + roArenaBytes + uintptr(page)}
	}
	return a
}

func (a *roArena) writable() {
	if a.ro {
		if err := syscall.Mprotect(a.mem, syscall.PROT_READ|syscall.PROT_WRITE); err != nil {
			panic("harness: mprotect: " + err.Error())
		}
		a.ro = false
	}
}

// roAlloc returns n bytes inside the arena (16-byte aligned, at least 32 bytes of poison before and behind); when the
// arena has no room left it returns ordinary memory and marks the arena full (roSeal then reports false).
func roAlloc(w *mon.W, n int) []byte {
	a := roGet(w)
	a.writable()
	k := a.nalloc
	a.nalloc++
	if k == a.tailAt && n > 0 && n+64 < a.tail-a.off && n < 1<<20 {
		// flush against the guard page (8-byte aligned start for word slices: n is then a multiple of 8 or the slice is
		// a byte slice / string)
		a.tail = len(a.mem) - n
		for i := a.tail - 32; i < a.tail; i++ {
			a.mem[i] = poisonB
		}
		return a.mem[a.tail:len(a.mem):len(a.mem)]
	}
	start := (a.off + 32 + 15) &^ 15
	if start+n+32 > a.tail-32 {
		a.full = true
		return make([]byte, n+1)[:n:n]
	}
	for i := a.off; i < start; i++ {
		a.mem[i] = poisonB
	}
	for i := start + n; i < start+n+32; i++ {
		a.mem[i] = poisonB
	}
	a.off = start + n
	return a.mem[start : start+n : start+n]
}

// roSeal protects everything allocated so far; the returned function releases all of it. It reports false (and
// protects nothing) when an argument did not fit into the arena.
func roSeal(w *mon.W) (func(), bool) {
	a := roGet(w)
	if a.full {
		return func() {}, false
	}
	// Changing page protections takes the address-space lock of the process: sixteen workers doing it for every few
	// cases spend most of their time waiting for each other (C09 thorough went from 4 to 45+ minutes). The thorough tier
	// has a hundred times the cases: it protects one placement in sixteen, which is still several times what quick does.
	a.seals++
	if w.Cfg.Thorough() && a.seals&15 != 0 {
		return func() {}, false
	}
	debug.SetPanicOnFault(true)
	if err := syscall.Mprotect(a.mem, syscall.PROT_READ); err != nil {
		panic("harness: mprotect: " + err.Error())
	}
	a.ro = true
	w.RO = true
	return func() {
		a.writable()
		a.off = 0
		a.nalloc, a.tail = 0, len(a.mem)
		// w.RO stays set until the next case starts: release usually runs deferred, i.e. before runCase's recover
	}, true
}

// roReset is called where a case starts to use the arena (a panic may have left it sealed).
func roReset(w *mon.W) {
	a := roGet(w)
	a.writable()
	a.off = 0
	a.full = false
	a.nalloc, a.tail = 0, len(a.mem)
	a.tailAt = w.Idx() % 3
	w.RO = false
}

func roWords(w *mon.W, ws []uint64) []uint64 {
	if ws == nil {
		return nil
	}
	b := roAlloc(w, 8*len(ws))
	if len(ws) == 0 {
		return []uint64{}
	}
	v := unsafe.Slice((*uint64)(unsafe.Pointer(&b[0])), len(ws))
	copy(v, ws)
	return v
}

func roI32(w *mon.W, ws []int32) []int32 {
	if ws == nil {
		return nil
	}
	b := roAlloc(w, 4*len(ws))
	if len(ws) == 0 {
		return []int32{}
	}
	v := unsafe.Slice((*int32)(unsafe.Pointer(&b[0])), len(ws))
	copy(v, ws)
	return v
}

func roBytes(w *mon.W, bs []byte) []byte {
	if bs == nil {
		return nil
	}
	b := roAlloc(w, len(bs))
	copy(b, bs)
	return b
}

// roStr returns a string whose bytes live in the arena.
func roStr(w *mon.W, s string) string {
	if len(s) == 0 {
		return ""
	}
	b := roAlloc(w, len(s))
	copy(b, s)
	return unsafe.String(&b[0], len(b))
}

// roStrs returns a []string whose HEADERS live in the arena (the list cannot be sorted, de-duplicated or patched in
// place) and whose bytes live there too. The arena is not scanned by the garbage collector; it holds no pointer into
// the Go heap (the strings point into the arena itself).
func roStrs(w *mon.W, l []string) []string {
	if l == nil {
		return nil
	}
	if len(l) == 0 {
		return []string{}
	}
	// The headers are written as integers: a pointer store into the arena would make the write barrier log the slot's
	// old content (poison, bytes of an earlier case) as if it were a pointer.
	hb := roAlloc(w, int(unsafe.Sizeof(""))*len(l))
	hdr := unsafe.Slice((*uintptr)(unsafe.Pointer(&hb[0])), 2*len(l))
	for i, s := range l {
		if len(s) == 0 {
			hdr[2*i], hdr[2*i+1] = 0, 0
			continue
		}
		b := roAlloc(w, len(s))
		copy(b, s)
		hdr[2*i], hdr[2*i+1] = uintptr(unsafe.Pointer(&b[0])), uintptr(len(s))
	}
	return unsafe.Slice((*string)(unsafe.Pointer(&hb[0])), len(l))
}

// roOneW / roOneI32 / roOneB / roOneStrs place the single slice argument of a case in the read-only arena. They return
// the argument itself and false when it does not fit.
func roOneW(w *mon.W, ws []uint64) ([]uint64, func(), bool) {
	roReset(w)
	v := roWords(w, ws)
	rel, ok := roSeal(w)
	if !ok {
		return ws, rel, false
	}
	w.Bucket("arguments-in-read-only-memory")
	return v, rel, true
}

func roOneI32(w *mon.W, ws []int32) ([]int32, func(), bool) {
	roReset(w)
	v := roI32(w, ws)
	rel, ok := roSeal(w)
	if !ok {
		return ws, rel, false
	}
	w.Bucket("arguments-in-read-only-memory")
	return v, rel, true
}

func roOneStrs(w *mon.W, l []string) ([]string, func(), bool) {
	roReset(w)
	v := roStrs(w, l)
	rel, ok := roSeal(w)
	if !ok {
		return l, rel, false
	}
	w.Bucket("arguments-in-read-only-memory")
	return v, rel, true
}

// roPickStrs decides from the content (deterministically) whether a key list goes to the read-only arena.
func roPickStrs(l []string) bool {
	if len(l) == 0 {
		return false
	}
	h := uint64(len(l))
	for _, s := range l[:1+(len(l)-1)/2] {
		h = h*31 + uint64(len(s))
		if len(s) > 0 {
			h = h*131 + uint64(s[len(s)-1])
		}
	}
	return h%4 == 1
}

// roI32s / roBBs: a slice of slices whose headers AND elements live in the arena (headers written as integers, see roStrs).
func roI32s(w *mon.W, l [][]int32) [][]int32 {
	if l == nil {
		return nil
	}
	if len(l) == 0 {
		return [][]int32{}
	}
	hb := roAlloc(w, int(unsafe.Sizeof([]int32(nil)))*len(l))
	hdr := unsafe.Slice((*uintptr)(unsafe.Pointer(&hb[0])), 3*len(l))
	for i, s := range l {
		if len(s) == 0 {
			hdr[3*i], hdr[3*i+1], hdr[3*i+2] = 0, 0, 0
			continue
		}
		b := roAlloc(w, 4*len(s))
		copy(unsafe.Slice((*int32)(unsafe.Pointer(&b[0])), len(s)), s)
		hdr[3*i], hdr[3*i+1], hdr[3*i+2] = uintptr(unsafe.Pointer(&b[0])), uintptr(len(s)), uintptr(len(s))
	}
	return unsafe.Slice((*[]int32)(unsafe.Pointer(&hb[0])), len(l))
}

func roBBs(w *mon.W, l [][]byte) [][]byte {
	if l == nil {
		return nil
	}
	if len(l) == 0 {
		return [][]byte{}
	}
	hb := roAlloc(w, int(unsafe.Sizeof([]byte(nil)))*len(l))
	hdr := unsafe.Slice((*uintptr)(unsafe.Pointer(&hb[0])), 3*len(l))
	for i, s := range l {
		if len(s) == 0 {
			hdr[3*i], hdr[3*i+1], hdr[3*i+2] = 0, 0, 0
			continue
		}
		b := roAlloc(w, len(s))
		copy(b, s)
		hdr[3*i], hdr[3*i+1], hdr[3*i+2] = uintptr(unsafe.Pointer(&b[0])), uintptr(len(s)), uintptr(len(s))
	}
	return unsafe.Slice((*[]byte)(unsafe.Pointer(&hb[0])), len(l))
}

// roTailStr places ONE string so that its last byte is the last byte of the mapping (the next page is inaccessible):
// a load that reaches beyond the end of the string faults instead of reading whatever lies there.
func roTailStr(w *mon.W, s string) (string, func(), bool) {
	if len(s) == 0 {
		return s, func() {}, false
	}
	roReset(w)
	roGet(w).tailAt = 0
	v := roStr(w, s)
	rel, ok := roSeal(w)
	if !ok {
		return s, rel, false
	}
	w.Bucket("string-at-the-end-of-its-mapping")
	return v, rel, true
}

// hugeZeroBytes / hugeZeroWords: an argument of hundreds of megabytes as an anonymous mapping - zero pages that cost
// nothing until they are written, and that go back to the system at once when the case is done (a Go-heap allocation of
// that size is zeroed by hand when its address range is reused, which touches every page).
func hugeZeroBytes(n int) ([]byte, func()) {
	mem, err := syscall.Mmap(-1, 0, n, syscall.PROT_READ|syscall.PROT_WRITE, syscall.MAP_ANON|syscall.MAP_PRIVATE)
	if err != nil {
		return make([]byte, n), func() {}
	}
	return mem[:n:n], func() { syscall.Munmap(mem) }
}

func hugeZeroWords(n int) ([]uint64, func()) {
	b, rel := hugeZeroBytes(8 * n)
	return unsafe.Slice((*uint64)(unsafe.Pointer(&b[0])), n), rel
}
