package props

import (
	"bytes"
	"errors"
	"fmt"
	"io"
	"math"
	"os"
	"runtime"
	"sync"

	"github.com/openacid/low/iohelper"

	"verif/internal/gen"
	"verif/internal/mon"
)

// C18 — SectionWriter confines and accounts for every byte across any call sequence.
//
// Online trace checker over (a) the return values of Write/WriteAt/Seek/Size and (b) every
// (offset, bytes) the library hands to the harness's recording io.WriterAt. Effects are compared,
// not call lists: faults are position based (the device refuses bytes at or after an absolute
// position, or after a total quota of accepted bytes), so the plan does not depend on how many
// underlying calls an implementation issues.

var errC18Dev = errors.New("verif: injected device error")

type c18Fault struct {
	kind  int   // 0 none, 1 position F, 2 quota Q
	at    int64 // F or Q
	whole bool  // all-or-nothing: a write that would be cut is refused completely (error alone)
	late  bool  // late failure: the device stores every byte offered but still reports its error
	// silent: the device stores fewer bytes than offered and reports NO error (io.WriterAt forbids that, the property's
	// quantifier - "underlying writers that fail or write short at any call" - admits it): the count and the cursor
	// follow the bytes that passed, the error is nil unless the section end truncated the request
	silent bool
}

func (f c18Fault) String() string {
	st := "partial"
	if f.whole {
		st = "all-or-nothing"
	}
	if f.late {
		st = "all-bytes-stored-but-error-reported"
	}
	if f.silent {
		st = "short-count-without-error"
	}
	switch f.kind {
	case 1:
		return fmt.Sprintf("refuse-bytes-at-or-after(%d,%s)", f.at, st)
	case 2:
		return fmt.Sprintf("quota(%d,%s)", f.at, st)
	case 3:
		return fmt.Sprintf("underlying-writer-is-a-SectionWriter-of-length(%d)", f.at)
	}
	return "none"
}

// accept says how many of n bytes offered at absolute offset off the device takes, given the
// bytes accepted so far. It is a pure function shared by the device and the model.
func (f c18Fault) accept(off int64, n int, sofar int64) (int, bool) {
	k := n
	switch f.kind {
	case 1:
		room := f.at - off
		if room < 0 {
			room = 0
		}
		if int64(k) > room {
			k = int(room)
		}
	case 2:
		room := f.at - sofar
		if room < 0 {
			room = 0
		}
		if int64(k) > room {
			k = int(room)
		}
	case 3:
		// what an enclosing SectionWriter of length f.at does to the calls it receives: bytes below its end pass,
		// a call starting at or beyond its end is refused even when it carries no bytes
		if off >= f.at {
			return 0, true
		}
		if room := f.at - off; int64(k) > room {
			k = int(room)
		}
	}
	failed := k < n
	if failed && f.whole {
		k = 0
	}
	if failed && f.late {
		k = n
	}
	return k, failed
}

type c18Assign struct {
	pos int64
	b   byte
}

// c18Dev is the recording underlying writer (the observation point).
type c18Dev struct {
	fault    c18Fault
	accepted int64
	image    map[int64]byte
	op       []c18Assign // assignments made during the current op, in order
	calls    int
	lo, hi   int64 // extent of all bytes ever offered (accepted or not) in this op
	touched  bool
	inert    bool  // the device accepts everything; fault only describes what a writer stacked in between does
	shift    int64 // subtracted from every offset before recording (the stacked writer's own start)
}

func (d *c18Dev) WriteAt(p []byte, off int64) (int, error) {
	d.calls++
	off -= d.shift
	if len(p) > 0 {
		if !d.touched || off < d.lo {
			d.lo = off
		}
		if !d.touched || off+int64(len(p)) > d.hi {
			d.hi = off + int64(len(p))
		}
		d.touched = true
	}
	k, failed := d.fault.accept(off, len(p), d.accepted)
	if d.inert {
		k, failed = len(p), false
	}
	for i := 0; i < k; i++ {
		d.image[off+int64(i)] = p[i]
		d.op = append(d.op, c18Assign{off + int64(i), p[i]})
	}
	d.accepted += int64(k)
	if failed && !d.fault.silent {
		return k, errC18Dev
	}
	return k, nil
}

const (
	c18Nil = iota
	c18Short
	c18DevErr
	c18Other
)

var c18ErrNames = []string{"nil", "io.ErrShortWrite", "device error", "other error"}

func c18Class(err error) int {
	switch {
	case err == nil:
		return c18Nil
	case err == io.ErrShortWrite || errors.Is(err, io.ErrShortWrite):
		return c18Short
	case err == errC18Dev || errors.Is(err, errC18Dev):
		return c18DevErr
	}
	return c18Other
}

type c18Mon struct {
	w        *mon.W
	sw       *iohelper.SectionWriter
	wr       io.Writer // AtToWriter view (Write only)
	dev      *c18Dev
	base     int64
	n        int64 // section length
	limit    int64
	cursor   int64 // absolute
	image    map[int64]byte
	sofar    int64
	seq      byte
	hist     []string
	trans    map[uint64]struct{}
	atw      bool
	file     *os.File // set: the section writer writes to this real file, not to dev
	faultCls int      // error class expected when the model's fault is hit (c18DevErr; c18Short when the "device" is an enclosing section)
}

func (c *c18Mon) faultClass() int {
	if c.faultCls != 0 {
		return c.faultCls
	}
	return c18DevErr
}

func (c *c18Mon) detail(extra mon.D) mon.D {
	extra["section_base"] = c.base
	extra["section_len"] = c.n
	extra["fault"] = c.dev.fault.String()
	extra["history"] = append([]string(nil), c.hist...)
	extra["model_cursor_rel"] = c.cursor - c.base
	return extra
}

func (c *c18Mon) buf(n int) []byte {
	b := make([]byte, n)
	for i := range b {
		c.seq++
		if c.seq == 0 {
			c.seq = 1
		}
		b[i] = c.seq
	}
	return b
}

func (c *c18Mon) begin() {
	c.dev.op = c.dev.op[:0]
	c.dev.touched = false
}

// effects compares what reached the device during this op with the model's expectation:
// bytes exp written at absolute position start.
// fileMatches: the whole file equals the model image (zero wherever the model holds nothing).
func (c *c18Mon) fileMatches(op string) bool {
	got, err := os.ReadFile(c.file.Name())
	if err != nil {
		c.w.Harness("c18/readback", mon.D{"err": err.Error()})
		return false
	}
	for p, b := range got {
		if e := c.image[int64(p)]; e != b {
			c.w.Fail(op+"/file-content-differs", c.detail(mon.D{"underlying": "*os.File", "pos": p, "got": b, "expected": e, "file_len": len(got)}))
			return false
		}
	}
	for p, b := range c.image {
		if b != 0 && p >= int64(len(got)) {
			c.w.Fail(op+"/file-content-differs", c.detail(mon.D{"underlying": "*os.File", "pos": p, "expected": b, "file_len": len(got), "what": "byte missing from the file"}))
			return false
		}
	}
	return true
}

func (c *c18Mon) cleanup() {
	if c != nil && c.file != nil {
		c.file.Close()
		os.Remove(c.file.Name())
	}
}

func (c *c18Mon) effects(op string, start int64, exp []byte) bool {
	if c.file != nil {
		for i, b := range exp {
			c.image[start+int64(i)] = b
		}
		return c.fileMatches(op)
	}
	// containment first: any byte offered outside [base, base+n)
	if c.dev.touched && (c.dev.lo < c.base || c.dev.hi > c.limit) {
		c.w.Fail("containment/"+op, c.detail(mon.D{"offered_range": []int64{c.dev.lo, c.dev.hi}, "section": []int64{c.base, c.limit}}))
		return false
	}
	got := map[int64]byte{}
	for _, a := range c.dev.op {
		got[a.pos] = a.b
	}
	bad := len(got) != len(exp)
	if !bad {
		for i, b := range exp {
			if g, ok := got[start+int64(i)]; !ok || g != b {
				bad = true
				break
			}
		}
	}
	if bad {
		c.w.Fail(op+"/bytes-or-positions-differ", c.detail(mon.D{"expected_start": start, "expected_len": len(exp), "device_assignments": len(c.dev.op),
			"device_first": fmt.Sprint(c.dev.op[:min(4, len(c.dev.op))])}))
		return false
	}
	for i, b := range exp {
		c.image[start+int64(i)] = b
	}
	return true
}

func (c *c18Mon) trans1(op string, rel string, trunc bool, faulted bool, cls int) {
	c.trans[gen.Hash64(gen.HashStr(op), gen.HashStr(rel), uint64(b2i(trunc)), uint64(b2i(faulted)), uint64(cls))] = struct{}{}
}

func (c *c18Mon) rel() string {
	switch {
	case c.cursor < c.limit-1:
		return "inside"
	case c.cursor == c.limit-1:
		return "last-byte"
	case c.cursor == c.limit:
		return "at-end"
	}
	return "beyond-end"
}

func (c *c18Mon) Write(n int) bool {
	p := c.buf(n)
	in := append([]byte(nil), p...)
	c.begin()
	c.hist = append(c.hist, fmt.Sprintf("Write(len=%d)", n))
	c.w.Op, c.w.A = "SectionWriter.Write", int64(n)
	var gn int
	var gerr error
	if c.atw {
		gn, gerr = c.wr.Write(p)
	} else {
		gn, gerr = c.sw.Write(p)
	}
	c.w.Eval(1)
	rel := c.rel()
	// model
	var exp []byte
	expN, expErr := 0, c18Nil
	trunc := false
	if c.cursor >= c.limit {
		expErr = c18Short
	} else {
		pp := in
		if int64(len(pp)) > c.limit-c.cursor {
			pp = pp[:c.limit-c.cursor]
			trunc = true
		}
		k, failed := c.dev.fault.accept(c.cursor, len(pp), c.sofar)
		exp = pp[:k]
		expN = k
		switch {
		case failed && !c.dev.fault.silent:
			expErr = c.faultClass()
		case trunc:
			expErr = c18Short
		}
	}
	start := c.cursor
	if gn != expN {
		c.w.Fail("Write/count", c.detail(mon.D{"got_n": gn, "expected_n": expN, "err": fmt.Sprint(gerr)}))
		return false
	}
	if g := c18Class(gerr); g != expErr {
		c.w.Fail("Write/error-class", c.detail(mon.D{"got": c18ErrNames[g] + ": " + fmt.Sprint(gerr), "expected": c18ErrNames[expErr], "n": gn}))
		return false
	}
	if !c.effects("Write", start, exp) {
		return false
	}
	if string(p) != string(in) {
		c.w.Fail("Write/buffer-modified", c.detail(mon.D{}))
		return false
	}
	c.sofar += int64(expN)
	c.cursor += int64(expN)
	c.trans1("Write", rel, trunc, expErr == c18DevErr, expErr)
	c.w.Bucket("write/" + rel)
	if trunc {
		c.w.Bucket("write/truncated")
	}
	if n == 0 {
		c.w.Bucket("write/empty-buffer")
	}
	if expErr == c18DevErr {
		c.w.Bucket("fault/hit-in-Write")
	}
	return c.observe()
}

func (c *c18Mon) WriteAt(n int, off int64) bool {
	p := c.buf(n)
	in := append([]byte(nil), p...)
	c.begin()
	c.hist = append(c.hist, fmt.Sprintf("WriteAt(len=%d,off=%d)", n, off))
	c.w.Op, c.w.A, c.w.B = "SectionWriter.WriteAt", int64(n), off
	gn, gerr := c.sw.WriteAt(p, off)
	c.w.Eval(1)
	var exp []byte
	expN, expErr := 0, c18Nil
	trunc := false
	start := c.base + off
	switch {
	case off < 0:
		// outside the statement's wording: only "nothing written, count 0" is required
		if gn != 0 || len(c.dev.op) != 0 {
			c.w.Fail("WriteAt/negative-offset-wrote", c.detail(mon.D{"n": gn, "device_assignments": len(c.dev.op)}))
			return false
		}
		c.w.Bucket("writeat/negative-offset")
		return c.observe()
	case off >= c.n:
		expErr = c18Short
		c.w.Bucket("writeat/at-or-beyond-end")
	default:
		pp := in
		if int64(len(pp)) > c.limit-start {
			pp = pp[:c.limit-start]
			trunc = true
		}
		k, failed := c.dev.fault.accept(start, len(pp), c.sofar)
		exp = pp[:k]
		expN = k
		switch {
		case failed && !c.dev.fault.silent:
			expErr = c.faultClass()
		case trunc:
			expErr = c18Short
		}
	}
	if gn != expN {
		c.w.Fail("WriteAt/count", c.detail(mon.D{"got_n": gn, "expected_n": expN, "err": fmt.Sprint(gerr)}))
		return false
	}
	if g := c18Class(gerr); g != expErr {
		c.w.Fail("WriteAt/error-class", c.detail(mon.D{"got": c18ErrNames[g] + ": " + fmt.Sprint(gerr), "expected": c18ErrNames[expErr], "n": gn}))
		return false
	}
	if !c.effects("WriteAt", start, exp) {
		return false
	}
	c.sofar += int64(expN)
	c.trans1("WriteAt", fmt.Sprint(off >= c.n, off+int64(n) == c.n, off == 0), trunc, expErr == c18DevErr, expErr)
	if trunc {
		c.w.Bucket("writeat/truncated")
	}
	if off+int64(n) == c.n && n > 0 {
		c.w.Bucket("writeat/ends-exactly-at-limit")
	}
	if expErr == c18DevErr {
		c.w.Bucket("fault/hit-in-WriteAt")
	}
	return c.observe()
}

func (c *c18Mon) Seek(offset int64, whence int) bool {
	c.begin()
	c.hist = append(c.hist, fmt.Sprintf("Seek(%d,%d)", offset, whence))
	c.w.Op, c.w.A, c.w.B = "SectionWriter.Seek", offset, int64(whence)
	gp, gerr := c.sw.Seek(offset, whence)
	c.w.Eval(1)
	var np int64
	valid := true
	switch whence {
	case io.SeekStart:
		np = c.base + offset
	case io.SeekCurrent:
		np = c.cursor + offset
	case io.SeekEnd:
		np = c.limit + offset
	default:
		valid = false
	}
	if len(c.dev.op) != 0 || c.dev.calls < 0 {
		c.w.Fail("Seek/wrote-to-device", c.detail(mon.D{}))
		return false
	}
	if !valid || np < c.base {
		if gerr == nil {
			c.w.Fail("Seek/no-error-on-invalid", c.detail(mon.D{"returned": gp, "valid_whence": valid, "target_rel": np - c.base}))
			return false
		}
		if !valid {
			c.w.Bucket("seek/invalid-whence")
		} else {
			c.w.Bucket("seek/before-start")
		}
		c.trans1("Seek", c.rel(), false, false, c18Other)
		return c.observe() // the cursor must not have moved
	}
	if gerr != nil || gp != np-c.base {
		c.w.Fail("Seek/position", c.detail(mon.D{"returned": gp, "err": fmt.Sprint(gerr), "expected": np - c.base}))
		return false
	}
	c.cursor = np
	c.w.Bucket(fmt.Sprintf("seek/whence=%d", whence))
	if np > c.limit {
		c.w.Bucket("seek/beyond-end")
	}
	c.trans1("Seek", c.rel(), false, false, c18Nil)
	return c.observe()
}

// observe reads the cursor and the size back after every op.
func (c *c18Mon) observe() bool {
	if c.atw {
		return true
	}
	c.begin()
	c.w.Op = "SectionWriter.Seek(0,SeekCurrent)"
	gp, gerr := c.sw.Seek(0, io.SeekCurrent)
	if gerr != nil || gp != c.cursor-c.base {
		c.w.Fail("cursor-after-op", c.detail(mon.D{"cursor_reported": gp, "err": fmt.Sprint(gerr), "expected": c.cursor - c.base}))
		return false
	}
	c.w.Op = "SectionWriter.Size"
	if s := c.sw.Size(); s != c.n {
		c.w.Fail("Size", c.detail(mon.D{"got": s, "expected": c.n}))
		return false
	}
	c.w.Eval(2)
	return true
}

// final compares the whole device image with the model's.
func (c *c18Mon) final() bool {
	if c.file != nil {
		return c.fileMatches("final")
	}
	if len(c.dev.image) != len(c.image) {
		c.w.Fail("final-image-differs", c.detail(mon.D{"device_bytes": len(c.dev.image), "model_bytes": len(c.image)}))
		return false
	}
	for p, b := range c.image {
		if c.dev.image[p] != b {
			c.w.Fail("final-image-differs", c.detail(mon.D{"pos": p}))
			return false
		}
	}
	return true
}

var c18Bases = []int64{0, 1, 7, 1000}
var c18Lens = []int64{0, 1, 2, 8, 29}

type c18Plan struct {
	base, n int64
	fault   c18Fault
	osfile  bool // the underlying io.WriterAt is a real *os.File (no injected faults; effects are read back from the file)
	// nested: the underlying io.WriterAt is itself a SectionWriter (start outerBase, length outerLen) over the
	// recording device; base is relative to it. From the inner section's point of view that is an underlying writer
	// which writes short at its own end.
	nested              bool
	outerBase, outerLen int64
}

func c18Plans() []c18Plan {
	var out []c18Plan
	for _, b := range c18Bases {
		for _, n := range c18Lens {
			out = append(out, c18Plan{base: b, n: n})
			for f := b - 1; f <= b+n+1; f++ {
				out = append(out, c18Plan{base: b, n: n, fault: c18Fault{kind: 1, at: f}}, c18Plan{base: b, n: n, fault: c18Fault{kind: 1, at: f, whole: true}}, c18Plan{base: b, n: n, fault: c18Fault{kind: 1, at: f, late: true}}, c18Plan{base: b, n: n, fault: c18Fault{kind: 1, at: f, silent: true}})
			}
			for q := int64(0); q <= n+1; q++ {
				out = append(out, c18Plan{base: b, n: n, fault: c18Fault{kind: 2, at: q, whole: q&1 == 1}}, c18Plan{base: b, n: n, fault: c18Fault{kind: 2, at: q, late: true}})
			}
		}
	}
	return out
}

func init() {
	plans := c18Plans()
	register(&mon.Prop{
		ID:    "C18",
		Level: "fault_enumeration",
		Rule: "sections (base,n) in {0,1,7,1000} x {0,1,2,8,29}; for each: no fault, EVERY refusal position F in [base-1, base+n+1] x {partial, all-or-nothing, all bytes stored but error reported, short count without error} and EVERY quota in [0, n+1] x 2 styles (" + fmt.Sprint(len(plans)) + " fault plans) x seeded histories of 1..30 ops over " +
			"Write/WriteAt/Seek with buffer lengths {0, 1, exactly-to-limit, limit+1, random}, every whence in {-1,0,1,2,3} and offsets around 0, cursor and end; cursor and Size read back after EVERY op; " +
			"larger sections (n up to 5000) with sampled fault positions; AtToWriter(w, off) driven with Write histories. Non-trivial+distinct = hash of (plan, history) with >= 2 ops + distinct (op, cursor relation, truncation, fault, outcome) transitions.",
		Assumptions: []string{"offsets kept within +-2^40 so int64 wrap-around (unspecified) is never exercised", "WriteAt with a negative offset: only 'nothing written, count 0' is asserted (the statement does not name the error)",
			"underlying writer: a device that refuses bytes by absolute position or by total quota; its error wins over io.ErrShortWrite"},
		Flavours: releaseAnd386,
		Required: []string{"write/inside", "write/last-byte", "write/at-end", "write/beyond-end", "write/truncated", "write/empty-buffer", "writeat/at-or-beyond-end", "writeat/truncated", "writeat/ends-exactly-at-limit",
			"writeat/negative-offset", "seek/whence=0", "seek/whence=1", "seek/whence=2", "seek/invalid-whence", "seek/before-start", "seek/beyond-end", "fault/hit-in-Write", "fault/hit-in-WriteAt", "fault/late-error-style",
			"section/n=0", "attowriter", "write-after-seek", "write-after-partial-write", "section/ends-at-MaxInt64", "writeat/offset=MaxInt64", "underlying/*os.File", "underlying/*SectionWriter", "underlying/*SectionWriter/inner-reaches-beyond-outer", "attowriter/over-a-SectionWriter", "attowriter/owner-moves-its-cursor", "attowriter/two-views-of-one-file", "writeat/parallel-on-disjoint-ranges", "seek/target-not-representable", "attowriter/asserted-to-Seeker"},
		Families: func(c *mon.Config) []mon.Family {
			reps := c.Pick(80, 12000)
			return []mon.Family{
				{Name: "enumerated-faults", Env: 4, N: len(plans) * reps, Run: func(w *mon.W, idx int) { c18History(w, plans[idx%len(plans)], idx) }},
				{Name: "large-sections", Env: 6, N: c.Pick(10000, 1500000), Run: c18Large},
				{Name: "at-to-writer", Env: 4, N: c.Pick(6000, 600000), Run: c18AtToWriter},
				{Name: "os-file", Env: 2, N: c.Pick(400, 40000), Run: func(w *mon.W, idx int) {
					c18History(w, c18Plan{base: int64(w.Rng.Pick(0, 1, 7, 1000, 4096)), n: int64(w.Rng.Pick(0, 1, 8, 29, 100, 1000, 5000)), osfile: true}, idx)
				}},
				{Name: "nested-sections", Env: 2, N: c.Pick(2000, 200000), Run: func(w *mon.W, idx int) {
					r := w.Rng
					ol := int64(r.Pick(0, 1, 5, 8, 29, 100))
					p := c18Plan{nested: true, outerBase: int64(r.Pick(0, 1, 10, 1000)), outerLen: ol, base: int64(r.Intn(int(ol) + 3)), n: int64(r.Pick(0, 1, 3, 10, 29, 200))}
					c18History(w, p, idx)
				}},
				{Name: "at-to-writer-file", Env: 2, N: c.Pick(300, 30000), Run: c18AtToWriterFile},
				{Name: "parallel-writeat", Env: 3, N: c.Pick(200, 20000), Run: c18ParallelWriteAt},
				{Name: "near-maxint64", N: c.Pick(3000, 300000), Run: c18NearMax},
			}
		},
	})
}

func c18NewMon(w *mon.W, p c18Plan) *c18Mon {
	dev := &c18Dev{fault: p.fault, image: map[int64]byte{}}
	w.Op, w.A, w.B = "NewSectionWriter", p.base, p.n
	if p.nested {
		dev := &c18Dev{fault: c18Fault{kind: 3, at: p.outerLen}, inert: true, shift: p.outerBase, image: map[int64]byte{}}
		outer := iohelper.NewSectionWriter(dev, p.outerBase, p.outerLen)
		return &c18Mon{w: w, sw: iohelper.NewSectionWriter(outer, p.base, p.n), dev: dev, base: p.base, n: p.n, limit: p.base + p.n, cursor: p.base,
			image: map[int64]byte{}, trans: map[uint64]struct{}{}, faultCls: c18Short}
	}
	if p.osfile {
		f, err := os.CreateTemp(w.Cfg.WorkDir, "c18-section-*.bin")
		if err != nil {
			w.Harness("c18/tempfile", mon.D{"err": err.Error()})
			return nil
		}
		return &c18Mon{w: w, sw: iohelper.NewSectionWriter(f, p.base, p.n), dev: &c18Dev{image: map[int64]byte{}}, file: f, base: p.base, n: p.n, limit: p.base + p.n, cursor: p.base,
			image: map[int64]byte{}, trans: map[uint64]struct{}{}}
	}
	return &c18Mon{w: w, sw: iohelper.NewSectionWriter(dev, p.base, p.n), dev: dev, base: p.base, n: p.n, limit: p.base + p.n, cursor: p.base,
		image: map[int64]byte{}, trans: map[uint64]struct{}{}}
}

func (c *c18Mon) finish(w *mon.W, h uint64) {
	for t := range c.trans {
		w.Distinct(t)
	}
	if len(c.hist) >= 2 {
		w.Distinct(h)
	}
	w.Extra("histories", 1)
	w.Extra("ops", int64(len(c.hist)))
	w.Extra("underlying_calls_observed", int64(c.dev.calls))
}

func c18History(w *mon.W, p c18Plan, idx int) {
	r := w.Rng
	c := c18NewMon(w, p)
	if c == nil {
		return
	}
	defer c.cleanup()
	if p.osfile {
		w.Bucket("underlying/*os.File")
	}
	if p.nested {
		w.Bucket("underlying/*SectionWriter")
		if p.base+p.n > p.outerLen {
			w.Bucket("underlying/*SectionWriter/inner-reaches-beyond-outer")
		}
	}
	if p.n == 0 {
		w.Bucket("section/n=0")
	}
	nops := 1 + r.Intn(30)
	h := gen.Hash64(uint64(p.base), uint64(p.n), uint64(p.fault.kind), uint64(p.fault.at), uint64(b2i(p.fault.whole)), uint64(b2i(p.fault.late)), uint64(b2i(p.fault.silent)))
	if p.fault.late {
		w.Bucket("fault/late-error-style")
	}
	lastSeek, lastPartial := false, false
	for k := 0; k < nops; k++ {
		room := c.limit - c.cursor
		switch r.Intn(9) {
		case 0, 1, 2, 3:
			n := 0
			switch r.Intn(6) {
			case 0:
				n = 0
			case 1:
				n = 1
			case 2:
				if room > 0 {
					n = int(room)
				}
			case 3:
				if room >= 0 {
					n = int(room) + 1
				}
			default:
				n = r.Intn(int(p.n) + 4)
			}
			if lastSeek {
				w.Bucket("write-after-seek")
			}
			if lastPartial {
				w.Bucket("write-after-partial-write")
			}
			before := c.cursor
			h = gen.Hash64(h, 1, uint64(n))
			if !c.Write(n) {
				return
			}
			lastPartial = int(c.cursor-before) < n && c.cursor > before
			lastSeek = false
		case 4, 5:
			off := int64(r.Intn(int(p.n)+3)) - 1
			if r.Intn(4) == 0 {
				off = int64(r.Pick(0, int(p.n), int(p.n)-1, int(p.n)+1, -1))
			}
			n := r.Pick(0, 1, int(p.n-off), int(p.n-off)+1, r.Intn(int(p.n)+4))
			if n < 0 {
				n = 0
			}
			h = gen.Hash64(h, 2, uint64(n), uint64(off))
			if !c.WriteAt(n, off) {
				return
			}
			lastSeek, lastPartial = false, false
		default:
			whence := r.Pick(0, 0, 1, 1, 2, 2, -1, 3)
			var off int64
			rc := c.cursor - c.base
			switch whence {
			case 0:
				off = int64(r.Pick(0, int(p.n), int(p.n)-1, int(p.n)+1, -1, r.Intn(int(p.n)+6)-3))
			case 1:
				off = int64(r.Pick(0, -1, 1, int(-rc), int(-rc)-1, int(p.n-rc), r.Intn(9)-4))
			case 2:
				off = int64(r.Pick(0, -1, int(-p.n), int(-p.n)-1, 1, 5, -r.Intn(int(p.n)+3)))
			default:
				off = int64(r.Intn(5))
			}
			h = gen.Hash64(h, 3, uint64(off), uint64(whence+1))
			if !c.Seek(off, whence) {
				return
			}
			lastSeek, lastPartial = true, false
		}
	}
	if !c.final() {
		return
	}
	c.finish(w, h)
	w.Sample(func() interface{} {
		return mon.D{"section": []int64{p.base, p.n}, "fault": p.fault.String(), "history": c.hist, "bytes_in_device": len(c.dev.image)}
	})
}

func c18Large(w *mon.W, idx int) {
	r := w.Rng
	p := c18Plan{base: int64(r.Pick(0, 3, 4096, 1<<20)), n: int64(r.Pick(64, 100, 1000, 5000))}
	switch r.Intn(4) {
	case 0:
	case 1:
		p.fault = c18Fault{kind: 1, at: p.base + int64(r.Intn(int(p.n)+2)), whole: r.Bool()}
		if r.Intn(3) == 0 {
			p.fault.whole, p.fault.late = false, true
		}
	default:
		p.fault = c18Fault{kind: 2, at: int64(r.Intn(int(2*p.n) + 2)), whole: r.Bool()}
		if r.Intn(3) == 0 {
			p.fault.whole, p.fault.late = false, true
		}
	}
	c18History(w, p, idx)
}

func c18AtToWriter(w *mon.W, idx int) {
	r := w.Rng
	off := []int64{0, 5, 4096, 1 << 40}[r.Intn(4)]
	dev := &c18Dev{image: map[int64]byte{}}
	switch r.Intn(3) {
	case 1:
		dev.fault = c18Fault{kind: 1, at: off + int64(r.Intn(300)), whole: r.Bool()}
	case 2:
		dev.fault = c18Fault{kind: 2, at: int64(r.Intn(300)), late: r.Bool()}
	}
	w.Op, w.A = "AtToWriter", off
	var under io.WriterAt = dev
	cls := 0
	if idx%4 == 3 {
		// AtToWriter over a SectionWriter: the stream ends where that section ends
		ol := int64(r.Pick(0, 1, 17, 100, 300))
		off = int64(r.Intn(int(ol) + 3))
		ob := int64(r.Pick(0, 7, 4096))
		dev.fault = c18Fault{kind: 3, at: ol}
		dev.inert, dev.shift = true, ob
		under = iohelper.NewSectionWriter(dev, ob, ol)
		cls = c18Short
		w.Bucket("attowriter/over-a-SectionWriter")
	}
	wr := iohelper.AtToWriter(under, off)
	c := &c18Mon{w: w, wr: wr, atw: true, dev: dev, base: off, n: math.MaxInt64 - off, limit: math.MaxInt64, cursor: off,
		image: map[int64]byte{}, trans: map[uint64]struct{}{}, faultCls: cls}
	// The underlying writer belongs to someone else too: when it has a cursor of its own (a SectionWriter here, a
	// file in c18AtToWriterFile) its owner moves that cursor between our writes, and a second AtToWriter view of the
	// same underlying writer exists. A view addresses the underlying writer by absolute offsets only.
	var owner io.Seeker
	if sk, ok := under.(io.Seeker); ok {
		owner = sk
		_ = iohelper.AtToWriter(under, off+1) // a second view, created after ours
	}
	h := gen.Hash64(77, uint64(off), uint64(dev.fault.kind), uint64(dev.fault.at))
	for k := 1 + r.Intn(12); k > 0; k-- {
		n := r.Pick(0, 1, 2, 17, r.Intn(120))
		h = gen.Hash64(h, uint64(n))
		if owner != nil && r.Bool() {
			owner.Seek(int64(r.Intn(40)), io.SeekStart)
			w.Bucket("attowriter/owner-moves-its-cursor")
		}
		if !c.Write(n) {
			return
		}
	}
	// "behaves as a section from off": when the returned writer also offers Seek and Size (it is a *SectionWriter),
	// they answer in the section's own coordinates
	if sk, ok := wr.(io.Seeker); ok && dev.fault.kind != 2 {
		w.Op = "AtToWriter(...).(io.Seeker).Seek(0,SeekCurrent)"
		if pos, err := sk.Seek(0, io.SeekCurrent); err != nil || pos != c.cursor-off {
			w.Fail("AtToWriter/position-not-relative-to-offset", c.detail(mon.D{"AtToWriter_offset": off, "reported": pos, "err": fmt.Sprint(err), "expected": c.cursor - off}))
			return
		}
		w.Bucket("attowriter/asserted-to-Seeker")
	}
	if !c.final() {
		return
	}
	w.Bucket("attowriter")
	c.finish(w, h)
	w.Sample(func() interface{} {
		return mon.D{"AtToWriter_offset": off, "fault": dev.fault.String(), "history": c.hist, "bytes_in_device": len(dev.image)}
	})
}

// c18AtToWriterFile: two AtToWriter views of one real *os.File written alternately, while the file's owner moves
// the file cursor and appends through it; the file is read back after every op.
func c18AtToWriterFile(w *mon.W, idx int) {
	r := w.Rng
	f, err := os.CreateTemp(w.Cfg.WorkDir, "c18-atw-*.bin")
	if err != nil {
		w.Harness("c18/tempfile", mon.D{"err": err.Error()})
		return
	}
	defer func() {
		f.Close()
		os.Remove(f.Name())
	}()
	offs := [2]int64{int64(r.Pick(0, 5, 100)), int64(r.Pick(300, 1000, 4096))}
	w.Op = "AtToWriter(*os.File)"
	views := [2]io.Writer{iohelper.AtToWriter(f, offs[0]), iohelper.AtToWriter(f, offs[1])}
	cur := offs
	image := map[int64]byte{}
	var hist []string
	seq := byte(0)
	for k := 2 + r.Intn(10); k > 0; k-- {
		v := r.Intn(2)
		n := r.Pick(0, 1, 3, 17, r.Intn(60))
		buf := make([]byte, n)
		for i := range buf {
			seq++
			if seq == 0 {
				seq = 1
			}
			buf[i] = seq
		}
		if r.Intn(3) == 0 {
			f.Seek(int64(r.Intn(200)), io.SeekStart) // the owner's cursor; views must not depend on it
			hist = append(hist, "owner.Seek")
		}
		hist = append(hist, fmt.Sprintf("view%d.Write(len=%d)", v, n))
		w.Op, w.A, w.B = "AtToWriter(*os.File).Write", int64(v), int64(n)
		gn, gerr := views[v].Write(buf)
		w.Eval(1)
		if gn != n || gerr != nil {
			w.Fail("AtToWriter/file/count-or-error", mon.D{"history": hist, "view_offsets": offs, "got_n": gn, "err": fmt.Sprint(gerr), "expected_n": n})
			return
		}
		for i, b := range buf {
			image[cur[v]+int64(i)] = b
		}
		cur[v] += int64(n)
		got, rerr := os.ReadFile(f.Name())
		if rerr != nil {
			w.Harness("c18/readback", mon.D{"err": rerr.Error()})
			return
		}
		for p, b := range got {
			if image[int64(p)] != b {
				w.Fail("AtToWriter/file/content-differs", mon.D{"history": hist, "view_offsets": offs, "pos": p, "got": b, "expected": image[int64(p)], "what": "two AtToWriter views of one *os.File written alternately while the owner moves the file cursor"})
				return
			}
		}
		for p, b := range image {
			if b != 0 && p >= int64(len(got)) {
				w.Fail("AtToWriter/file/content-differs", mon.D{"history": hist, "view_offsets": offs, "pos": p, "expected": b, "file_len": len(got), "what": "byte missing from the file"})
				return
			}
		}
	}
	w.Bucket("attowriter/two-views-of-one-file")
	w.Extra("histories", 1)
	w.Extra("ops", int64(len(hist)))
	w.Distinct(gen.Hash64(0xf11e, uint64(offs[0]), uint64(offs[1]), gen.HashStr(fmt.Sprint(hist))))
}

// yieldDev is a recording device whose WriteAt hands the processor to another goroutine before it stores the bytes
// (a file on a slow disk): calls that overlap in time really interleave.
type yieldDev struct {
	mu    sync.Mutex
	image map[int64]byte
}

func (d *yieldDev) WriteAt(p []byte, off int64) (int, error) {
	runtime.Gosched()
	d.mu.Lock()
	for i, b := range p {
		d.image[off+int64(i)] = b
	}
	d.mu.Unlock()
	runtime.Gosched()
	return len(p), nil
}

// c18ParallelWriteAt: io.WriterAt allows parallel WriteAt calls on non-overlapping ranges, and a SectionWriter is
// an io.WriterAt. Several goroutines write disjoint ranges of one section at once; afterwards every byte is where
// it belongs, the Write cursor is where it was, and a Write continues from there.
func c18ParallelWriteAt(w *mon.W, idx int) {
	r := w.Rng
	base := int64(r.Pick(0, 7, 1000))
	const G, L = 4, 16
	n := int64(G*L + r.Intn(20))
	dev := &yieldDev{image: map[int64]byte{}}
	sw := iohelper.NewSectionWriter(dev, base, n)
	model := map[int64]byte{}
	pre := r.Intn(5)
	w.Op = "SectionWriter.Write(before parallel WriteAt)"
	if k, err := sw.Write(bytes.Repeat([]byte{0xee}, pre)); k != pre || err != nil {
		w.Fail("parallel-WriteAt/setup", mon.D{"n": k, "err": fmt.Sprint(err)})
		return
	}
	for i := 0; i < pre; i++ {
		model[base+int64(i)] = 0xee
	}
	for round := 0; round < 12; round++ {
		var wg sync.WaitGroup
		errs := make([]string, G)
		for g := 0; g < G; g++ {
			wg.Add(1)
			go func(g int) {
				defer wg.Done()
				defer func() {
					if p := recover(); p != nil {
						errs[g] = fmt.Sprint("panic: ", p)
					}
				}()
				buf := bytes.Repeat([]byte{byte(16*round + g + 1)}, L)
				if k, err := sw.WriteAt(buf, int64(g*L)); k != L || err != nil {
					errs[g] = fmt.Sprintf("WriteAt(len=%d, off=%d) = (%d, %v)", L, g*L, k, err)
				}
			}(g)
		}
		wg.Wait()
		w.Eval(G)
		for g := 0; g < G; g++ {
			if errs[g] != "" {
				w.Fail("parallel-WriteAt/count-or-error", mon.D{"round": round, "goroutine": g, "what": errs[g]})
				return
			}
			for i := 0; i < L; i++ {
				model[base+int64(g*L+i)] = byte(16*round + g + 1)
			}
		}
		w.Op = "SectionWriter.Seek(0,SeekCurrent) after parallel WriteAt"
		if pos, err := sw.Seek(0, io.SeekCurrent); err != nil || pos != int64(pre) {
			w.Fail("parallel-WriteAt/cursor-moved", mon.D{"round": round, "cursor_reported": pos, "err": fmt.Sprint(err), "expected": pre,
				"what": "4 goroutines called WriteAt on disjoint ranges of one SectionWriter at the same time; WriteAt must not touch the Write cursor"})
			return
		}
	}
	w.Op = "SectionWriter.Write(after parallel WriteAt)"
	if k, err := sw.Write([]byte{0xdd}); k != 1 || err != nil {
		w.Fail("parallel-WriteAt/write-after", mon.D{"n": k, "err": fmt.Sprint(err)})
		return
	}
	model[base+int64(pre)] = 0xdd
	dev.mu.Lock()
	defer dev.mu.Unlock()
	if len(dev.image) != len(model) {
		w.Fail("parallel-WriteAt/image-differs", mon.D{"device_bytes": len(dev.image), "model_bytes": len(model)})
		return
	}
	for p, b := range model {
		if dev.image[p] != b {
			w.Fail("parallel-WriteAt/image-differs", mon.D{"pos": p, "got": dev.image[p], "expected": b})
			return
		}
	}
	w.Bucket("writeat/parallel-on-disjoint-ranges")
	w.Distinct(gen.Hash64(0x9a7a, uint64(base), uint64(n), uint64(pre)))
}

// c18NearMax: sections that end at or just below MaxInt64 (AtToWriter's own limit) - Write requests
// crossing that end, WriteAt at relative offsets up to MaxInt64. Seeks stay inside [0, n] so that no
// position beyond the end (which would not fit an int64) is ever asked for.
func c18NearMax(w *mon.W, idx int) {
	r := w.Rng
	n := []int64{0, 1, 8, 29}[idx%4]
	d := []int64{0, 0, 1, 5}[(idx/4)%4]
	base := math.MaxInt64 - n - d
	c := c18NewMon(w, c18Plan{base: base, n: n})
	if d == 0 {
		w.Bucket("section/ends-at-MaxInt64")
	}
	h := gen.Hash64(0x7fff, uint64(n), uint64(d))
	// A Seek whose absolute target does not fit an int64 (relative position > MaxInt64 - base): whether it is rejected
	// or accepted as "somewhere beyond the end", the calls after it must behave: no panic, nothing reaches the device
	// from a Write at a cursor beyond the end, and a rejected Seek leaves the cursor where it was.
	if idx%3 == 0 && base > 0 {
		w.Op = "SectionWriter.Seek(target not representable)"
		before, _ := c.sw.Seek(0, io.SeekCurrent)
		_, serr := c.sw.Seek(math.MaxInt64-int64(r.Intn(int(base%1000)+1)), io.SeekStart)
		c.begin()
		w.Op = "SectionWriter.Write(after Seek to a non-representable target)"
		k, werr := c.sw.Write([]byte{1})
		w.Eval(2)
		if serr == nil {
			if k != 0 || c18Class(werr) != c18Short || len(c.dev.op) != 0 {
				w.Fail("Seek/accepted-non-representable-target-then-Write-misbehaves", c.detail(mon.D{"write_n": k, "write_err": fmt.Sprint(werr), "device_assignments": len(c.dev.op)}))
				return
			}
			// back to a known cursor for the modelled history
			if _, err := c.sw.Seek(before, io.SeekStart); err != nil {
				w.Fail("Seek/cannot-return-after-far-seek", c.detail(mon.D{"err": fmt.Sprint(err)}))
				return
			}
		} else {
			// rejected: the Write above went through the unchanged cursor; undo it in the model's terms by replaying it
			c.sw.Seek(before, io.SeekStart)
			exp := 0
			if before < n {
				exp = 1
			}
			if k != exp {
				w.Fail("Seek/rejected-but-cursor-moved", c.detail(mon.D{"write_n": k, "expected_n": exp, "cursor_before": before}))
				return
			}
			if exp == 1 {
				c.image[base+before] = 1
			}
		}
		w.Bucket("seek/target-not-representable")
	}
	for k := 1 + r.Intn(14); k > 0; k-- {
		switch r.Intn(4) {
		case 0, 1:
			room := c.limit - c.cursor
			ln := r.Pick(0, 1, int(room), int(room)+1, int(room)+9, r.Intn(int(n)+12))
			if ln < 0 {
				ln = 0
			}
			h = gen.Hash64(h, 1, uint64(ln))
			if !c.Write(ln) {
				return
			}
		case 2:
			off := []int64{0, n - 1, n, n + 1, math.MaxInt64, math.MaxInt64 - base, math.MaxInt64 - base + 1, math.MaxInt64 - 1, int64(r.Intn(int(n) + 2))}[r.Intn(9)]
			if off < 0 {
				off = 0
			}
			if off == math.MaxInt64 {
				w.Bucket("writeat/offset=MaxInt64")
			}
			ln := r.Pick(0, 1, 9, 40)
			h = gen.Hash64(h, 2, uint64(off), uint64(ln))
			if !c.WriteAt(ln, off) {
				return
			}
		default:
			pos := int64(r.Intn(int(n) + 1))
			h = gen.Hash64(h, 3, uint64(pos))
			switch r.Intn(3) {
			case 0:
				if !c.Seek(pos, io.SeekStart) {
					return
				}
			case 1:
				if !c.Seek(pos-n, io.SeekEnd) {
					return
				}
			default:
				if !c.Seek(pos-(c.cursor-c.base), io.SeekCurrent) {
					return
				}
			}
		}
	}
	if !c.final() {
		return
	}
	c.finish(w, h)
	w.Sample(func() interface{} {
		return mon.D{"section_base": "MaxInt64 - " + fmt.Sprint(n+d), "section_len": n, "history": c.hist}
	})
}
