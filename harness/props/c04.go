package props

import (
	"fmt"

	"github.com/openacid/low/bmtree"

	"verif/internal/gen"
	"verif/internal/mon"
)

// C04 — AllPaths and Decode enumerate exactly the stored nodes, in order.
// Oracle: the literal pre-order list (small heights) or a recursive pre-order DFS pruned by
// interval (large heights); Decode = the literal list filtered by bit k of bm, k = list position.

func init() {
	register(&mon.Prop{
		ID:    "C04",
		Level: "exploration",
		Rule: "AllPaths: all masks of height <= 6 (quick) / <= 9 (thorough) x (from,to) drawn from {every path, path+-1, 0, 1<<63, 2^64-1, values whose high half >= 2^h, random} - ALL pairs for h <= 4 (h <= 3 for the densest), sampled above, from > to included; " +
			"heights up to 30 with windows of <= 200 nodes around random and extreme paths (pruned DFS oracle). Decode: masks of height <= 11 (thorough <= 14) x bitmaps shorter, equal and longer than ceil(size/64) words, empty, all-ones (bits >= bitmapSize set), random subsets; " +
			"round trip: random subsets of stored nodes -> bits set by the harness at the node's list position -> Decode returns the subset. Non-trivial+distinct = hash of (mask, from, to) with a non-empty expected output, hash of (mask, bm) with a non-empty subset.",
		Assumptions: []string{"mask >= 1; output kept small for big heights (the property's own restriction)", "bit k of bm for the k-th stored node in pre-order: the list position, not the library's PathToIndex (C03 ties the two together)"},
		Flavours:    releaseAnd386Debug,
		Required: []string{"long-run/calls>=100000-per-function", "arguments-in-read-only-memory", "range/from-on-path", "range/from-between-paths", "range/to-on-path", "range/to-beyond-last", "range/from>to", "range/full", "range/empty-result", "range/high-half>=2^h",
			"level/absent", "h>=20", "decode/bm-shorter", "decode/bm-longer", "decode/bm-empty", "decode/bits>=bitmapSize", "decode/roundtrip", "decode/all-ones", "decode/bm>=2^31-bits", "decode/height>=16"},
		Families: func(c *mon.Config) []mon.Family {
			hs := c.Pick(6, 9)
			return []mon.Family{
				{Name: "cold-start", N: 1, Serial: true, Run: func(w *mon.W, _ int) {
					l := coldPick(coldPathCalls(), "AllPaths", "Decode")
					if coldFirst(w, l) && coldLast(w, l) {
						w.Bucket("cold-start")
					}
				}},
				{Name: "allpaths-small", N: (1 << uint(hs+1)) - 1, Run: c04Small},
				{Name: "allpaths-windows", Env: 10, N: c.Pick(20000, 1500000), Run: c04Windows},
				{Name: "decode", Env: 10, N: c.Pick(12000, 1000000), Run: c04Decode},
				{Name: "decode-huge-bitmap", N: 1, Run: c04DecodeHuge},
				{Name: "decode-tall", Env: 2, N: c.Pick(6, 60), Run: c04DecodeTall},
				lrFamily(c04LongRun),
			}
		},
	})
}

func c04List(mask uint32, h int) []uint64 {
	var out []uint64
	bmPreorder(h, func(l int, prefix uint64) {
		if bmStored(mask, l) {
			out = append(out, bmPathWord(prefix, l, h))
		}
	})
	return out
}

func c04CheckRange(w *mon.W, mask uint32, h int, from, to uint64, exp []uint64) bool {
	w.Op, w.A, w.B, w.C = "AllPaths", int64(mask), int64(from), int64(to)
	got := bmtree.AllPaths(int32(mask), from, to)
	w.Eval(1)
	if !eqWords(got, exp) {
		cls := "missing-or-extra"
		if len(got) == len(exp) {
			cls = "wrong-path"
		}
		w.Fail("AllPaths/"+cls, mon.D{"bitmapSize": fmt.Sprintf("%#b", mask), "height": h, "from": fmt.Sprintf("%#016x", from), "to": fmt.Sprintf("%#016x", to),
			"got_n": len(got), "expected_n": len(exp), "got": truncW(got, 6), "expected": truncW(exp, 6)})
		return false
	}
	if len(exp) == 0 {
		w.Bucket("range/empty-result")
	} else {
		w.Distinct(gen.Hash64(uint64(mask), from, to))
		if len(exp)&3 == 0 {
			scribbleW(got) // ours now
			if !retainCheck(w, "AllPaths", "bmtree.AllPaths", func() uint64 { return gen.HashWords(got) }) {
				return false
			}
		}
	}
	if from > to {
		w.Bucket("range/from>to")
	}
	if from>>32 >= 1<<uint(h) || to>>32 >= 1<<uint(h) {
		w.Bucket("range/high-half>=2^h")
	}
	return true
}

func c04Filter(list []uint64, from, to uint64) []uint64 {
	out := []uint64{}
	for _, p := range list {
		if from <= p && p < to {
			out = append(out, p)
		}
	}
	return out
}

func c04Small(w *mon.W, idx int) {
	mask := uint32(idx + 1)
	h := bmHeight(mask)
	r := w.Rng
	list := c04List(mask, h)
	if mask != (uint32(1)<<uint(h+1))-1 {
		w.Bucket("level/absent")
	}
	// candidate end points
	var cand []uint64
	all := c04List((uint32(1)<<uint(h+1))-1, h) // every node of the complete tree, stored or not
	for _, p := range all {
		cand = append(cand, p, p+1, p-1)
	}
	cand = append(cand, 0, 1, 1<<63, ^uint64(0), uint64(1)<<uint(32+h), uint64(1)<<uint(32+h)|0xffffffff, (uint64(1)<<uint(32+h))-1)
	for k := 0; k < 6; k++ {
		cand = append(cand, r.Uint64()>>uint(r.Intn(34)))
	}
	onPath := map[uint64]bool{}
	for _, p := range list {
		onPath[p] = true
	}
	pair := func(from, to uint64) bool {
		if onPath[from] {
			w.Bucket("range/from-on-path")
		} else {
			w.Bucket("range/from-between-paths")
		}
		if onPath[to] {
			w.Bucket("range/to-on-path")
		}
		if len(list) > 0 && to > list[len(list)-1] {
			w.Bucket("range/to-beyond-last")
		}
		return c04CheckRange(w, mask, h, from, to, c04Filter(list, from, to))
	}
	if !pair(0, 1<<63) {
		return
	}
	w.Bucket("range/full")
	if len(cand) <= 60 || (h <= 4 && len(cand) <= 110) {
		for _, f := range cand {
			for _, t := range cand {
				if !pair(f, t) {
					return
				}
			}
		}
		w.Extra("masks_with_all_endpoint_pairs", 1)
	} else {
		for k := 0; k < 600; k++ {
			if !pair(cand[r.Intn(len(cand))], cand[r.Intn(len(cand))]) {
				return
			}
		}
	}
	w.Sample(func() interface{} {
		return mon.D{"bitmapSize": fmt.Sprintf("%#b", mask), "height": h, "stored_nodes": len(list), "endpoint_candidates": len(cand)}
	})
}

// c04Pruned is the interval-pruned pre-order DFS oracle for big heights.
func c04Pruned(mask uint32, h int, from, to uint64) []uint64 {
	out := []uint64{}
	full := (uint64(1) << uint(h)) - 1
	var rec func(l int, prefix uint64)
	rec = func(l int, prefix uint64) {
		word := bmPathWord(prefix, l, h)
		// the subtree below (l, prefix) spans [word, word of its rightmost leaf]
		rm := (((prefix+1)<<uint(h-l))-1)<<32 | full
		if rm < from || word >= to {
			return
		}
		if bmStored(mask, l) && from <= word && word < to {
			out = append(out, word)
		}
		if l < h {
			rec(l+1, prefix<<1)
			rec(l+1, prefix<<1|1)
		}
	}
	rec(0, 0)
	return out
}

func c04Windows(w *mon.W, idx int) {
	r := w.Rng
	h := 7 + idx%24
	full := (uint32(1) << uint(h+1)) - 1
	top := uint32(1) << uint(h)
	var mask uint32
	switch r.Intn(5) {
	case 0:
		mask = full
	case 1:
		mask = top
	case 2:
		mask = top | uint32(r.Uint64())&full&0x11111111
	default:
		mask = top | uint32(r.Uint64())&full
	}
	if mask != full {
		w.Bucket("level/absent")
	}
	if h >= 20 {
		w.Bucket("h>=20")
	}
	// a start node (l, prefix): extreme or random
	l := r.Intn(h + 1)
	m := (uint64(1) << uint(l)) - 1
	prefix := []uint64{0, m, r.Uint64() & m, r.Uint64() & m}[r.Intn(4)]
	start := bmPathWord(prefix, l, h)
	// window of a few leaves' worth of nodes
	span := uint64(r.Intn(24)) << 32
	from := start
	switch r.Intn(4) {
	case 0:
		from = start + 1
	case 1:
		from = start - 1
	}
	to := start + span + uint64(r.Uint64()&0xffffffff)
	if r.Intn(6) == 0 {
		to = from + uint64(r.Intn(3))
	}
	if r.Intn(10) == 0 {
		from, to = to, from
	}
	if from <= to && (to>>32)-(from>>32) > 64 {
		to = from + 64<<32
	}
	exp := c04Pruned(mask, h, from, to)
	if len(exp) > 5000 {
		w.Harness("c04/window-too-large", mon.D{"n": len(exp)})
		return
	}
	onFrom, onTo := false, false
	for _, p := range exp {
		if p == from {
			onFrom = true
		}
	}
	if len(c04Pruned(mask, h, to, to+1)) == 1 {
		onTo = true
	}
	if onFrom {
		w.Bucket("range/from-on-path")
	} else {
		w.Bucket("range/from-between-paths")
	}
	if onTo {
		w.Bucket("range/to-on-path")
	}
	if c04CheckRange(w, mask, h, from, to, exp) {
		w.Sample(func() interface{} {
			return mon.D{"bitmapSize": fmt.Sprintf("%#b", mask), "height": h, "from": fmt.Sprintf("%#016x", from), "to": fmt.Sprintf("%#016x", to), "expected_paths": len(exp)}
		})
	}
}

func c04Decode(w *mon.W, idx int) {
	r := w.Rng
	hmax := w.Cfg.Pick(11, 14)
	h := idx % (hmax + 1)
	full := (uint32(1) << uint(h+1)) - 1
	top := uint32(1) << uint(h)
	mask := top | uint32(r.Uint64())&full
	switch r.Intn(5) {
	case 0:
		mask = full
	case 1:
		mask = top
	}
	list := c04List(mask, h)
	size := len(list) // == mask
	need := (size + 63) / 64
	var bm []uint64
	kind := idx / (hmax + 1) % 7
	switch kind {
	case 0: // random subset, exact length
		bm = make([]uint64, need)
		for i := range bm {
			bm[i] = gen.ZooWord(r, r.Intn(gen.NWordClasses))
		}
	case 1: // shorter
		n := 0
		if need > 0 {
			n = r.Intn(need)
		}
		bm = make([]uint64, n)
		for i := range bm {
			bm[i] = r.Uint64()
		}
		if n < need {
			w.Bucket("decode/bm-shorter")
		}
	case 2: // longer, with bits beyond bitmapSize set
		bm = make([]uint64, need+1+r.Intn(2))
		for i := range bm {
			bm[i] = r.Uint64() | r.Uint64()
		}
		w.Bucket("decode/bm-longer")
		w.Bucket("decode/bits>=bitmapSize")
	case 3:
		bm = []uint64{}
		w.Bucket("decode/bm-empty")
	case 4: // all ones, including bits >= bitmapSize in the last word
		bm = make([]uint64, need)
		for i := range bm {
			bm[i] = ^uint64(0)
		}
		w.Bucket("decode/all-ones")
		if size%64 != 0 {
			w.Bucket("decode/bits>=bitmapSize")
		}
	default: // round trip: a random subset of stored nodes, bits set by the harness
		bm = make([]uint64, need)
		dens := r.Pick(2, 5, 50)
		for k := 0; k < size; k++ {
			if r.Intn(dens) == 0 {
				setBit(bm, k)
			}
		}
		w.Bucket("decode/roundtrip")
		if idx%3 == 2 && h >= 5 {
			// the structure a trie bitmap really has: whole SUBTREES present next to whole subtrees absent (the stored nodes
			// of a subtree are one contiguous run of bits whose ends are not 64-bit aligned). Round 14 seeded a run of full
			// groups that was not closed when an empty aligned subtree was skipped.
			for k := 0; k < 8; k++ {
				l := 1 + r.Intn(h)
				if h > 8 && r.Intn(2) == 0 {
					l = h - 8 + r.Intn(6) // subtrees of 8 .. 512 leaves
				}
				prefix := r.Uint64() & (uint64(1)<<uint(l) - 1)
				lo := bmPathWord(prefix, l, h)
				hi := lo | (uint64(1)<<uint(h-l)-1)<<32 | 0xffffffff // the largest path word below this node
				v := k%2 == 0
				for i, p := range list {
					if p >= lo && p <= hi {
						if v {
							setBit(bm, i)
						} else {
							bm[i>>6] &^= 1 << uint(i&63)
						}
					}
				}
			}
			w.Bucket("decode/whole-subtrees-present-and-absent")
		}
	}
	orig := cloneWords(bm)
	// the bitmap is a view of a larger array whose cells beyond len hold poison (a prefix of a bigger
	// buffer, a pooled buffer cut back): words beyond len(bm) read as 0 whatever the memory holds
	bm, guard := dirtyW(bm)
	if idx%4 == 1 { // or lives in memory that cannot be written (ro.go)
		if v, rel, ok := roOneW(w, orig); ok {
			bm = v
			defer rel()
		}
	}
	if kind == 3 && idx&1 == 0 {
		bm = nil
	}
	if len(orig) >= 2 && idx%3 == 0 {
		// a shorter bitmap of the same tree first (its trailing words omitted), the complete one right after: what the
		// first call learned about the layout must not limit the second (round 12: a per-layout table grown on demand)
		cut := 1 + idx%(len(orig)-1)
		w.Op, w.A, w.B = "Decode(shorter bitmap of the same tree first)", int64(mask), int64(cut)
		bmtree.Decode(int32(mask), orig[:cut:cut])
		w.Bucket("decode/short-then-long-same-tree")
	}
	w.Op, w.A, w.B = "Decode", int64(mask), int64(len(bm))
	got := bmtree.Decode(int32(mask), bm)
	if !guard() {
		w.Fail("Decode/wrote-outside-len-of-argument", mon.D{"bitmapSize": mask})
		return
	}
	if overlapW(got, bm) {
		w.Fail("Decode/result-is-a-view-of-the-argument", mon.D{"bitmapSize": mask, "len_bm": len(bm), "cap_bm": cap(bm), "len_result": len(got), "cap_result": cap(got),
			"what": "the returned path list shares memory with the bitmap passed in (within their capacities): appending to the result writes into the bitmap"})
		return
	}
	w.Eval(1)
	exp := []uint64{}
	for k, p := range list {
		if k>>6 < len(orig) && bitAt(orig, k) == 1 {
			exp = append(exp, p)
		}
	}
	if !eqWords(got, exp) {
		w.Fail("Decode", mon.D{"bitmapSize": fmt.Sprintf("%#b", mask), "height": h, "bm_words": len(orig), "needed_words": need, "kind": kind, "bm": truncW(orig, 4),
			"got_n": len(got), "expected_n": len(exp), "got": truncW(got, 6), "expected": truncW(exp, 6)})
		return
	}
	if !eqWords(bm, orig) && !(bm == nil && len(orig) == 0) {
		w.Fail("Decode/input-modified", mon.D{"bitmapSize": mask})
		return
	}
	if len(exp) > 0 {
		w.Distinct(gen.Hash64(uint64(mask), gen.HashWords(orig)))
		scribbleW(got) // ours now
		if !retainCheck(w, "Decode", "bmtree.Decode", func() uint64 { return gen.HashWords(got) }) {
			return
		}
	}
	w.Sample(func() interface{} {
		return mon.D{"bitmapSize": fmt.Sprintf("%#b", mask), "height": h, "bm_words": len(orig), "kind": kind, "decoded_paths": len(exp)}
	})
}

// c04DecodeHuge: a small tree at the head of bitmaps of 2^25-1, 2^25 and 2^25+3 words (2^31 bits and
// beyond): the bitmap's own bit count no longer fits an int32. The pages are never touched except
// for the head, so this costs address space, not memory.
func c04DecodeHuge(w *mon.W, _ int) {
	r := w.Rng
	mask := uint32(0xd5) // height 7, partial
	h := bmHeight(mask)
	list := c04List(mask, h)
	big := make([]uint64, 1<<25+3)
	var exp []uint64
	for k, p := range list {
		if r.Intn(3) == 0 {
			setBit(big, k)
			exp = append(exp, p)
		}
	}
	big[len(big)-1] = ^uint64(0)
	for _, n := range []int{4, 1 << 16, 1<<25 - 1, 1 << 25, 1<<25 + 3} {
		w.Op, w.A, w.B = "Decode(huge bm)", int64(mask), int64(n)
		got := bmtree.Decode(int32(mask), big[:n])
		w.Eval(1)
		w.Tick()
		if !eqWords(got, exp) {
			w.Fail("Decode/huge-bitmap", mon.D{"bitmapSize": fmt.Sprintf("%#b", mask), "bm_words": n, "got_n": len(got), "expected_n": len(exp)})
			return
		}
	}
	w.Bucket("decode/bm>=2^31-bits")
	w.Distinct(gen.Hash64(0xb16, uint64(len(exp))))
	w.Sample(func() interface{} {
		return mon.D{"bitmapSize": fmt.Sprintf("%#b", mask), "bm_words": []int{4, 1 << 16, 1<<25 - 1, 1 << 25, 1<<25 + 3}, "decoded_paths": len(exp)}
	})
}

// c04DecodeTall: round trips on trees of height 15..18 (quick) / ..20 (thorough): leaves at the ends of
// every 2^8 / 2^12 / 2^16 block of the leaf level, inner nodes, and a random sprinkle.
func c04DecodeTall(w *mon.W, idx int) {
	r := w.Rng
	h := 15 + idx%w.Cfg.Pick(4, 6)
	full := (uint32(1) << uint(h+1)) - 1
	top := uint32(1) << uint(h)
	mask := []uint32{full, top, top | uint32(r.Uint64())&full}[idx%3]
	var list []uint64
	pos := map[uint64]int{}
	bmPreorder(h, func(l int, prefix uint64) {
		if bmStored(mask, l) {
			p := bmPathWord(prefix, l, h)
			pos[p] = len(list)
			list = append(list, p)
		}
	})
	w.Tick()
	bm := make([]uint64, (len(list)+63)/64)
	chosen := map[int]bool{}
	pick := func(l int, prefix uint64) {
		if k, ok := pos[bmPathWord(prefix, l, h)]; ok {
			chosen[k] = true
		}
	}
	nleaf := uint64(1) << uint(h)
	for _, blk := range []uint64{1 << 8, 1 << 12, 1 << 16} {
		for b := uint64(0); b < nleaf; b += blk {
			if r.Intn(3) == 0 {
				pick(h, b+blk-1) // last leaf of the block
			}
			if r.Intn(5) == 0 {
				pick(h, b) // first leaf of the block
			}
		}
	}
	pick(h, nleaf-1)
	pick(h, 0)
	pick(0, 0)
	for k := 0; k < 2000; k++ {
		l := r.Intn(h + 1)
		pick(l, r.Uint64()&((uint64(1)<<uint(l))-1))
	}
	var exp []uint64
	for k := range list {
		if chosen[k] {
			setBit(bm, k)
		}
	}
	for k, p := range list {
		if chosen[k] {
			exp = append(exp, p)
		}
	}
	w.Tick()
	w.Op, w.A, w.B = "Decode(tall)", int64(mask), int64(len(bm))
	got := bmtree.Decode(int32(mask), bm)
	w.Eval(1)
	w.Tick()
	if !eqWords(got, exp) {
		miss := ""
		gs := map[uint64]bool{}
		for _, p := range got {
			gs[p] = true
		}
		for _, p := range exp {
			if !gs[p] {
				miss = fmt.Sprintf("%#016x", p)
				break
			}
		}
		w.Fail("Decode/tall-tree", mon.D{"bitmapSize": fmt.Sprintf("%#b", mask), "height": h, "got_n": len(got), "expected_n": len(exp), "first_missing": miss})
		return
	}
	w.Bucket("decode/height>=16")
	// The same tree with bitmaps SHORTER than the tree (trailing empty words omitted; the statement reads missing words
	// as zero): cut after a few words, in the middle, one word before the end. Round 10 seeded a helper pool that lost
	// one slot per Decode of a short bitmap of a tall tree and blocked once the slots were used up, so each cut is
	// decoded several times.
	for _, cut := range []int{1, 1 + r.Intn(len(bm)), len(bm) / 2, len(bm) - 1} {
		if cut < 0 || cut > len(bm) {
			continue
		}
		var expS []uint64
		for k, p := range list {
			if chosen[k] && k < 64*cut {
				expS = append(expS, p)
			}
		}
		short, shortOK := dirtyW(bm[:cut])
		if cut == len(bm)/2 {
			if v, rel, ok := roOneW(w, bm[:cut]); ok {
				short = v
				defer rel()
			}
		}
		for rep := 0; rep < 3; rep++ {
			w.Op, w.A, w.B = "Decode(tall, short bitmap)", int64(mask), int64(cut)
			gotS := bmtree.Decode(int32(mask), short)
			w.Eval(1)
			w.Tick()
			if !eqWords(gotS, expS) {
				w.Fail("Decode/tall-tree/short-bitmap", mon.D{"bitmapSize": fmt.Sprintf("%#b", mask), "height": h, "bitmap_words": cut, "tree_words": len(bm), "repetition": rep + 1, "got_n": len(gotS), "expected_n": len(expS)})
				return
			}
		}
		if !shortOK() {
			w.Fail("Decode/wrote-outside-len-of-argument", mon.D{"bitmapSize": fmt.Sprintf("%#b", mask), "bitmap_words": cut})
			return
		}
		w.Bucket("decode/tall-tree/short-bitmap")
	}
	w.Distinct(gen.Hash64(0x7a11, uint64(mask), uint64(len(exp))))
	w.Sample(func() interface{} {
		return mon.D{"bitmapSize": fmt.Sprintf("%#b", mask), "height": h, "encoded_nodes": len(exp)}
	})
}
