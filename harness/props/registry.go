// Package props holds one driver + monitor per property.
package props

import "verif/internal/mon"

// All maps property ids to their checks.
var All = map[string]*mon.Prop{}

func register(p *mon.Prop) { All[p.ID] = p }

func releaseOnly(string) []string { return []string{"release"} }
