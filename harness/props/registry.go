// Package props holds one driver + monitor per property.
package props

import (
	"strconv"

	"verif/internal/mon"
)

// All maps property ids to their checks.
var All = map[string]*mon.Prop{}

func register(p *mon.Prop) {
	All[p.ID] = p
	if p.ID == "C19" {
		return // one Serial process that has its own cold concurrent phase
	}
	// every check also runs fresh processes ("release#coldconc[N]", see mon.RunChild) whose FIRST calls into the
	// library arrive from all workers at once: lazily built tables and first-use initialisation are only ever
	// exercised once per process, and the primary process exercises them serially (cold-start families).
	inner := p.Flavours
	p.Flavours = func(tier string) []string {
		fl := append([]string(nil), inner(tier)...)
		// every property also runs with the module's own build tag `debug` (what its Makefile tests with): the contract
		// checks of openacid/must then execute inside the library functions (round 13 seeded debug-only assertions that
		// reject valid inputs in bitmap, bmtree and TailBitmap)
		hasDebug := false
		for _, f := range fl {
			hasDebug = hasDebug || f == "debug"
		}
		if !hasDebug {
			fl = append(fl, "debug")
		}
		for i := 1; i <= mon.ColdVariants(tier); i++ {
			fl = append(fl, "release#coldconc"+strconv.Itoa(i))
		}
		return fl
	}
}

func releaseOnly(string) []string { return []string{"release"} }

// releaseThenGo126 runs the release flavour and, in the thorough tier, repeats the identical case
// list in a binary built with the second toolchain (go1.26.8) and in a GOARCH=386 binary (32-bit int
// and pointers; runs directly on the amd64 kernel): results must not depend on the compiler or on the
// width of int.
func releaseThenGo126(tier string) []string {
	if tier == "thorough" {
		return []string{"release", "go126", "386"}
	}
	return []string{"release"}
}

// releaseAnd386 additionally runs the GOARCH=386 binary already in the quick tier (cheap
// pure-function properties).
func releaseAnd386(tier string) []string {
	if tier == "thorough" {
		return []string{"release", "go126", "386"}
	}
	return []string{"release", "386"}
}

// releaseAnd386Debug: the bmtree properties additionally run with the module's own build tag `debug`, under which the
// contract checks of openacid/must execute inside the functions (a message argument of an assertion that is evaluated
// on every call and overruns a fixed array at height 30 was seeded in round 13).
func releaseAnd386Debug(tier string) []string {
	return append(releaseAnd386(tier), "debug")
}
