// Package props holds one driver + monitor per property.
package props

import "verif/internal/mon"

// All maps property ids to their checks.
var All = map[string]*mon.Prop{}

func register(p *mon.Prop) { All[p.ID] = p }

func releaseOnly(string) []string { return []string{"release"} }

// releaseThenGo126 runs the release flavour and, in the thorough tier, repeats the identical case
// list in a binary built with the second toolchain (go1.26.8) and in a GOARCH=386 binary (32-bit int
// and pointers; runs directly on the amd64 kernel): results must not depend on the compiler or on the
// width of int.
func releaseThenGo126(tier string) []string {
	if tier == "thorough" {
		return []string{"release", "go126", "386"}
	}
	return []string{"release"}
}

// releaseAnd386 additionally runs the GOARCH=386 binary already in the quick tier (cheap
// pure-function properties).
func releaseAnd386(tier string) []string {
	if tier == "thorough" {
		return []string{"release", "go126", "386"}
	}
	return []string{"release", "386"}
}
