package props

import (
	"bytes"
	"encoding/binary"
	"errors"
	"fmt"
	"io"

	proto "github.com/golang/protobuf/proto"
	"github.com/openacid/low/pbcmpl"

	"verif/internal/gen"
	"verif/internal/mon"
)

// C07 — pbcmpl reports truncation, write failure and corrupt headers as errors.
// Fault enumeration: every cut point, every read-error point and every writer quota of every
// corpus frame; structured + seeded corrupt headers.

var errInjectedRead = errors.New("verif: injected read error")
var errInjectedWrite = errors.New("verif: injected write error")

func c07Bodies(c *mon.Config) []int {
	if c.Thorough() {
		return []int{0, 1, 2, 31, 32, 33, 100, 600, 5000}
	}
	return []int{0, 1, 2, 31, 32, 33, 100, 600}
}

var c07Kinds = []int{pbKLegacy, pbKBytes, pbKBytesVer}

func c07Corpus(c *mon.Config) int { return len(c07Bodies(c)) * len(c07Kinds) * 3 }

func c07Frame(c *mon.Config, r *gen.Rand, idx int) pbCase {
	bodies := c07Bodies(c)
	b := bodies[idx%len(bodies)]
	k := c07Kinds[(idx/len(bodies))%len(c07Kinds)]
	v := (idx / len(bodies) / len(c07Kinds)) % 3
	ver := []string{"1.0.0", "", "9.99.999\x00\xff.12345"}[v]
	return pbCase{Kind: k, Payload: pbPayload(r, b), Ver: ver}
}

var c07HSizes = []uint64{0, 1, 31, 33, 1 << 31, 1 << 32, 1 << 63, ^uint64(0)}
var c07BSizes = []uint64{0, 1, 5, 1 << 20, 1<<20 + 1, 1 << 21, 1<<24 + 1, 1 << 30, 1 << 31, 1 << 36, 1 << 40, 1 << 48, 1 << 62, 1<<63 - 1, 1 << 63, ^uint64(0)}

func init() {
	register(&mon.Prop{
		ID:    "C07",
		Level: "fault_enumeration",
		Rule: "for every frame of a corpus (bodies 0,1,2,31,32,33,100,600[,5000] x {legacy, BytesValue, versioned BytesValue} x 3 versions): EVERY cut point k in [0,len) through 3 chunkings, " +
			"EVERY read-error point k (error alone / with the last data), EVERY writer quota k (partial write / failure on the next call / failure reported on the write that reaches the quota / a transient failure after which the writer accepts again); frames with bodies around 1 MiB (2^20-1, 2^20, 2^20+1, 1.5e6) cut at boundary and sampled points; " +
			"corrupt headers: header-size in {0,1,31,33,2^31,2^32,2^63,2^64-1,random} x body-size in {0,1,5,rem+1,2^20,2^31,2^36,2^40,2^48,2^62,2^63-1,2^63,2^64-1,random} x trailing bytes, " +
			"bit-flipped valid frames, random byte strings of 0..100 bytes. Non-trivial+distinct = hash of (fault kind, frame, k) with 0<k<len strictly inside a frame, or hash of the corrupt input.",
		Assumptions: []string{"a reader/writer wrapper at the io boundary is the observation point; the count of bytes it delivered/accepted is ground truth",
			"for declared body sizes above 2^31 only 'no success, normal return, n = bytes consumed' is asserted, not which error",
			"cause = errors.Cause chain or errors.Is"},
		Flavours: releaseAnd386,
		Required: []string{"cut/k=0", "cut/in-header", "cut/k=32", "cut/in-body", "readerr/alone", "readerr/with-data", "writefault/in-header", "writefault/at-32", "writefault/in-body",
			"writefault/eager", "writefault/transient", "writefault/error-with-complete-count-then-accepting", "writefault/error-on-the-write-that-completes-the-frame", "writefault/body>32KiB", "cut/big-frame>1MiB", "cut/std-reader", "corrupt/hsize!=32", "corrupt/bsize>=2^63", "corrupt/bsize-huge", "corrupt/bsize-beyond-stream", "corrupt/complete-frame-ok", "random/short", "random/bitflip"},
		Families: func(c *mon.Config) []mon.Family {
			nc := c07Corpus(c)
			return []mon.Family{
				{Name: "cold-start", N: 1, Serial: true, Run: func(w *mon.W, _ int) {
					l := coldPbCalls()
					if coldFirst(w, l) && coldLast(w, l) {
						w.Bucket("cold-start")
					}
				}},
				{Name: "cuts", Env: 1, N: nc, Run: c07Cuts},
				{Name: "read-errors", N: nc, Run: c07ReadErrors},
				{Name: "write-faults", Env: 1, N: nc, Run: c07WriteFaults},
				{Name: "big-frames", Env: 1, N: 4 * len(c07Kinds), Run: c07BigFrames},
				{Name: "write-faults-big", N: 3 * len(c07Kinds), Run: c07WriteFaultsBig},
				{Name: "corrupt-headers", N: (len(c07HSizes) + 2) * (len(c07BSizes) + 3), Run: c07CorruptHeaders},
				{Name: "random-bytes", Env: 10, N: c.Pick(100000, 8000000), Run: c07RandomBytes},
			}
		},
	})
}

type c07Out struct {
	n    int64
	ver  string
	err  error
	pan  string
	cons int
}

func c07Unmarshal(cr *chunkReader, into proto.Message) (o c07Out) {
	defer func() {
		if r := recover(); r != nil {
			o.pan = fmt.Sprint(r)
		}
		o.cons = cr.delivered
	}()
	o.n, o.ver, o.err = pbcmpl.Unmarshal(cr, into)
	return
}

func c07UnmarshalStd(sr stdReader, into proto.Message) (o c07Out) {
	defer func() {
		if r := recover(); r != nil {
			o.pan = fmt.Sprint(r)
		}
		o.cons = sr.consumed()
	}()
	o.n, o.ver, o.err = pbcmpl.Unmarshal(sr.r, into)
	return
}

func c07ReadHeaderStd(sr stdReader) (n int64, h pbcmpl.Header, err error, pan string) {
	defer func() {
		if r := recover(); r != nil {
			pan = fmt.Sprint(r)
		}
	}()
	n, h, err = pbcmpl.ReadHeader(sr.r)
	return
}

func c07ReadHeader(cr *chunkReader) (n int64, h pbcmpl.Header, err error, pan string) {
	defer func() {
		if r := recover(); r != nil {
			pan = fmt.Sprint(r)
		}
	}()
	n, h, err = pbcmpl.ReadHeader(cr)
	return
}

func c07Cuts(w *mon.W, idx int) {
	c := c07Frame(w.Cfg, w.Rng, idx)
	frame := c.frame()
	bodyLen := len(frame) - 32
	var ev int64
	modes := []int{chWhole, chOne, chRandom}
	if len(frame) > 2000 {
		modes = []int{chWhole, chRandom}
	}
	for k := 0; k < len(frame); k++ {
		for _, mode := range modes {
			w.Op, w.A, w.B = "Unmarshal(cut)", int64(k), int64(mode)
			cr := newChunkReader(frame[:k], mode, w.Rng)
			o := c07Unmarshal(cr, c.empty())
			ev++
			d := func() mon.D {
				return mon.D{"kind": pbKindNames[c.Kind], "body_len": bodyLen, "cut_k": k, "chunking": chNames[mode], "returned_n": o.n, "err": errStr(o.err), "panic": o.pan, "reader_delivered": o.cons}
			}
			switch {
			case o.pan != "":
				w.Fail("cut/panic", d())
				return
			case o.err == nil:
				w.Fail("cut/success-on-strict-prefix", d())
				return
			case int(o.n) != k || o.cons != k:
				w.Fail("cut/count", d())
				return
			}
			eof, ueof := pbIs(o.err, io.EOF), pbIs(o.err, io.ErrUnexpectedEOF)
			switch {
			case k == 0:
				if !eof {
					w.Fail("cut/k=0-not-EOF", d())
					return
				}
			case k == 32 && bodyLen > 0:
				if !eof && !ueof {
					w.Fail("cut/k=32-cause", d())
					return
				}
			default:
				if !ueof {
					w.Fail("cut/cause-not-ErrUnexpectedEOF", d())
					return
				}
			}
			// the same cut through reader types of the standard library (two per cut point, rotating)
			if mode == modes[0] {
				stds := stdReaders(frame[:k])
				for j := 0; j < 2; j++ {
					sr := stds[(2*k+idx+j)%len(stds)]
					w.Op = "Unmarshal(cut," + sr.name + ")"
					so := c07UnmarshalStd(sr, c.empty())
					ev++
					bad := ""
					switch {
					case so.pan != "":
						bad = "panic"
					case so.err == nil:
						bad = "success-on-strict-prefix"
					case int(so.n) != k || (so.cons >= 0 && so.cons != k):
						bad = "count"
					case k == 0 && !pbIs(so.err, io.EOF):
						bad = "k=0-not-EOF"
					case k == 32 && bodyLen > 0 && !pbIs(so.err, io.EOF) && !pbIs(so.err, io.ErrUnexpectedEOF):
						bad = "k=32-cause"
					case k != 0 && !(k == 32 && bodyLen > 0) && !pbIs(so.err, io.ErrUnexpectedEOF):
						bad = "cause-not-ErrUnexpectedEOF"
					}
					if bad != "" {
						w.Fail("cut/std-reader/"+bad, mon.D{"reader_type": sr.name, "kind": pbKindNames[c.Kind], "body_len": bodyLen, "cut_k": k, "returned_n": so.n, "err": errStr(so.err), "panic": so.pan, "reader_consumed": so.cons})
						return
					}
					sr2 := stdReaders(frame[:k])[(2*k+idx+j)%len(stds)]
					w.Op = "ReadHeader(cut," + sr2.name + ")"
					hn, h, herr, hp := c07ReadHeaderStd(sr2)
					ev++
					okH := false
					cons := sr2.consumed()
					switch {
					case hp != "":
					case k == 0:
						okH = hn == 0 && pbIs(herr, io.EOF)
					case k < 32:
						okH = int(hn) == k && pbIs(herr, io.ErrUnexpectedEOF) && (cons < 0 || cons == k)
					default:
						okH = hn == 32 && herr == nil && h != nil && h.GetHeaderSize() == 32 && h.GetBodySize() == int64(bodyLen) && h.GetVersion() == c.expVer() && (cons < 0 || cons == 32)
					}
					if !okH {
						w.Fail("cut/std-reader/ReadHeader", mon.D{"reader_type": sr2.name, "cut_k": k, "n": hn, "err": errStr(herr), "panic": hp, "reader_consumed": cons})
						return
					}
					w.Bucket("cut/std-reader")
				}
			}
			// ReadHeader on the same prefix
			w.Op = "ReadHeader(cut)"
			cr2 := newChunkReader(frame[:k], mode, w.Rng)
			hn, h, herr, hp := c07ReadHeader(cr2)
			ev++
			okH := false
			switch {
			case hp != "":
			case k == 0:
				okH = hn == 0 && pbIs(herr, io.EOF)
			case k < 32:
				okH = int(hn) == k && pbIs(herr, io.ErrUnexpectedEOF) && cr2.delivered == k
			default:
				okH = hn == 32 && herr == nil && h != nil && h.GetHeaderSize() == 32 && h.GetBodySize() == int64(bodyLen) && h.GetVersion() == c.expVer() && cr2.delivered == 32
			}
			if !okH {
				w.Fail("cut/ReadHeader", mon.D{"cut_k": k, "n": hn, "err": errStr(herr), "panic": hp, "delivered": cr2.delivered})
				return
			}
		}
		switch {
		case k == 0:
			w.Bucket("cut/k=0")
		case k < 32:
			w.Bucket("cut/in-header")
		case k == 32:
			w.Bucket("cut/k=32")
		default:
			w.Bucket("cut/in-body")
		}
		if k > 0 {
			w.Distinct(gen.Hash64(1, uint64(idx), uint64(k)))
		}
	}
	w.Eval(ev)
	w.Extra("cut_points_enumerated", int64(len(frame)))
	w.Sample(func() interface{} {
		return mon.D{"fault": "truncation at every k", "kind": pbKindNames[c.Kind], "frame_len": len(frame), "cut_points": len(frame), "chunkings": len(modes)}
	})
}

func c07ReadErrors(w *mon.W, idx int) {
	c := c07Frame(w.Cfg, w.Rng, idx)
	frame := c.frame()
	var ev int64
	for k := 0; k < len(frame); k++ {
		for _, with := range []bool{false, true} {
			if with && k == 0 {
				continue
			}
			mode := chWhole
			if k&1 == 1 {
				mode = chRandom
			}
			cr := newChunkReader(frame, mode, w.Rng)
			cr.errAfter, cr.err, cr.errWith = k, errInjectedRead, with
			w.Op, w.A, w.B = "Unmarshal(read-error)", int64(k), int64(b2i(with))
			o := c07Unmarshal(cr, c.empty())
			ev++
			if o.pan != "" || o.err == nil || int(o.n) != k || o.cons != k {
				w.Fail("readerr/outcome", mon.D{"kind": pbKindNames[c.Kind], "frame_len": len(frame), "error_after_k": k, "error_with_last_data": with,
					"returned_n": o.n, "err": errStr(o.err), "panic": o.pan, "reader_delivered": o.cons})
				return
			}
			// the injected error must be what comes back, except where the data delivered with it completed
			// the header (io.ReadFull legitimately drops an error that arrives with the last wanted byte)
			if !pbIs(o.err, errInjectedRead) && !(with && k == 32) {
				w.Fail("readerr/error-not-propagated", mon.D{"error_after_k": k, "error_with_last_data": with, "err": errStr(o.err)})
				return
			}
			if with {
				w.Bucket("readerr/with-data")
			} else {
				w.Bucket("readerr/alone")
			}
		}
		if k > 0 {
			w.Distinct(gen.Hash64(2, uint64(idx), uint64(k)))
		}
	}
	// k = len(frame): the reader hands over the LAST bytes of the frame together with an error (n > 0, err != nil in one
	// Read - a quota or deadline reader). The bytes come first: the complete frame was delivered, so the call succeeds
	// with n = len(frame) (io.ReadFull and io.CopyN both drop an error that arrives with the last wanted byte).
	for _, mode := range []int{chWhole, chRandom} {
		cr := newChunkReader(frame, mode, w.Rng)
		cr.errAfter, cr.err, cr.errWith = len(frame), errInjectedRead, true
		w.Op, w.A, w.B = "Unmarshal(error with the last bytes of the frame)", int64(len(frame)), 1
		o := c07Unmarshal(cr, c.empty())
		ev++
		if o.pan != "" || o.err != nil || int(o.n) != len(frame) || o.cons != len(frame) {
			w.Fail("readerr/complete-frame-delivered-with-error-on-last-read", mon.D{"kind": pbKindNames[c.Kind], "frame_len": len(frame), "returned_n": o.n, "err": errStr(o.err), "panic": o.pan, "reader_delivered": o.cons})
			return
		}
		w.Bucket("readerr/complete-frame-with-error-on-last-read")
	}
	w.Eval(ev)
	w.Extra("read_error_points_enumerated", int64(len(frame)))
	w.Sample(func() interface{} {
		return mon.D{"fault": "read error after k bytes, every k", "kind": pbKindNames[c.Kind], "frame_len": len(frame)}
	})
}

func c07WriteFaults(w *mon.W, idx int) {
	c := c07Frame(w.Cfg, w.Rng, idx)
	frame := c.frame()
	msg := c.msg()
	var ev int64
	// k = len(frame) only makes sense for the eager styles: the writer takes the last bytes of the frame AND reports a
	// failure in the same call (a sync-after-write, a quota hit exactly at the end)
	for k := 0; k <= len(frame); k++ {
		for style := 0; style < 4; style++ {
			eager, transient := style == 1 || style == 3, style == 2 || style == 3
			if k == len(frame) && !eager {
				continue
			}
			qw := &quotaWriter{quota: k, eager: eager, transient: transient, err: errInjectedWrite}
			w.Op, w.A, w.B = "Marshal(write-fault)", int64(k), int64(style)
			var n int64
			var err error
			pan := ""
			func() {
				defer func() {
					if r := recover(); r != nil {
						pan = fmt.Sprint(r)
					}
				}()
				n, err = pbcmpl.Marshal(qw, msg)
			}()
			ev++
			if pan != "" || int(n) != k || err != errInjectedWrite && !pbIs(err, errInjectedWrite) || !bytes.Equal(qw.buf.Bytes(), frame[:k]) {
				w.Fail("writefault/outcome", mon.D{"kind": pbKindNames[c.Kind], "frame_len": len(frame), "writer_quota_k": k, "eager": eager, "transient_fault_then_accepting": transient, "writer_calls": qw.writes,
					"returned_n": n, "err": errStr(err), "panic": pan, "bytes_in_writer": qw.buf.Len(), "prefix_ok": bytes.Equal(qw.buf.Bytes(), frame[:min(len(frame), qw.buf.Len())])})
				return
			}
			if eager {
				w.Bucket("writefault/eager")
			}
			if transient {
				w.Bucket("writefault/transient")
			}
			if eager && transient {
				w.Bucket("writefault/error-with-complete-count-then-accepting")
			}
			if k == len(frame) {
				w.Bucket("writefault/error-on-the-write-that-completes-the-frame")
			}
		}
		if k%7 == 3 || k == 0 || k == 32 || k == len(frame)-1 {
			// the writer PANICS at byte k (its own bug, a closed pipe wrapper, ...) and the caller recovers: nothing of the
			// aborted call may show in the next one (round 14 seeded a pooled header buffer that is only cleaned after the
			// write returned)
			pw := &panicWriter{at: k}
			func() {
				defer func() { recover() }()
				w.Op = "Marshal(writer panics)"
				pbcmpl.Marshal(pw, msg)
			}()
			other := c07Frame(w.Cfg, w.Rng, idx+1+k)
			for _, q := range []int{1, len(other.frame())} {
				qw := &quotaWriter{quota: q, eager: q == len(other.frame()), err: errInjectedWrite}
				if q == len(other.frame()) {
					qw = &quotaWriter{quota: -1}
				}
				w.Op = "Marshal(after a recovered writer panic)"
				n, err := pbcmpl.Marshal(qw, other.msg())
				ev++
				of := other.frame()
				want := of[:min(q, len(of))]
				if !bytes.Equal(qw.buf.Bytes(), want) || int(n) != len(want) || (q == len(of)) != (err == nil) {
					w.Fail("writefault/after-recovered-writer-panic", mon.D{"panic_at_byte": k, "next_frame_len": len(of), "writer_quota": q, "returned_n": n, "err": errStr(err), "bytes_in_writer": qw.buf.Len(),
						"prefix_ok": bytes.Equal(qw.buf.Bytes(), of[:min(len(of), qw.buf.Len())])})
					return
				}
			}
			w.Bucket("writefault/writer-panic-then-next-marshal")
		}
		switch {
		case k < 32:
			w.Bucket("writefault/in-header")
		case k == 32:
			w.Bucket("writefault/at-32")
		default:
			w.Bucket("writefault/in-body")
		}
		if k > 0 {
			w.Distinct(gen.Hash64(3, uint64(idx), uint64(k)))
		}
	}
	w.Eval(ev)
	w.Extra("writer_quotas_enumerated", int64(len(frame)))
	w.Sample(func() interface{} {
		return mon.D{"fault": "writer fails after k bytes, every k", "kind": pbKindNames[c.Kind], "frame_len": len(frame)}
	})
}

// c07Arbitrary feeds arbitrary bytes to Unmarshal and ReadHeader and checks what the property
// states for them. class is only used in signatures.
func c07Arbitrary(w *mon.W, input []byte, kind int, mode int, class string) bool {
	c := pbCase{Kind: kind}
	var hsize, bsize uint64
	if len(input) >= 32 {
		hsize = binary.LittleEndian.Uint64(input[16:])
		bsize = binary.LittleEndian.Uint64(input[24:])
	}
	w.Op, w.A, w.B, w.Obj = "Unmarshal(arbitrary)", int64(len(input)), int64(mode), fmt.Sprintf("hsize=%d bsize=%d", hsize, bsize)
	cr := newChunkReader(input, mode, w.Rng)
	o := c07Unmarshal(cr, c.empty())
	w.Eval(1)
	d := func() mon.D {
		hx := input
		if len(hx) > 48 {
			hx = hx[:48]
		}
		return mon.D{"class": class, "input_len": len(input), "input_head_hex": fmt.Sprintf("%x", hx), "header_size_field": hsize, "body_size_field": bsize,
			"into": pbKindNames[kind], "chunking": chNames[mode], "returned_n": o.n, "err": errStr(o.err), "panic": o.pan, "reader_delivered": o.cons}
	}
	rem := uint64(0)
	if len(input) >= 32 {
		rem = uint64(len(input) - 32)
	}
	sizeClass := "bsize<=rem"
	switch {
	case bsize >= 1<<63:
		sizeClass = "bsize>=2^63"
	case bsize > 1<<31:
		sizeClass = "bsize-huge"
	case bsize > rem:
		sizeClass = "bsize-beyond-stream"
	}
	if o.pan != "" {
		w.Fail("arbitrary/panic/"+sizeClass, d())
		return false
	}
	if int(o.n) != o.cons || o.cons > len(input) {
		w.Fail("arbitrary/count-vs-consumed/"+sizeClass, d())
		return false
	}
	switch {
	case len(input) < 32:
		want := io.ErrUnexpectedEOF
		if len(input) == 0 {
			want = io.EOF
		}
		if !pbIs(o.err, want) || o.cons != len(input) {
			w.Fail("arbitrary/short-header", d())
			return false
		}
	case hsize != 32:
		w.Bucket("corrupt/hsize!=32")
		if !pbIs(o.err, pbcmpl.ErrInvalidHeaderSize) || o.n != 32 || o.cons != 32 {
			w.Fail("arbitrary/invalid-header-size-not-reported", d())
			return false
		}
	default:
		complete := bsize <= rem
		if o.err == nil && (!complete || uint64(o.n) != 32+bsize) {
			w.Fail("arbitrary/success-without-complete-frame/"+sizeClass, d())
			return false
		}
		if !complete {
			w.Bucket("corrupt/" + sizeClass)
			if bsize <= 1<<31 {
				// a strict prefix of a valid frame (bodies up to 2 GiB certainly exist)
				okc := pbIs(o.err, io.ErrUnexpectedEOF) || (rem == 0 && pbIs(o.err, io.EOF))
				if !okc || o.cons != len(input) {
					w.Fail("arbitrary/prefix-semantics", d())
					return false
				}
			}
		} else if o.err == nil {
			w.Bucket("corrupt/complete-frame-ok")
		}
	}
	// ReadHeader: normal return, success iff 32 bytes are there
	w.Op = "ReadHeader(arbitrary)"
	cr2 := newChunkReader(input, mode, w.Rng)
	hn, h, herr, hp := c07ReadHeader(cr2)
	w.Eval(1)
	if hp != "" || int(hn) != cr2.delivered || (herr == nil) != (len(input) >= 32) || (herr == nil && (hn != 32 || h == nil || uint64(h.GetHeaderSize()) != hsize || uint64(h.GetBodySize()) != bsize)) {
		w.Fail("arbitrary/ReadHeader", mon.D{"input_len": len(input), "n": hn, "err": errStr(herr), "panic": hp, "delivered": cr2.delivered})
		return false
	}
	return true
}

func c07CorruptHeaders(w *mon.W, idx int) {
	r := w.Rng
	nb := len(c07BSizes) + 3
	hi, bi := idx/nb, idx%nb
	var hsize uint64 = 32
	switch {
	case hi < len(c07HSizes):
		hsize = c07HSizes[hi]
	case hi == len(c07HSizes):
		hsize = r.Uint64()
	}
	trailers := []int{0, 1, 5, 6, 40, 300}
	for _, tl := range trailers {
		var bsize uint64
		switch {
		case bi < len(c07BSizes):
			bsize = c07BSizes[bi]
		case bi == len(c07BSizes):
			bsize = uint64(tl) + 1 // one more than what follows
		case bi == len(c07BSizes)+1:
			bsize = uint64(tl) // exactly what follows: a complete frame
		default:
			bsize = r.Uint64() >> uint(r.Intn(64))
		}
		ver := []string{"1.0.0", "", "\xff\xff\xff\xff\xff\xff\xff\xff\xff\xff\xff\xff\xff\xff\xff\xff"}[r.Intn(3)]
		input := pbFrame(ver, hsize, bsize, pbPayload(r, tl))
		for _, kind := range []int{pbKLegacy, pbKBytes} {
			for _, mode := range []int{chWhole, chRandom, chEOFWithData} {
				if !c07Arbitrary(w, input, kind, mode, "forged-header") {
					return
				}
			}
		}
		w.Distinct(gen.Hash64(4, gen.HashBytes(input)))
	}
	w.Sample(func() interface{} {
		return mon.D{"fault": "forged header", "header_size_field": hsize, "body_size_index": bi, "trailers": trailers}
	})
}

func c07RandomBytes(w *mon.W, idx int) {
	r := w.Rng
	var input []byte
	class := "random"
	switch idx % 4 {
	case 0, 1:
		input = make([]byte, r.Intn(101))
		for i := range input {
			input[i] = r.Byte()
		}
		if r.Bool() && len(input) >= 32 {
			// plausible header-size so that the body-size path is reached
			binary.LittleEndian.PutUint64(input[16:], 32)
			if r.Bool() {
				binary.LittleEndian.PutUint64(input[24:], uint64(r.Intn(120)))
			}
		}
		w.Bucket("random/short")
	default:
		c := pbCase{Kind: c07Kinds[r.Intn(len(c07Kinds))], Payload: pbPayload(r, r.Intn(80)), Ver: pbVersion(r, r.Intn(17))}
		input = c.frame()
		for f := 1 + r.Intn(3); f > 0; f-- {
			p := r.Intn(len(input))
			if r.Bool() {
				p = 16 + r.Intn(16) // size fields
			}
			input[p] ^= 1 << uint(r.Intn(8))
		}
		class = "bitflip"
		w.Bucket("random/bitflip")
	}
	kind := []int{pbKLegacy, pbKBytes}[r.Intn(2)]
	if c07Arbitrary(w, input, kind, r.Intn(chNModes), class) {
		w.Distinct(gen.Hash64(5, gen.HashBytes(input)))
	}
	w.Sample(func() interface{} { return mon.D{"fault": class, "input_hex": fmt.Sprintf("%x", input)} })
}

// c07BigFrames cuts frames whose bodies are around and above 1 MiB (allocation strategies change
// with size) at boundary and sampled points.
func c07BigFrames(w *mon.W, idx int) {
	r := w.Rng
	size := []int{1<<20 - 1, 1 << 20, 1<<20 + 1, 1500000}[idx%4]
	c := pbCase{Kind: c07Kinds[idx/4], Payload: pbPayload(r, size), Ver: "1.0.0"}
	frame := c.frame()
	n := len(frame)
	cuts := []int{0, 1, 31, 32, 33, 32 + 511, 32 + 512, 32 + 513, 32 + 1<<16, 32 + 1<<20 - 1, 32 + 1<<20, n - 2, n - 1}
	for k := 0; k < 12; k++ {
		cuts = append(cuts, 33+r.Intn(n-34))
	}
	for _, k := range cuts {
		if k < 0 || k >= n {
			continue
		}
		for _, mode := range []int{chWhole, chEOFWithData} {
			w.Op, w.A, w.B = "Unmarshal(cut,big)", int64(k), int64(mode)
			cr := newChunkReader(frame[:k], mode, r)
			o := c07Unmarshal(cr, c.empty())
			w.Eval(1)
			w.Tick()
			okc := pbIs(o.err, io.ErrUnexpectedEOF)
			if k == 0 {
				okc = pbIs(o.err, io.EOF)
			} else if k == 32 {
				okc = okc || pbIs(o.err, io.EOF)
			}
			if o.pan != "" || o.err == nil || int(o.n) != k || o.cons != k || !okc {
				w.Fail("cut/big-frame", mon.D{"kind": pbKindNames[c.Kind], "body_len": n - 32, "cut_k": k, "chunking": chNames[mode], "returned_n": o.n, "err": errStr(o.err), "panic": o.pan, "reader_delivered": o.cons})
				return
			}
			if k > 32 {
				w.Distinct(gen.Hash64(6, uint64(idx), uint64(k)))
				w.Bucket("cut/big-frame>1MiB")
			}
		}
	}
	// and the complete frame still decodes
	cr := newChunkReader(frame, chWhole, r)
	into := c.empty()
	o := c07Unmarshal(cr, into)
	w.Eval(1)
	if o.err != nil || int(o.n) != n || !c.sameMsg(into) {
		w.Fail("big-frame/complete-frame-not-decoded", mon.D{"body_len": n - 32, "returned_n": o.n, "err": errStr(o.err)})
		return
	}
	w.Sample(func() interface{} {
		return mon.D{"fault": "truncation of a frame with a body around 1 MiB", "body_len": n - 32, "cuts": len(cuts)}
	})
}

// c07WriteFaultsBig: writer quotas on frames with bodies of 32 KiB .. 70 KB (where a frame writer may
// switch between one coalesced Write and separate header/body Writes): quotas around every plausible
// threshold and sampled ones, all three failure styles.
func c07WriteFaultsBig(w *mon.W, idx int) {
	r := w.Rng
	size := []int{32768, 32769, 70000}[idx%3]
	c := pbCase{Kind: c07Kinds[idx/3], Payload: pbPayload(r, size), Ver: "1.0.0"}
	frame := c.frame()
	msg := c.msg()
	n := len(frame)
	var ks []int
	for k := 0; k <= 40; k++ {
		ks = append(ks, k)
	}
	for _, c := range []int{4096, 8192, 16384, 32768, 65536} {
		for d := -2; d <= 34; d++ {
			ks = append(ks, c+d)
		}
	}
	ks = append(ks, n-3, n-2, n-1)
	for i := 0; i < 30; i++ {
		ks = append(ks, 33+r.Intn(n-34))
	}
	for _, k := range ks {
		if k < 0 || k >= n {
			continue
		}
		for style := 0; style < 3; style++ {
			qw := &quotaWriter{quota: k, eager: style == 1, transient: style == 2, err: errInjectedWrite}
			w.Op, w.A, w.B = "Marshal(write-fault,big)", int64(k), int64(style)
			nn, err := pbcmpl.Marshal(qw, msg)
			w.Eval(1)
			if int(nn) != k || !pbIs(err, errInjectedWrite) && err != errInjectedWrite || !bytes.Equal(qw.buf.Bytes(), frame[:k]) {
				w.Fail("writefault/big-body", mon.D{"kind": pbKindNames[c.Kind], "body_len": n - 32, "writer_quota_k": k, "style": style, "returned_n": nn, "err": errStr(err), "bytes_in_writer": qw.buf.Len()})
				return
			}
		}
		w.Tick()
		w.Distinct(gen.Hash64(7, uint64(idx), uint64(k)))
	}
	w.Bucket("writefault/body>32KiB")
	w.Sample(func() interface{} {
		return mon.D{"fault": "writer quota on a frame with a big body", "body_len": n - 32, "quotas": len(ks)}
	})
}
