package props

import (
	"fmt"

	"github.com/openacid/low/bmtree"

	"verif/internal/mon"
)

// C05 — IndexToPath inverts PathToIndex on full trees of every height.
//
// The space (h, index) has 2^32 - 33 points: the thorough tier executes all of them. Indexes are
// processed in blocks; the first node of a block is located with the O(h) walk oracle, the
// following ones with the literal pre-order successor function, so the expected path of every
// index is known without any closed form. For each index the monitor requires
// IndexToPath(h, index) == expected path word (hence well-formed) and
// PathToIndex(2^(h+1)-1, that word) == index.

const c05BlockBits = 20

type c05Block struct {
	h     int
	start int64
	n     int64
	dup   bool // a repetition of pairs that another family counts: not added to distinct_nontrivial
}

func c05Blocks(c *mon.Config) []c05Block {
	var out []c05Block
	add := func(h int) {
		total := (int64(1) << uint(h+1)) - 1
		for s := int64(0); s < total; s += 1 << c05BlockBits {
			n := int64(1) << c05BlockBits
			if s+n > total {
				n = total - s
			}
			out = append(out, c05Block{h: h, start: s, n: n})
		}
	}
	full := 30
	if c.Slow() {
		full = 20
	}
	for h := 0; h <= full; h++ {
		add(h)
	}
	return out
}

func init() {
	register(&mon.Prop{
		ID:    "C05",
		Level: "exploration",
		Rule: "both tiers: EVERY (h, index), h = 0..30 (2^32 - 33 executions, exhaustive, ~6 s on 16 cores); the thorough tier repeats the complete enumeration in a binary built with the second toolchain (go1.26.8). " +
			"Expected path of each index from the literal pre-order successor chain anchored by the O(h) walk oracle. Non-trivial+distinct = exact count of enumerated (h, index) pairs with h >= 5 (below that the answer is a table lookup).",
		Assumptions: []string{"0 <= h <= 30, 0 <= index < 2^(h+1)-1"},
		Exhaustive:  func(tier string) bool { return true },
		Flavours: func(tier string) []string {
			if tier == "thorough" {
				return []string{"release", "release#orders", "debug", "go126", "386"}
			}
			// debug: the module's own contract checks (openacid/must) run inside PathToIndex / IndexToPath with that tag;
			// heights up to 20 completely, every height through the related-queries family
			return []string{"release", "release#orders", "debug"}
		},
		Required: []string{"h=0", "h<=4/table-only", "h=5", "h=30", "index=0", "index=last", "index>=2^30", "history/same-query-repeated", "history/A-B-A-related-indexes"},
		Merge: func(tier string, rs map[string]*mon.Result) []mon.Violation {
			if r := rs["release#orders"]; r != nil && r.Complete && r.Buckets["order/descending"] == 0 && len(r.Violations) == 0 {
				return []mon.Violation{{Sig: "c05/orders-process-observed-nothing", Flavour: "release#orders", Detail: []byte(`{}`), Count: 1, Inconclusive: true}}
			}
			return nil
		},
		Families: func(c *mon.Config) []mon.Family {
			blocks := c05Blocks(c)
			var fams []mon.Family
			if c.Variant() == "orders" {
				// a fresh process whose FIRST queries arrive out of order (descending, strided, random):
				// the complete enumeration alone only ever asks in ascending order
				return []mon.Family{{Name: "non-ascending-orders", N: 1, Serial: true, Run: c05Orders}}
			}
			// the first thing the primary process does: all workers enumerate the SAME small heights at once
			fams = append(fams, mon.Family{Name: "cold-start", N: 1, Serial: true, Run: func(w *mon.W, _ int) {
				l := coldPick(coldPathCalls(), "IndexToPath", "PathToIndex")
				if !coldFirst(w, l) {
					return
				}
				defer coldLast(w, l)
				// a caller does what it likes with slices OTHER functions of the package returned (sorts them, appends to
				// them, overwrites them); IndexToPath must not care (an AllPaths that handed out a row of IndexToPath's
				// lookup table was seeded)
				for _, sz := range []int32{1, 3, 7, 15, 31} {
					for _, ft := range [][2]uint64{{0, 1 << 63}, {0, 3 << 32}, {1 << 32, 2 << 32}} {
						ps := bmtree.AllPaths(sz, ft[0], ft[1])
						ps = append(ps, ^uint64(0))
						scribbleW(ps)
					}
					scribbleW(bmtree.Decode(sz, []uint64{^uint64(0)}))
				}
				w.Bucket("cold-start/neighbours-results-scribbled")
				// the first queries of the process: the extreme (h, index) pairs
				for _, hb := range []c05Block{{h: 30, start: 1<<31 - 2, n: 1, dup: true}, {h: 0, start: 0, n: 1, dup: true}, {h: 30, start: 0, n: 1, dup: true}, {h: 5, start: 62, n: 1, dup: true}, {h: 4, start: 30, n: 1, dup: true}} {
					c05Run(w, hb)
				}
				w.Bucket("cold-start")
			}})
			fams = append(fams, mon.Family{Name: "concurrent-first-use", N: 16 * 13, Run: func(w *mon.W, idx int) {
				h := 12 - idx/16
				c05Run(w, c05Block{h: h, start: 0, n: (int64(1) << uint(h+1)) - 1, dup: true})
			}})
			fams = append(fams, mon.Family{Name: "repeated-and-related-queries", Env: 3, N: c.Pick(31*8, 31*64), Run: c05Related})
			fams = append(fams, mon.Family{Name: "all-indexes", Env: 2, N: len(blocks), Run: func(w *mon.W, idx int) { c05Run(w, blocks[idx]) }})
			return fams
		},
	})
}

// c05NodeAt finds the node with pre-order rank idx in the complete tree of height h by descent.
func c05NodeAt(h int, idx int64) (int, uint64) {
	l, prefix := 0, uint64(0)
	for idx > 0 {
		idx-- // step to the left child
		l++
		prefix <<= 1
		sub := (int64(1) << uint(h-l+1)) - 1 // nodes in the subtree rooted at a depth-l node
		if idx >= sub {
			idx -= sub
			prefix |= 1
		}
	}
	return l, prefix
}

func c05Run(w *mon.W, b c05Block) {
	h := b.h
	full := int32((int64(1) << uint(h+1)) - 1)
	l, prefix := c05NodeAt(h, b.start)
	// cross-check the anchor with the walk oracle
	if wi, _ := bmWalkRank(uint32(full), h, l, prefix); wi != b.start {
		w.Harness("c05/anchor-oracles-disagree", mon.D{"h": h, "start": b.start, "walk": wi})
		return
	}
	w.Op, w.A = "IndexToPath", int64(h)
	ok := true
	for i := int64(0); i < b.n; i++ {
		index := b.start + i
		w.B = index
		exp := bmPathWord(prefix, l, h)
		got := bmtree.IndexToPath(int32(h), int32(index))
		if got != exp {
			w.Fail("IndexToPath/path", mon.D{"height": h, "index": index, "got": fmt.Sprintf("%#016x", got), "expected": fmt.Sprintf("%#016x", exp), "expected_bits": fmt.Sprintf("%0*b", l, prefix)})
			return
		}
		if back := bmtree.PathToIndex(full, got); int64(back) != index {
			w.Fail("PathToIndex(IndexToPath)", mon.D{"height": h, "index": index, "path": fmt.Sprintf("%#016x", got), "back": back})
			return
		}
		l, prefix, ok = bmSucc(h, l, prefix)
		if !ok && i != b.n-1 {
			w.Harness("c05/successor-ran-out", mon.D{"h": h, "index": index})
			return
		}
	}
	last := b.start+b.n == int64(full)
	if last && ok {
		w.Harness("c05/successor-chain-too-long", mon.D{"h": h})
		return
	}
	w.Eval(2 * b.n)
	w.Extra("h_index_pairs_executed", b.n)
	if h >= 5 && !b.dup {
		w.DistinctExact(b.n)
	}
	switch {
	case h == 0:
		w.Bucket("h=0")
		w.Bucket("h<=4/table-only")
	case h <= 4:
		w.Bucket("h<=4/table-only")
	case h == 5:
		w.Bucket("h=5")
	case h == 30:
		w.Bucket("h=30")
	}
	if b.start == 0 {
		w.Bucket("index=0")
	}
	if last {
		w.Bucket("index=last")
	}
	if b.start+b.n > 1<<30 {
		w.Bucket("index>=2^30")
	}
	w.Sample(func() interface{} {
		return mon.D{"height": h, "indexes": fmt.Sprintf("[%d, %d)", b.start, b.start+b.n), "path_bits_after_block": fmt.Sprintf("%0*b", l, prefix)}
	})
}

// c05Orders asks for the indexes of the heights 0..16 in descending, strided and random order, then
// for sampled indexes of every larger height in random order, each answer checked with the walk
// oracle. It is the only family of its process, so nothing has been asked in ascending order before.
func c05Orders(w *mon.W, _ int) {
	r := w.Rng
	check := func(h int, index int64) bool {
		w.Op, w.A, w.B = "IndexToPath(out of order)", int64(h), index
		got := bmtree.IndexToPath(int32(h), int32(index))
		l, prefix := c05NodeAt(h, index)
		exp := bmPathWord(prefix, l, h)
		full := int32((int64(1) << uint(h+1)) - 1)
		if got != exp {
			w.Fail("IndexToPath/out-of-order-query", mon.D{"height": h, "index": index, "got": fmt.Sprintf("%#016x", got), "expected": fmt.Sprintf("%#016x", exp)})
			return false
		}
		if back := bmtree.PathToIndex(full, got); int64(back) != index {
			w.Fail("PathToIndex(IndexToPath)", mon.D{"height": h, "index": index, "back": back})
			return false
		}
		return true
	}
	var ev int64
	for h := 16; h >= 0; h-- {
		total := (int64(1) << uint(h+1)) - 1
		switch h % 3 {
		case 0: // descending
			for i := total - 1; i >= 0; i-- {
				if !check(h, i) {
					return
				}
				ev++
			}
			w.Bucket("order/descending")
		case 1: // a jump to the middle, then strides that wrap around
			stride := int64(7919)
			i := total / 2
			for k := int64(0); k < total; k++ {
				if !check(h, i) {
					return
				}
				ev++
				i = (i + stride) % total
			}
			w.Bucket("order/strided")
		default: // random order
			for k := int64(0); k < total; k++ {
				if !check(h, int64(r.Uint64()%uint64(total))) {
					return
				}
				ev++
			}
			w.Bucket("order/random")
		}
		w.Tick()
	}
	for h := 17; h <= 30; h++ {
		total := (int64(1) << uint(h+1)) - 1
		for k := 0; k < 20000; k++ {
			if !check(h, int64(r.Uint64()%uint64(total))) {
				return
			}
			ev++
		}
		w.Tick()
	}
	w.Eval(2 * ev)
	w.DistinctExact(ev)
	w.Sample(func() interface{} {
		return mon.D{"what": "heights 16..0 asked descending / strided / random first in a fresh process", "queries": ev}
	})
}

// c05Related: exhaustive over inputs is not exhaustive over histories (round 11 seeded a memo in front of IndexToPath
// whose hit counter overflowed into the stored path at the 10th identical query, and one whose key could not tell index A
// from A + 2^30 at height 30). One height and a few indexes per case: the same query 40 times in a row, then
// A, B, A, B, A for every B = A +- 2^k and A +- 1, A +- 1023, A +- 1024, A +- 1025 that lies in the tree.
func c05Related(w *mon.W, idx int) {
	r := w.Rng
	h := idx % 31
	total := (int64(1) << uint(h+1)) - 1
	full := int32(total)
	ask := func(index int64) bool {
		w.Op, w.A, w.B = "IndexToPath(history)", int64(h), index
		got := bmtree.IndexToPath(int32(h), int32(index))
		l, prefix := c05NodeAt(h, index)
		exp := bmPathWord(prefix, l, h)
		w.Eval(2)
		if got != exp {
			w.Fail("IndexToPath/answer-depends-on-earlier-queries", mon.D{"height": h, "index": index, "got": fmt.Sprintf("%#016x", got), "expected": fmt.Sprintf("%#016x", exp)})
			return false
		}
		if back := bmtree.PathToIndex(full, got); int64(back) != index {
			w.Fail("PathToIndex(IndexToPath)", mon.D{"height": h, "index": index, "back": back})
			return false
		}
		return true
	}
	var as []int64
	switch (idx / 31) % 4 {
	case 0:
		as = []int64{0, total - 1, total / 2}
	case 1:
		as = []int64{int64(r.Uint64() % uint64(total)), (int64(1) << uint(r.Intn(h+1))) - 1}
	default:
		as = []int64{int64(r.Uint64() % uint64(total)), int64(r.Uint64() % uint64(total))}
	}
	for _, a := range as {
		for k := 0; k < 40; k++ {
			if !ask(a) {
				return
			}
		}
		w.Bucket("history/same-query-repeated")
		var ds []int64
		for k := 0; k <= h; k++ {
			ds = append(ds, int64(1)<<uint(k))
		}
		ds = append(ds, 1023, 1025, 3, 1<<10+1<<20)
		for _, d := range ds {
			for _, b := range []int64{a + d, a - d} {
				if b < 0 || b >= total {
					continue
				}
				if !ask(a) || !ask(b) || !ask(a) || !ask(b) || !ask(a) {
					return
				}
				w.Bucket("history/A-B-A-related-indexes")
			}
		}
	}
	w.Sample(func() interface{} {
		return mon.D{"height": h, "indexes": as, "pattern": "40x the same query, then A,B,A,B,A for B = A +- 2^k and neighbours"}
	})
}
