package props

// Reference model of bmtree shared by C03, C04, C05. Nothing here calls the library.
//
// A level mask T ("bitmapSize") has bit l set iff the nodes at depth l are stored; its top bit is
// the tree height h. A node is (l, prefix): depth l and the l turn bits from the root, 0 = left.

func bmHeight(mask uint32) int {
	h := -1
	for mask != 0 {
		h++
		mask >>= 1
	}
	return h
}

func bmStored(mask uint32, l int) bool { return (mask>>uint(l))&1 == 1 }

// bmPathWord builds a path word with the harness's own constructor (not NewPath / AllPaths).
func bmPathWord(prefix uint64, l, h int) uint64 {
	return (prefix<<uint(h-l))<<32 | ((uint64(1)<<uint(l))-1)<<uint(h-l)
}

type bmNode struct {
	l      int
	prefix uint64
}

// bmPreorder is the literal definition: recursive pre-order traversal of the complete tree of
// height h, emitting every node (visit) in order.
func bmPreorder(h int, visit func(l int, prefix uint64)) {
	var rec func(l int, prefix uint64)
	rec = func(l int, prefix uint64) {
		visit(l, prefix)
		if l < h {
			rec(l+1, prefix<<1)
			rec(l+1, prefix<<1|1)
		}
	}
	rec(0, 0)
}

// bmWalkRank is oracle (b): descend the path; +1 for each stored ancestor level, + the stored
// nodes of the skipped left subtree for each right turn (summed level by level in int64).
func bmWalkRank(mask uint32, h, l int, prefix uint64) (int64, bool) {
	var idx int64
	for d := 0; d < l; d++ {
		if bmStored(mask, d) {
			idx++
		}
		if (prefix>>uint(l-1-d))&1 == 1 {
			// left subtree rooted at depth d+1
			for lv := d + 1; lv <= h; lv++ {
				if bmStored(mask, lv) {
					idx += int64(1) << uint(lv-d-1)
				}
			}
		}
	}
	return idx, bmStored(mask, l)
}

// bmSucc is the pre-order successor of a node in the complete tree of height h
// (ok=false after the last node).
func bmSucc(h, l int, prefix uint64) (int, uint64, bool) {
	if l < h {
		return l + 1, prefix << 1, true
	}
	for l > 0 && prefix&1 == 1 {
		prefix >>= 1
		l--
	}
	if l == 0 {
		return 0, 0, false
	}
	return l, prefix | 1, true
}
