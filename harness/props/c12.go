package props

import (
	"fmt"
	"math"

	"github.com/openacid/low/bitmap"

	"verif/internal/gen"
	"verif/internal/mon"
)

// C12 — Of / OfMany / Builder / ToArray / Get* agree on which bits are set.
// Oracle: a set of positions (map / sorted list) kept by the harness.

func init() {
	register(&mon.Prop{
		ID:    "C12",
		Level: "exploration",
		Rule: "strictly ascending position lists (empty; ends at 63/64/65/127/128; gaps of thousands; dense runs) x n in {absent,-5,0,last,last+1,last+2,64k-1,64k,64k+1}; probes of Get/Get1/SafeGet/SafeGet1 at every position " +
			"in [-130, 64*len+130) plus MaxInt32/MinInt32; round trips ToArray(Of(l)) = l and Of(ToArray(b)) = b modulo trailing zero words on zoo bitmaps; OfMany on segment lists; Builder histories of 1..12 ops " +
			"(Extend with positions >= size, size 0, empty positions; Set 0/1; pre-sized builders) checked after EVERY op. Non-trivial+distinct = hash of (list, n) with a non-empty list, hash of a history with >= 2 ops.",
		Assumptions: []string{"Of/OfMany compared only on ascending (merged) lists, sizes >= 0, positions >= 0 (Of's stated domain)", "Builder compared as a set; extra zero words are allowed",
			"Get/Get1 probed only inside the bitmap"},
		Flavours: releaseAnd386,
		Required: []string{"long-run/calls>=100000-per-function", "positions-up-to-maxint32", "builder/hint-near-maxint32", "arguments-in-read-only-memory", "of/empty-list", "of/n-absent", "of/n-absent-as-empty-non-nil-variadic", "of/n-negative", "of/n<last+1", "of/n>last+1", "of/last%64=63", "of/last%64=0", "probe/negative", "probe/beyond", "probe/maxint32", "probe/minint32",
			"ofmany/pos>=size", "ofmany/size=0", "ofmany/empty-sub", "ofmany/segments-carved-from-one-arena", "ofmany/shifted-list-not-ascending", "builder/extend-pos>=size", "builder/extend-size=0", "builder/extend-empty", "builder/set-0", "builder/set-1", "builder/presized", "builder/over-dirty-capacity", "roundtrip/trailing-zero-words", "probe/bitmap>=2^31-bits"},
		Families: func(c *mon.Config) []mon.Family {
			return []mon.Family{
				{Name: "cold-start", N: 1, Serial: true, Run: func(w *mon.W, _ int) {
					l := coldPick(coldBitmapCalls(), "Get/Get1/SafeGet/SafeGet1", "ToArray", "Of", "OfMany", "Builder")
					if coldFirst(w, l) && coldLast(w, l) {
						w.Bucket("cold-start")
					}
				}},
				{Name: "of", Env: 6, N: c.Pick(40000, 4000000), Run: c12Of},
				{Name: "roundtrip-zoo", Env: 4, N: c.Pick(10000, 1500000), Run: c12RoundTrip},
				{Name: "ofmany", Env: 4, N: c.Pick(40000, 8000000), Run: c12OfMany},
				{Name: "builder", Env: 6, N: c.Pick(60000, 10000000), Run: c12Builder},
				{Name: "big-lists", Env: 3, N: 7 * c.Pick(2, 60), Run: c12Big},
				{Name: "huge-bitmap-probes", N: 1, Run: c12Huge},
				{Name: "top-of-int32", NoCold: true, N: b2i(c.Base() != "386"), Run: c12Top},
				lrFamily(c12LongRun),
			}
		},
	})
}

func c12AscList(r *gen.Rand) []int32 {
	var l []int32
	n := 0
	switch r.Intn(6) {
	case 0:
		n = 0
	case 1:
		n = 1
	default:
		n = 1 + r.Intn(40)
	}
	p := 0
	switch r.Intn(4) {
	case 0:
		p = r.Pick(0, 62, 63, 64, 126, 127, 128)
	case 1:
		p = r.Intn(5000)
	default:
		p = r.Intn(70)
	}
	for i := 0; i < n; i++ {
		l = append(l, int32(p))
		switch r.Intn(5) {
		case 0:
			p += 1000 + r.Intn(4000)
		case 1:
			p += 64
		case 2:
			p += 63 + r.Intn(3)
		default:
			p += 1 + r.Intn(3)
		}
	}
	// force a boundary end sometimes
	if n > 0 && r.Intn(3) == 0 {
		last := int(l[n-1])
		tgt := (last&^63 + r.Pick(63, 64, 65, 127, 128))
		if n == 1 || tgt > int(l[n-2]) {
			l[n-1] = int32(tgt)
		}
	}
	return l
}

func c12ExpectWords(set []int32, nbits int) []uint64 {
	if nbits < 0 {
		nbits = 0
	}
	ws := make([]uint64, (nbits+63)/64)
	for _, p := range set {
		setBit(ws, int(p))
	}
	return ws
}

func trimZeros(ws []uint64) []uint64 {
	for len(ws) > 0 && ws[len(ws)-1] == 0 {
		ws = ws[:len(ws)-1]
	}
	return ws
}

func c12Probe(w *mon.W, bm []uint64, member map[int32]bool) bool {
	total := 64 * len(bm)
	if !w.RO && len(bm) > 0 && (len(bm)+len(member))%3 == 1 { // the bitmap in memory that cannot be written (ro.go)
		if v, rel, ok := roOneW(w, bm); ok {
			bm = v
			defer rel()
		}
	}
	check := func(p int32) bool {
		in := member[p]
		var e1 uint64
		if in {
			e1 = 1
		}
		e := e1 << uint(uint32(p)&63)
		w.Op, w.A = "SafeGet", int64(p)
		sg, sg1 := bitmap.SafeGet(bm, p), bitmap.SafeGet1(bm, p)
		if sg != e || sg1 != e1 {
			w.Fail("SafeGet", mon.D{"words": truncW(bm, 4), "nwords": len(bm), "i": p, "SafeGet": fmt.Sprintf("%#x", sg), "SafeGet1": sg1, "expected_member": in})
			return false
		}
		if p >= 0 && int(p) < total {
			w.Op = "Get"
			g, g1 := bitmap.Get(bm, p), bitmap.Get1(bm, p)
			if g != e || g1 != e1 {
				w.Fail("Get", mon.D{"words": truncW(bm, 4), "i": p, "Get": fmt.Sprintf("%#x", g), "Get1": g1, "expected_member": in})
				return false
			}
			w.Eval(2)
		}
		w.Eval(2)
		return true
	}
	lo, hi := -130, total+130
	if total > 1500 {
		// long bitmaps: both ends and the region around every member
		for p := -130; p < 200; p++ {
			if !check(int32(p)) {
				return false
			}
		}
		for p := range member {
			for q := p - 2; q <= p+2; q++ {
				if !check(q) {
					return false
				}
			}
		}
		lo = total - 200
	}
	for p := lo; p < hi; p++ {
		if !check(int32(p)) {
			return false
		}
	}
	w.Bucket("probe/negative")
	w.Bucket("probe/beyond")
	if !check(math.MaxInt32) || !check(math.MinInt32) || !check(math.MaxInt32-63) || !check(math.MinInt32+64) {
		return false
	}
	w.Bucket("probe/maxint32")
	w.Bucket("probe/minint32")
	return true
}

func c12Of(w *mon.W, idx int) {
	r := w.Rng
	l := c12AscList(r)
	in := append([]int32(nil), l...)
	last := -1
	if len(l) > 0 {
		last = int(l[len(l)-1])
	} else {
		w.Bucket("of/empty-list")
	}
	var got []uint64
	nbits := last + 1
	variant := idx % 9
	var nArg int32
	useN := variant != 0
	switch variant {
	case 1:
		// any negative size means "no minimum": small ones, those around -64 and -128, the smallest int32
		nArg = int32(r.Pick(-5, -1, -63, -64, -65, -126, -127, -128, -129, -1000, -1<<31))
	case 2:
		nArg = 0
	case 3:
		nArg = int32(last)
	case 4:
		nArg = int32(last + 1)
	case 5:
		nArg = int32(last + 2)
	case 6:
		nArg = int32((last+1+63)&^63 + 64 - 1)
	case 7:
		nArg = int32((last+1+63)&^63 + 64)
	case 8:
		nArg = int32((last+1+63)&^63 + 64 + 1)
	}
	w.Op, w.A, w.B, w.Obj = "Of", int64(len(l)), int64(nArg), nil
	lOrig := l
	l, guardL := argI32(w, l)
	if lOrig == nil {
		l, guardL = nil, func() bool { return true }
	} else if idx%4 == 1 { // the position list in memory that cannot be written (ro.go)
		if v, rel, ok := roOneI32(w, lOrig); ok {
			l = v
			defer rel()
		}
	}
	if useN {
		got = bitmap.Of(l, nArg)
		if int(nArg) > nbits {
			nbits = int(nArg)
			w.Bucket("of/n>last+1")
		} else if int(nArg) < last+1 {
			w.Bucket("of/n<last+1")
		}
		if nArg < 0 {
			w.Bucket("of/n-negative")
		}
	} else {
		// "no size" reaches Of in three spellings: no argument, a nil variadic slice, an empty non-nil one
		switch (idx / 9) % 3 {
		case 0:
			got = bitmap.Of(l)
		case 1:
			var none []int32
			got = bitmap.Of(l, none...)
		default:
			got = bitmap.Of(l, make([]int32, 0, 1)...)
			w.Bucket("of/n-absent-as-empty-non-nil-variadic")
		}
		w.Bucket("of/n-absent")
	}
	if last >= 0 {
		if last%64 == 63 {
			w.Bucket("of/last%64=63")
		}
		if last%64 == 0 {
			w.Bucket("of/last%64=0")
		}
	}
	w.Eval(1)
	exp := c12ExpectWords(in, nbits)
	d := func() mon.D {
		return mon.D{"positions": trunc32(in, 12), "npos": len(in), "n_given": useN, "n": nArg, "got_words": len(got), "expected_words": len(exp), "got": truncW(got, 4), "expected": truncW(exp, 4)}
	}
	if len(got) != len(exp) {
		w.Fail("Of/word-count", d())
		return
	}
	if !eqWords(got, exp) {
		w.Fail("Of/bits", d())
		return
	}
	if !eqI32(l, in) {
		w.Fail("Of/input-modified", d())
		return
	}
	if !guardL() {
		w.Fail("Of/wrote-outside-len-of-argument", d())
		return
	}
	w.Op = "ToArray"
	back := bitmap.ToArray(got)
	w.Eval(1)
	if !eqI32(back, in) {
		w.Fail("ToArray(Of(l))!=l", mon.D{"positions": trunc32(in, 12), "got": trunc32(back, 12)})
		return
	}
	member := map[int32]bool{}
	for _, p := range in {
		member[p] = true
	}
	if !c12Probe(w, got, member) {
		return
	}
	// hostile caller: both results are ours now
	scribbleW(got)
	scribbleI32(back)
	if !retainCheck(w, "Of", "bitmap.Of/ToArray", func() uint64 { return gen.HashWords(got) }, func() uint64 { return hashI32(back) }) {
		return
	}
	if len(in) > 0 {
		w.Distinct(gen.Hash64(uint64(variant), hashI32(in)))
	}
	w.Sample(func() interface{} {
		return mon.D{"call": "Of+ToArray+Get*", "positions": trunc32(in, 10), "n_variant": variant, "n": nArg, "words": len(got)}
	})
}

func hashI32(l []int32) uint64 {
	h := uint64(len(l))
	for _, v := range l {
		h = gen.Hash64(h, uint64(uint32(v)))
	}
	return h
}

func c12RoundTrip(w *mon.W, idx int) {
	r := w.Rng
	bm := gen.ZooBitmap(r, r.Intn(12))
	if len(bm) == 0 && r.Bool() {
		bm = nil
	}
	if r.Bool() {
		bm = append(bm, 0, 0) // trailing zero words
		w.Bucket("roundtrip/trailing-zero-words")
	}
	if idx%10 == 3 {
		bm = gen.RunBitmap(r, 40+idx%200) // runs of empty / full words: 8 full, 8 empty, 8 full on whatever grid
		w.Bucket("roundtrip/run-structured")
	}
	if idx%25 == 7 {
		// exactly 255, 256, 257, 511, 512 ones (the sizes at which a scratch buffer of a power-of-two capacity is just
		// not, exactly, and just outgrown): full words plus a partial one
		ones := []int{255, 256, 257, 511, 512, 1024}[(idx/25)%6]
		bm = make([]uint64, ones/64+2)
		for k := 0; k < ones; k++ {
			setBit(bm, 64+k)
		}
		w.Bucket("roundtrip/popcount-around-256")
	}
	orig := cloneWords(bm)
	if bm != nil {
		var guard func() bool
		bm, guard = argW(w, bm)
		defer func() {
			if !guard() {
				w.Fail("ToArray/wrote-outside-len-of-argument", mon.D{"nwords": len(orig)})
			}
		}()
		if idx%4 == 1 {
			if v, rel, ok := roOneW(w, orig); ok {
				bm = v
				defer rel()
			}
		}
	}
	w.Op, w.Obj = "ToArray", nil
	arr := bitmap.ToArray(bm)
	var exp []int32
	for p := 0; p < 64*len(orig); p++ {
		if bitAt(orig, p) == 1 {
			exp = append(exp, int32(p))
		}
	}
	w.Eval(1)
	if !eqI32(arr, exp) && !(len(arr) == 0 && len(exp) == 0) {
		w.Fail("ToArray", mon.D{"words": truncW(orig, 4), "got": trunc32(arr, 12), "expected": trunc32(exp, 12)})
		return
	}
	if !eqWords(bm, orig) {
		w.Fail("ToArray/input-modified", mon.D{"words": truncW(orig, 4)})
		return
	}
	w.Op = "Of"
	back := bitmap.Of(arr)
	w.Eval(1)
	if !eqWords(trimZeros(back), trimZeros(orig)) {
		w.Fail("Of(ToArray(b))!=b", mon.D{"words": truncW(orig, 4), "got": truncW(back, 4)})
		return
	}
	// the list ToArray returned is the caller's: it is kept (unscribbled) and must read the same after later calls
	if !retainCheck(w, "ToArray/roundtrip", "bitmap.ToArray", func() uint64 { return hashI32(arr) }) {
		return
	}
	if nontrivialBitmap(orig) {
		w.Distinct(gen.HashWords(orig))
	}
	w.Sample(func() interface{} {
		return mon.D{"call": "ToArray then Of", "words": truncW(orig, 4), "ones": len(exp)}
	})
}

type c12Seg struct {
	pos  []int32
	size int32
}

func c12Segs(r *gen.Rand, w *mon.W, allowOverflow bool, tag string) []c12Seg {
	n := r.Intn(6)
	var segs []c12Seg
	for i := 0; i < n; i++ {
		var s c12Seg
		switch r.Intn(5) {
		case 0:
			s.size = 0
			w.Bucket(tag + "size=0")
		case 1:
			s.size = int32(r.Pick(1, 63, 64, 65, 128))
		default:
			s.size = int32(r.Intn(200))
		}
		k := r.Intn(6)
		if k == 0 {
			if tag == "ofmany/" {
				w.Bucket("ofmany/empty-sub")
			} else {
				w.Bucket("builder/extend-empty")
			}
		}
		p := 0
		for j := 0; j < k; j++ {
			p += r.Intn(int(s.size)/max(k, 1)+2) + b2i(j > 0)
			s.pos = append(s.pos, int32(p))
		}
		if !allowOverflow {
			// keep positions inside the segment
			var q []int32
			for _, v := range s.pos {
				if v < s.size {
					q = append(q, v)
				}
			}
			s.pos = q
		} else if len(s.pos) > 0 && s.pos[len(s.pos)-1] >= s.size {
			w.Bucket(tag + "pos>=size")
		}
		segs = append(segs, s)
	}
	return segs
}

func c12OfMany(w *mon.W, idx int) {
	r := w.Rng
	segs := c12Segs(r, w, idx%3 == 0, "ofmany/")
	var subs [][]int32
	var sizes []int32
	var merged []int32
	base := int32(0)
	asc := true
	for _, s := range segs {
		subs = append(subs, s.pos)
		sizes = append(sizes, s.size)
		for _, p := range s.pos {
			if len(merged) > 0 && base+p <= merged[len(merged)-1] {
				asc = false
			}
			merged = append(merged, base+p)
		}
		base += s.size
	}
	if !asc {
		// a position >= its segment's size reaches into the following segments: the shifted list is then not ascending.
		// The statement still covers it ("including positions >= size") as long as every shifted position lies inside
		// the total size (beyond that even the unchanged library indexes out of range: outside the domain)
		for _, p := range merged {
			if p >= base {
				return
			}
		}
		w.Bucket("ofmany/shifted-list-not-ascending")
	}
	// the segments as a caller holds them: separate slices, or views carved from ONE arena (each view's spare
	// capacity is the rest of the arena, i.e. the other segments), laid out in call order or in reverse
	var arena, arena0 []int32
	if layout := (idx / 3) % 3; layout != 0 && len(subs) >= 2 {
		order := make([]int, len(subs))
		for i := range order {
			order[i] = i
			if layout == 2 {
				order[i] = len(subs) - 1 - i
			}
		}
		at := make([]int, len(subs))
		for _, i := range order {
			at[i] = len(arena)
			arena = append(arena, subs[i]...)
		}
		arena = append(arena, poisonI, poisonI)
		for i := range subs {
			subs[i] = arena[at[i] : at[i]+len(subs[i])]
		}
		arena0 = append([]int32(nil), arena...)
		w.Bucket("ofmany/segments-carved-from-one-arena")
	}
	w.Op, w.Obj = "OfMany", nil
	qSizes, gSizes := dirtyI32(sizes)
	outer := make([][]int32, len(subs)+3)
	sentinel := []int32{poisonI}
	for i := range outer {
		outer[i] = sentinel
	}
	copy(outer[1:], subs)
	qSubs := outer[1 : 1+len(subs) : len(subs)+2]
	if len(subs) == 0 && idx%2 == 0 {
		qSubs, qSizes = nil, nil
	}
	if idx%4 == 3 && qSubs != nil { // sizes, the segment list and the segments in memory that cannot be written (ro.go)
		roReset(w)
		rs, rz := roI32s(w, subs), roI32(w, sizes)
		if rel, ok := roSeal(w); ok {
			qSubs, qSizes = rs, rz
			defer rel()
			w.Bucket("arguments-in-read-only-memory")
		}
	}
	got := bitmap.OfMany(qSubs, qSizes)
	w.Eval(1)
	if !gSizes() || !eqI32(qSizes, sizes) || len(outer[0]) != 1 || len(outer[1+len(subs)]) != 1 || len(outer[2+len(subs)]) != 1 || &outer[0][0] != &sentinel[0] || &outer[1+len(subs)][0] != &sentinel[0] {
		w.Fail("OfMany/wrote-outside-len-of-argument", mon.D{"sizes": sizes, "what": "the sizes slice, or the cells next to the sizes / segment-list arguments (before, between len and cap) changed"})
		return
	}
	if !eqI32(arena, arena0) {
		w.Fail("OfMany/wrote-into-the-callers-segments", mon.D{"sizes": sizes, "arena_before": trunc32(arena0, 24), "arena_after": trunc32(arena, 24),
			"what": "the segments are views of one array; after the call the array holds other values (a write through the spare capacity of a segment)"})
		return
	}
	nbits := int(base)
	if len(merged) > 0 && int(merged[len(merged)-1])+1 > nbits {
		nbits = int(merged[len(merged)-1]) + 1
	}
	exp := c12ExpectWords(merged, nbits)
	if len(got) != len(exp) || !eqWords(got, exp) {
		w.Fail("OfMany", mon.D{"subs": fmt.Sprint(subs), "sizes": sizes, "got_words": len(got), "expected_words": len(exp), "got": truncW(got, 4), "expected": truncW(exp, 4)})
		return
	}
	// and it is what Of builds from the merged list
	w.Op = "Of"
	viaOf := bitmap.Of(merged, base)
	if !eqWords(viaOf, got) {
		w.Fail("OfMany!=Of(merged,total)", mon.D{"subs": fmt.Sprint(subs), "sizes": sizes})
		return
	}
	if len(merged) > 0 && len(segs) >= 2 {
		w.Distinct(gen.Hash64(hashI32(merged), hashI32(sizes)))
	}
	w.Sample(func() interface{} {
		return mon.D{"call": "OfMany", "subs": fmt.Sprint(subs), "sizes": sizes, "words": len(got)}
	})
}

func c12Builder(w *mon.W, idx int) {
	r := w.Rng
	pre := int32(r.Pick(0, 0, 1, 64, 1000))
	if pre > 0 {
		w.Bucket("builder/presized")
	}
	if idx%997 == 11 && w.Cfg.Base() != "386" { // (16 workers x 256 MiB of capacity do not fit a 32-bit address space)
		// the size hint is an int32: its largest values (the builder is then used like any other; the capacity is never touched)
		pre = int32(r.Pick(1<<31-1, 1<<31-2, 1<<31-63, 1<<31-64, 1<<31-65, 1<<30))
		w.Bucket("builder/hint-near-maxint32")
	}
	w.Op, w.A, w.Obj = "NewBuilder", int64(pre), nil
	b := bitmap.NewBuilder(pre)
	if idx%5 == 4 {
		// a builder laid over a recycled scratch buffer: Words is empty but its capacity still holds
		// the previous bitmap. Words never seen by this builder must come up as zero.
		scratch := make([]uint64, 40)
		for i := range scratch {
			scratch[i] = poisonW
		}
		b = &bitmap.Builder{Words: scratch[:0]}
		w.Bucket("builder/over-dirty-capacity")
	}
	set := map[int32]bool{}
	maxSet := int32(-1)
	var off int32
	nops := 1 + r.Intn(12)
	var hist []string
	h := uint64(pre)
	for op := 0; op < nops; op++ {
		checkCover := false
		if r.Intn(3) != 0 {
			segs := c12Segs(r, w, r.Intn(3) == 0, "builder/extend-")
			if len(segs) == 0 {
				continue
			}
			s := segs[0]
			w.Op, w.A = "Builder.Extend", int64(s.size)
			in := append([]int32(nil), s.pos...)
			qPos, gPos := dirtyI32(s.pos)
			if s.pos == nil {
				qPos, gPos = nil, func() bool { return true }
			}
			if (op+idx)%4 == 2 && s.pos != nil { // the positions in memory that cannot be written (ro.go)
				if v, rel, ok := roOneI32(w, in); ok {
					b.Extend(v, s.size)
					rel()
				} else {
					b.Extend(qPos, s.size)
				}
			} else {
				b.Extend(qPos, s.size)
			}
			if !eqI32(in, qPos) {
				w.Fail("Builder.Extend/input-modified", mon.D{"history": hist})
				return
			}
			if !gPos() {
				w.Fail("Builder.Extend/wrote-outside-len-of-argument", mon.D{"history": hist, "positions": in})
				return
			}
			for _, p := range in {
				set[off+p] = true
				if off+p > maxSet {
					maxSet = off + p
				}
			}
			off += s.size
			hist = append(hist, fmt.Sprintf("Extend(%v,%d)", in, s.size))
			h = gen.Hash64(h, hashI32(in), uint64(s.size))
			checkCover = true
		} else {
			p := int32(r.Intn(int(off) + 130))
			v := int32(r.Intn(2))
			if r.Intn(8) == 0 {
				v = int32(r.Intn(8)) // only the lowest bit counts
			}
			w.Op, w.A, w.B = "Builder.Set", int64(p), int64(v)
			b.Set(p, v)
			if v&1 == 1 {
				set[p] = true
				if p > maxSet {
					maxSet = p
				}
				w.Bucket("builder/set-1")
			} else {
				w.Bucket("builder/set-0")
			}
			if off < p+1 {
				off = p + 1
			}
			hist = append(hist, fmt.Sprintf("Set(%d,%d)", p, v))
			h = gen.Hash64(h, uint64(p), uint64(v), 99)
		}
		w.Eval(1)
		// monitor after every op
		d := func() mon.D {
			return mon.D{"presized": pre, "history": hist, "Offset": b.Offset, "expected_Offset": off, "len_Words": len(b.Words), "Words": truncW(b.Words, 4)}
		}
		if b.Offset != off {
			w.Fail("Builder/Offset", d())
			return
		}
		if int(maxSet) >= 64*len(b.Words) {
			w.Fail("Builder/too-few-words-for-set-bit", d())
			return
		}
		if checkCover && int(off) > 64*len(b.Words) {
			w.Fail("Builder/too-few-words-for-Offset", d())
			return
		}
		var lst []int32
		for p := range set {
			lst = append(lst, p)
		}
		exp := c12ExpectWords(lst, int(maxSet)+1)
		if !eqWords(trimZeros(cloneWords(b.Words)), trimZeros(exp)) {
			dd := d()
			dd["expected_words"] = truncW(exp, 4)
			w.Fail("Builder/bits", dd)
			return
		}
	}
	if len(hist) >= 2 {
		w.Distinct(h)
	}
	w.Extra("builder_ops", int64(len(hist)))
	w.Sample(func() interface{} {
		return mon.D{"call": "Builder history", "presized": pre, "history": hist, "Offset": off}
	})
}

// c12Big: the same calls on lists of 1000..300007 positions and bitmaps of thousands of words (lengths that are
// no multiple of any small number): Of, ToArray round trip, OfMany over thousands of segments, one Builder fed
// thousands of segments.
func c12Big(w *mon.W, idx int) {
	r := w.Rng
	n := []int{1000, 4096, 4099, 10007, 65537, 100003, 300007}[idx%7]
	gap := r.Pick(1, 2, 3, 7, 64, 200)
	l := make([]int32, 0, n)
	p := r.Intn(100)
	for i := 0; i < n; i++ {
		l = append(l, int32(p))
		p += 1 + r.Intn(gap)
	}
	last := int(l[n-1])
	w.Bucket("lists>=1000-positions")
	in := append([]int32(nil), l...)
	w.Op, w.A, w.Obj = "Of(big)", int64(n), nil
	var got []uint64
	nbits := last + 1
	if idx%2 == 0 {
		got = bitmap.Of(l)
	} else {
		nbits = last + 1 + r.Intn(300)
		got = bitmap.Of(l, int32(nbits))
	}
	w.Eval(1)
	exp := c12ExpectWords(in, nbits)
	if !eqI32(in, l) {
		w.Fail("Of/input-modified", mon.D{"positions": n})
		return
	}
	if !eqWords(got, exp) {
		at := 0
		for at < len(got) && at < len(exp) && got[at] == exp[at] {
			at++
		}
		w.Fail("Of/big-list", mon.D{"positions": n, "first": trunc32(in, 6), "got_words": len(got), "expected_words": len(exp), "first_different_word": at})
		return
	}
	w.Op = "ToArray(big)"
	arr := bitmap.ToArray(got)
	w.Eval(1)
	if !eqI32(arr, in) {
		at := 0
		for at < len(arr) && at < len(in) && arr[at] == in[at] {
			at++
		}
		w.Fail("ToArray/big-bitmap", mon.D{"words": len(got), "got_len": len(arr), "expected_len": len(in), "first_different_element": at})
		return
	}
	// OfMany / Builder: cut the same set into segments of random sizes
	var subs [][]int32
	var sizes []int32
	b := bitmap.NewBuilder(int32(r.Pick(0, 64, nbits)))
	base, i := 0, 0
	for base <= last {
		sz := 1 + r.Intn(r.Pick(3, 64, 130, 1000))
		var sub []int32
		for i < n && int(in[i]) < base+sz {
			sub = append(sub, in[i]-int32(base))
			i++
		}
		subs = append(subs, sub)
		sizes = append(sizes, int32(sz))
		b.Extend(sub, int32(sz))
		base += sz
	}
	w.Op, w.A = "OfMany(big)", int64(len(subs))
	many := bitmap.OfMany(subs, sizes)
	w.Eval(2)
	expM := c12ExpectWords(in, base)
	if !eqWords(many, expM) {
		w.Fail("OfMany/many-segments", mon.D{"segments": len(subs), "positions": n, "got_words": len(many), "expected_words": len(expM)})
		return
	}
	if int(b.Offset) != base || !eqWords(trimZeros(cloneWords(b.Words)), trimZeros(expM)) || 64*len(b.Words) < base {
		w.Fail("Builder/many-segments", mon.D{"segments": len(subs), "positions": n, "Offset": b.Offset, "expected_Offset": base, "len_Words": len(b.Words)})
		return
	}
	w.Distinct(gen.Hash64(hashI32(in), uint64(nbits), hashI32(sizes)))
	w.Sample(func() interface{} {
		return mon.D{"call": "Of/ToArray/OfMany/Builder on a big list", "positions": n, "segments": len(subs)}
	})
}

// c12Huge: membership probes on bitmaps of 2^25-1 and 2^25 words (2^31 bits): every int32 position
// is inside, the bit count itself no longer fits an int32. Untouched pages cost no memory.
func c12Huge(w *mon.W, _ int) {
	big := make([]uint64, 1<<25)
	set := []int32{0, 63, 64, 1 << 20, 1<<30 + 3, 1<<31 - 130, 1<<31 - 65, 1<<31 - 64, 1<<31 - 1}
	for _, p := range set {
		setBit(big, int(p))
	}
	member := map[int32]bool{}
	for _, p := range set {
		member[p] = true
	}
	for _, nw := range []int{1<<25 - 1, 1 << 25} {
		bm := big[:nw]
		for _, p := range []int32{0, 1, 63, 64, 65, 1 << 20, 1<<20 + 1, 1<<30 + 3, 1<<30 + 4, 1<<31 - 131, 1<<31 - 130, 1<<31 - 66, 1<<31 - 65, 1<<31 - 64, 1<<31 - 63, 1<<31 - 2, 1<<31 - 1, -1, -64, -1 << 31} {
			inside := p >= 0 && int64(p) < 64*int64(nw)
			var e1 uint64
			if inside && member[p] {
				e1 = 1
			}
			e := e1 << uint(uint32(p)&63)
			w.Op, w.A, w.B = "SafeGet(huge)", int64(p), int64(nw)
			if g, g1 := bitmap.SafeGet(bm, p), bitmap.SafeGet1(bm, p); g != e || g1 != e1 {
				w.Fail("SafeGet/huge-bitmap", mon.D{"nwords": nw, "i": p, "SafeGet": fmt.Sprintf("%#x", g), "SafeGet1": g1, "expected_member": e1 == 1})
				return
			}
			if inside {
				w.Op = "Get(huge)"
				if g, g1 := bitmap.Get(bm, p), bitmap.Get1(bm, p); g != e || g1 != e1 {
					w.Fail("Get/huge-bitmap", mon.D{"nwords": nw, "i": p, "Get": fmt.Sprintf("%#x", g), "Get1": g1, "expected_member": e1 == 1})
					return
				}
			}
			w.Eval(4)
		}
		w.Tick()
	}
	w.Bucket("probe/bitmap>=2^31-bits")
	w.Distinct(gen.Hash64(0x12b16, 1))
	w.Sample(func() interface{} { return mon.D{"nwords": []int{1<<25 - 1, 1 << 25}, "set_bits": set} })
}

// c12Top (round 12): position lists that end at the largest positions an int32 can name (last+1 = 2^31 is no int32) and
// the bitmaps of 2^25 words that go with them: Of, ToArray, the round trips, Builder.
func c12Top(w *mon.W, _ int) {
	const top = int32(1<<31 - 1)
	for li, l := range [][]int32{{0, top}, {5, 64, 1 << 30, top - 64, top - 1}, {top - 63}, {top}, {3, top - 2, top - 1, top}} {
		nbits := int64(l[len(l)-1]) + 1
		nw := int((nbits + 63) / 64)
		for variant := 0; variant < 3; variant++ {
			var got []uint64
			w.Op, w.A, w.B = "Of(positions up to MaxInt32)", int64(li), int64(variant)
			switch variant {
			case 0:
				got = bitmap.Of(l)
			case 1:
				got = bitmap.Of(l, top) // a size that is itself the largest int32
				if int64(top) > nbits {
					nw = int((int64(top) + 63) / 64)
				}
			default:
				got = bitmap.Of(l, 0)
			}
			w.Tick()
			if len(got) != nw {
				w.Fail("Of/word-count/top-of-int32", mon.D{"positions": l, "variant": variant, "got_words": len(got), "expected_words": nw})
				return
			}
			pop := 0
			for k, x := range got {
				if x != 0 {
					for b := 0; b < 64; b++ {
						if x>>uint(b)&1 == 1 {
							pop++
							p := int64(k)*64 + int64(b)
							found := false
							for _, q := range l {
								if int64(q) == p {
									found = true
								}
							}
							if !found {
								w.Fail("Of/bits/top-of-int32", mon.D{"positions": l, "stray_bit": p})
								return
							}
						}
					}
				}
			}
			if pop != len(l) {
				w.Fail("Of/bits/top-of-int32", mon.D{"positions": l, "bits_set": pop})
				return
			}
			w.Tick()
			// (ToArray walks all 2^31 bits one by one, about two seconds: quick does it for two of the lists)
			if variant == 0 && (w.Cfg.Thorough() || li == 0 || li == 4) {
				w.Op = "ToArray(bitmap of up to 2^31 bits)"
				back := bitmap.ToArray(got)
				w.Tick()
				if !eqI32(back, l) {
					w.Fail("ToArray(Of(l))!=l/top-of-int32", mon.D{"positions": l, "nwords": len(got), "got": trunc32(back, 12)})
					return
				}
			}
			w.Eval(2)
			for _, p := range l {
				if bitmap.Get1(got, p) != 1 || bitmap.SafeGet1(got, p) != 1 || bitmap.Get(got, p) == 0 || bitmap.SafeGet(got, p) == 0 {
					w.Fail("Get/top-of-int32", mon.D{"positions": l, "i": p})
					return
				}
			}
		}
	}
	w.Bucket("positions-up-to-maxint32")
	w.Distinct(gen.Hash64(0x2b12, 5))
	w.Sample(func() interface{} {
		return mon.D{"what": "Of / ToArray / Get* on lists ending at MaxInt32 (bitmaps of 2^25 words)"}
	})
}
