package props

import (
	"bytes"
	"fmt"
	"reflect"
	"strings"

	"github.com/golang/protobuf/ptypes/wrappers"
	"github.com/openacid/low/bitmap"
	"github.com/openacid/low/bitstr"
	"github.com/openacid/low/bitword"
	"github.com/openacid/low/bmtree"
	"github.com/openacid/low/pbcmpl"
	"github.com/openacid/low/sigbits"
	"github.com/openacid/low/size"

	"verif/internal/gen"
	"verif/internal/mon"
)

// Long runs (added after seeded round 11). The properties are statements about single calls; a monitor that checks
// every call on a fresh input against the specification, however many inputs it tries, never sees a defect that needs
// a HISTORY inside one long-lived process: a generation stamp that wraps after 2^16 (or 2^8) calls and makes stale
// slots of a recycled table valid again, a bounded cache whose eviction leaves a stale index entry, a counter packed
// next to a payload that overflows into it at the n-th identical query, a mode switched by the statistics of the
// preceding calls. Round 11 seeded all of these. A long run takes a few dozen to a few thousand FIXED calls (small
// arguments, kept by the harness), determines the expected result of each once (from the harness's model where one is
// at hand, otherwise from the first execution - the same functions are checked against their models on fresh inputs by
// every other family), and then makes >= 100 000 calls per function (600 000 in the thorough tier) in an order that
// mixes immediate repetitions, A-B-A alternations, random jumps and complete round-robin sweeps (a sweep separates two
// visits of a call by all the others: more than 1024 distinct ones for PathStr). Every result must equal the expected
// one: `<function>/result-changed-in-a-long-run`, with the number of calls made so far. Arguments are compared before
// and after.

type lrCall struct {
	fn   string        // function (group): calls of one group are counted together
	desc string        // the call written out
	run  func() uint64 // hash of everything the call returns
	exp  func() uint64 // optional: the same hash from the harness's model
}

// lrBig marks calls[from:] as calls on distinctly larger arguments than the rest of their group (period probes).
func lrBig(calls []lrCall, from int) {
	for i := from; i < len(calls); i++ {
		calls[i].desc = "[big] " + calls[i].desc
	}
}

func lrIters(w *mon.W) int { return w.Cfg.Pick(100000, 600000) }

// lrNoise returns calls to the OTHER public functions of the packages a property lives in (results discarded): a long
// run is interleaved with them, because whatever a function keeps between calls may be shared with its neighbours (round
// 11 seeded one scratch free list used by the rank and the select index builders under different assumptions).
func lrNoise(r *gen.Rand, pkg string) []func() {
	bms := lrBitmaps(r)
	keys := lrKeyLists(r)
	var out []func()
	switch pkg {
	case "bitmap":
		for _, bm := range bms {
			bm := bm
			out = append(out, func() { bitmap.IndexSelect32(bm) }, func() { bitmap.IndexSelect32R64(bm) }, func() { bitmap.IndexRank64(bm, true) }, func() { bitmap.IndexRank128(bm) },
				func() { bitmap.Of(bitmap.ToArray(bm)) }, func() { bitmap.Slice(bm, 3, int32(64*len(bm)-1)) }, func() { bitmap.NextOne(bm, 0, int32(64*len(bm))) }, func() { bitmap.Join(bm, 16) })
		}
		// packages that are built on this one are neighbours too: whatever they do to its tables happens in the same program
		for k := 0; k < 12; k++ {
			h := 1 + r.Intn(10)
			mask := int32(1)<<uint(h) | int32(r.Intn(1<<uint(h)))
			idx := int32(r.Intn(1<<uint(h+1) - 1))
			out = append(out, func() { bmtree.PathToIndexLoose(mask, bmtree.IndexToPath(int32(h), idx)) }, func() { bmtree.Decode(mask, []uint64{^uint64(0), 0x5555}) },
				func() { bitstr.New("neighbour", 3, 61) })
		}
	case "bmtree":
		for k := 0; k < 40; k++ {
			h := 1 + r.Intn(10)
			mask := int32(1)<<uint(h) | int32(r.Intn(1<<uint(h)))
			to := uint64(r.Intn(1<<uint(h)))<<32 | 0xffffffff
			idx := int32(r.Intn(1<<uint(h+1) - 1))
			l := keys[k%len(keys)]
			out = append(out, func() { bmtree.AllPaths(mask, 0, to) }, func() { bmtree.AllPaths(mask, 0, 1<<63) }, func() { bmtree.Decode(mask, []uint64{^uint64(0), 0x5555}) },
				func() { bmtree.PathStr(bmtree.IndexToPath(int32(h), idx)) }, func() { bmtree.PathsOf(l, 3, int32(h), true) }, func() { bmtree.PathToIndexLoose(mask, bmtree.IndexToPath(int32(h), idx)) })
		}
	case "sigbits":
		for _, l := range keys {
			l := l
			sb := sigbits.New(l)
			out = append(out, func() { sigbits.FirstDiffBits(l) }, func() { sigbits.ShardByPrefix(l, 7) }, func() { sigbits.New(l).CountPrefixes(0, int32(len(l)), 9) }, func() { sb.CountPrefixes(0, int32(len(l)), 16) })
		}
	case "strings":
		for _, l := range keys[:12] {
			for _, s := range l[:min(2, len(l))] {
				s := s
				if s == "" {
					continue
				}
				e := bitstr.New(s, 0, int32(8*len(s)))
				out = append(out, func() { bitstr.New(s, 1, int32(8*len(s))) }, func() { bitstr.StrCmpUpto(s+"x", e) }, func() { bitstr.Cmp(e, e) },
					func() { bitword.BitWord[4].ToStrs(bitword.BitWord[4].FromStrs([]string{s, s + "q"})) }, func() { bitword.BitWord[2].FirstDiff(s, s+"z", 0, -1) })
			}
		}
	}
	return out
}

// longRun executes the calls of every group; returns false after a violation.
func longRun(w *mon.W, calls []lrCall, inputsDigest func() uint64, noisePkg ...string) bool {
	var noise []func()
	for _, p := range noisePkg {
		noise = append(noise, lrNoise(w.Rng, p)...)
	}
	d0 := inputsDigest()
	groups := map[string][]int{}
	var order []string
	for i, c := range calls {
		if _, ok := groups[c.fn]; !ok {
			order = append(order, c.fn)
		}
		groups[c.fn] = append(groups[c.fn], i)
	}
	base := make([]uint64, len(calls))
	for i, c := range calls {
		w.Op = "long run, first execution of " + c.desc
		base[i] = c.run()
		if c.exp != nil {
			if e := c.exp(); e != base[i] {
				w.Fail(c.fn+"/wrong-result-at-start-of-long-run", mon.D{"call": c.desc, "hash": fmt.Sprintf("%016x", base[i]), "model_hash": fmt.Sprintf("%016x", e)})
				return false
			}
		}
	}
	r := w.Rng
	iters := lrIters(w)
	var total int64
	for _, g := range order {
		ids := groups[g]
		n := 0
		quiet := false // no neighbouring calls during the period probes
		check := func(i int) bool {
			c := calls[i]
			w.Op = "long run " + c.desc
			n++
			if h := c.run(); h != base[i] {
				w.Fail(g+"/result-changed-in-a-long-run", mon.D{"call": c.desc, "calls_of_this_function_so_far": n, "first_hash": fmt.Sprintf("%016x", base[i]), "hash_now": fmt.Sprintf("%016x", h),
					"distinct_calls_in_rotation": len(ids), "what": "a call with fixed arguments returned something else than it did at the start of the run"})
				return false
			}
			if n&1023 == 0 {
				w.Tick()
			}
			if len(noise) > 0 && n&7 == 0 && !quiet {
				w.Op = "long run (a neighbouring function between two checked calls)"
				noise[r.Intn(len(noise))]()
			}
			return true
		}
		for n < iters {
			switch r.Intn(4) {
			case 0: // the same call several times in a row
				i := ids[r.Intn(len(ids))]
				for k := 2 + r.Intn(14); k > 0; k-- {
					if !check(i) {
						return false
					}
				}
			case 1: // A B A B A
				a, b := ids[r.Intn(len(ids))], ids[r.Intn(len(ids))]
				for k := 0; k < 5; k++ {
					i := a
					if k&1 == 1 {
						i = b
					}
					if !check(i) {
						return false
					}
				}
			case 2: // random jumps
				for k := 0; k < 64; k++ {
					if !check(ids[r.Intn(len(ids))]) {
						return false
					}
				}
			default: // one complete sweep, forwards or backwards
				back := r.Bool()
				for k := range ids {
					i := ids[k]
					if back {
						i = ids[len(ids)-1-k]
					}
					if !check(i) {
						return false
					}
				}
			}
		}
		// Period probes: a big call A, then exactly K small calls, then another big call B - for K around the periods of
		// 8- and 16-bit counters. A generation stamp that wraps revives what A left in a recycled table precisely K+1 calls
		// later, and only if nothing in between touched it (round 11: a uint8 generation whose wrap-around reset cleared
		// only the part of the table the current call uses).
		var bigs, smalls []int
		for _, i := range ids {
			if strings.HasPrefix(calls[i].desc, "[big] ") {
				bigs = append(bigs, i)
			} else {
				smalls = append(smalls, i)
			}
		}
		if len(bigs) >= 2 && len(smalls) > 0 {
			quiet = true
			ks := []int{253, 254, 255, 256, 257, 509, 510, 511, 65534, 65535, 65536}
			if w.Cfg.Thorough() {
				ks = append(ks, 127, 128, 252, 258, 512, 1023, 1024, 65533, 65537, 131071)
			}
			for _, k := range ks {
				for rep := 0; rep < 3; rep++ {
					a := bigs[r.Intn(len(bigs))]
					b := bigs[r.Intn(len(bigs))]
					if a == b {
						b = bigs[(r.Intn(len(bigs)-1)+1+indexOf(bigs, a))%len(bigs)]
					}
					if !check(a) {
						return false
					}
					s1 := smalls[r.Intn(len(smalls))]
					for j := 0; j < k; j++ {
						if j&15 == 0 {
							s1 = smalls[r.Intn(len(smalls))]
						}
						if !check(s1) {
							return false
						}
					}
					if !check(b) || !check(a) {
						return false
					}
					if k > 2000 {
						break
					}
				}
			}
			w.Bucket("long-run/period-probes")
		}
		total += int64(n)
		w.Bucket("long-run/" + g)
	}
	if inputsDigest() != d0 {
		w.Fail("long-run/arguments-modified", mon.D{})
		return false
	}
	w.Eval(total)
	w.Extra("long_run_calls", total)
	w.Bucket("long-run/calls>=100000-per-function")
	w.Distinct(gen.Hash64(0x10b6, uint64(len(calls)), d0))
	w.Sample(func() interface{} {
		return mon.D{"fixed_calls": len(calls), "functions": order, "calls_per_function": iters, "example": calls[0].desc}
	})
	return true
}

// The long run is Serial and comes right after the cold-start family: a free list or pool the library keeps has then
// been filled by nobody else, sequential use gets the same entry back every time, and a per-entry generation counter
// sees every call (behind 16 parallel workers the calls spread over as many entries as the pool holds).
func lrFamily(run func(w *mon.W, idx int)) mon.Family {
	return mon.Family{Name: "long-run", N: 1, Serial: true, Early: true, NoCold: true, NoRepeat: true, Run: run}
}

func h2(a, b int32) uint64 { return gen.Hash64(uint64(uint32(a)), uint64(uint32(b))) }

// ---- bitmaps: C01 C02 C12 C13 C14 ---------------------------------------------------------------------------------

func lrBitmaps(r *gen.Rand) [][]uint64 {
	var bms [][]uint64
	for k := 0; k < 20; k++ {
		bms = append(bms, gen.ZooBitmap(r, 1+r.Intn(6)))
	}
	for _, nw := range []int{127, 130, 200, 70} { // around the sizes where scratch buffers of 64/128 entries are outgrown
		bm := gen.ZooBitmap(r, nw)
		bm[nw-1] |= 1 << 63
		bms = append(bms, bm)
	}
	sparse := make([]uint64, 1024) // one 1-bit every 16 words, and one lone word in the 7th slot of a block of 8
	for i := 0; i < 1024; i += 16 {
		sparse[i] = 1 << uint(i%64)
	}
	sparse[1000+6] = 1 << 9
	bms = append(bms, sparse)
	return bms
}

func lrDigestW(bms [][]uint64) func() uint64 {
	return func() uint64 {
		h := uint64(len(bms))
		for _, b := range bms {
			h = gen.Hash64(h, gen.HashWords(b))
		}
		return h
	}
}

func lrNaiveRank(bm []uint64, i int) int32 {
	var c int32
	for p := 0; p < i; p++ {
		c += int32(bitAt(bm, p))
	}
	return c
}

func c01LongRun(w *mon.W, _ int) {
	bms := lrBitmaps(w.Rng)
	var calls []lrCall
	for bi, bm := range bms {
		n0 := len(calls)
		bm := bm
		d := fmt.Sprintf("(bitmap #%d of %d words)", bi, len(bm))
		if len(bm) > 210 {
			continue // (the long sparse bitmap is for the scans of C13)
		}
		// expected indexes by counting
		var e64, e64t, e128 []int32
		var c int32
		for k := range bm {
			e64 = append(e64, c)
			if k&1 == 0 {
				e128 = append(e128, c)
			}
			for x := bm[k]; x != 0; x &= x - 1 {
				c++
			}
		}
		e64t = append(append([]int32(nil), e64...), c)
		if len(bm)&1 == 0 {
			e128 = append(e128, c)
		}
		calls = append(calls,
			lrCall{"IndexRank64", "IndexRank64" + d, func() uint64 { return hashI32(bitmap.IndexRank64(bm)) }, func() uint64 { return hashI32(e64) }},
			lrCall{"IndexRank64", "IndexRank64(trailing)" + d, func() uint64 { return hashI32(bitmap.IndexRank64(bm, true)) }, func() uint64 { return hashI32(e64t) }},
			lrCall{"IndexRank128", "IndexRank128" + d, func() uint64 { return hashI32(bitmap.IndexRank128(bm)) }, func() uint64 { return hashI32(e128) }})
		for q := 0; q < 3; q++ {
			i := w.Rng.Intn(64 * len(bm))
			er, eb := lrNaiveRank(bm, i), int32(bitAt(bm, i))
			calls = append(calls,
				lrCall{"Rank64", fmt.Sprintf("Rank64(%d)%s", i, d), func() uint64 { return h2(bitmap.Rank64(bm, e64, int32(i))) }, func() uint64 { return h2(er, eb) }},
				lrCall{"Rank128", fmt.Sprintf("Rank128(%d)%s", i, d), func() uint64 { return h2(bitmap.Rank128(bm, e128, int32(i))) }, func() uint64 { return h2(er, eb) }})
		}
		if len(bm) >= 70 {
			lrBig(calls, n0)
		}
	}
	longRun(w, calls, lrDigestW(bms), "bitmap")
}

func c02LongRun(w *mon.W, _ int) {
	bms := lrBitmaps(w.Rng)
	var calls []lrCall
	for bi, bm := range bms {
		n0 := len(calls)
		bm := bm
		d := fmt.Sprintf("(bitmap #%d of %d words)", bi, len(bm))
		if len(bm) > 210 {
			continue
		}
		var P, sidx, ridx []int32
		for k := range bm {
			ridx = append(ridx, int32(len(P)))
			for j := 0; j < 64; j++ {
				if bitAt(bm, 64*k+j) == 1 {
					if len(P)&31 == 0 {
						sidx = append(sidx, int32(64*k+j))
					}
					P = append(P, int32(64*k+j))
				}
			}
		}
		ridx = append(ridx, int32(len(P)))
		calls = append(calls,
			lrCall{"IndexSelect32", "IndexSelect32" + d, func() uint64 { return hashI32(bitmap.IndexSelect32(bm)) }, func() uint64 { return hashI32(sidx) }},
			lrCall{"IndexSelect32R64", "IndexSelect32R64" + d, func() uint64 {
				a, b := bitmap.IndexSelect32R64(bm)
				return gen.Hash64(hashI32(a), hashI32(b))
			}, func() uint64 { return gen.Hash64(hashI32(sidx), hashI32(ridx)) }})
		for q := 0; q < 3 && len(P) > 0; q++ {
			i := w.Rng.Intn(len(P))
			ea, eb := P[i], int32(64*len(bm))
			if i+1 < len(P) {
				eb = P[i+1]
			}
			calls = append(calls,
				lrCall{"Select32", fmt.Sprintf("Select32(%d)%s", i, d), func() uint64 { return h2(bitmap.Select32(bm, sidx, int32(i))) }, func() uint64 { return h2(ea, eb) }},
				lrCall{"Select32R64", fmt.Sprintf("Select32R64(%d)%s", i, d), func() uint64 { return h2(bitmap.Select32R64(bm, sidx, ridx, int32(i))) }, func() uint64 { return h2(ea, eb) }})
		}
		if len(bm) >= 70 {
			lrBig(calls, n0)
		}
	}
	longRun(w, calls, lrDigestW(bms), "bitmap")
}

func c13LongRun(w *mon.W, _ int) {
	bms := lrBitmaps(w.Rng)
	var calls []lrCall
	for bi, bm := range bms {
		n0 := len(calls)
		bm := bm
		n := 64 * len(bm)
		for q := 0; q < 6; q++ {
			i, end := w.Rng.Intn(n), w.Rng.Intn(n+1)
			if q < 2 { // long scans
				i, end = w.Rng.Intn(64), n-w.Rng.Intn(64)
			}
			if i > end {
				i, end = end, i
			}
			if i >= n {
				i = n - 1
			}
			en, ep := int32(-1), int32(-1)
			for p := i; p < end; p++ {
				if bitAt(bm, p) == 1 {
					if en < 0 {
						en = int32(p)
					}
					ep = int32(p)
				}
			}
			d := fmt.Sprintf("(bitmap #%d of %d words, %d, %d)", bi, len(bm), i, end)
			calls = append(calls, lrCall{"NextOne", "NextOne" + d, func() uint64 { return uint64(uint32(bitmap.NextOne(bm, int32(i), int32(end)))) }, func() uint64 { return uint64(uint32(en)) }})
			if end >= 1 {
				calls = append(calls, lrCall{"PrevOne", "PrevOne" + d, func() uint64 { return uint64(uint32(bitmap.PrevOne(bm, int32(i), int32(end)))) }, func() uint64 { return uint64(uint32(ep)) }})
			}
		}
		if len(bm) >= 70 {
			lrBig(calls, n0)
		}
	}
	longRun(w, calls, lrDigestW(bms), "bitmap")
}

func c12LongRun(w *mon.W, _ int) {
	r := w.Rng
	var lists [][]int32
	for k := 0; k < 24; k++ {
		var l []int32
		p := r.Intn(70)
		for j := r.Intn(12); j > 0; j-- {
			l = append(l, int32(p))
			p += 1 + r.Intn(90)
		}
		lists = append(lists, l)
	}
	for _, ft := range [][2]int{{0, 63}, {0, 127}, {10, 127}, {64, 191}, {0, 64}, {1, 70}} { // long contiguous runs
		var l []int32
		for p := ft[0]; p <= ft[1]; p++ {
			l = append(l, int32(p))
		}
		lists = append(lists, l)
	}
	var calls []lrCall
	for li, l := range lists {
		l := l
		nb := 0
		if len(l) > 0 {
			nb = int(l[len(l)-1]) + 1
		}
		exp := c12ExpectWords(l, nb)
		d := fmt.Sprintf("(list #%d: %d positions)", li, len(l))
		calls = append(calls,
			lrCall{"Of", "Of" + d, func() uint64 { return gen.HashWords(bitmap.Of(l)) }, func() uint64 { return gen.HashWords(exp) }},
			lrCall{"Of", "Of(n=last+65)" + d, func() uint64 { return gen.HashWords(bitmap.Of(l, int32(nb+64))) }, func() uint64 { return gen.HashWords(c12ExpectWords(l, nb+64)) }},
			lrCall{"ToArray", "ToArray(Of)" + d, func() uint64 { return hashI32(bitmap.ToArray(exp)) }, func() uint64 { return hashI32(append([]int32{}, l...)) }},
			lrCall{"OfMany", "OfMany(two segments)" + d, func() uint64 { return gen.HashWords(bitmap.OfMany([][]int32{l, l}, []int32{int32(nb), int32(nb)})) }, nil})
		if nb > 0 {
			p := int32(r.Intn(nb))
			calls = append(calls, lrCall{"Get/SafeGet", fmt.Sprintf("Get*(%d)%s", p, d), func() uint64 {
				return gen.Hash64(bitmap.Get(exp, p), bitmap.Get1(exp, p), bitmap.SafeGet(exp, p), bitmap.SafeGet1(exp, p), bitmap.SafeGet1(exp, p+int32(64*len(exp))), bitmap.SafeGet(exp, -1-p))
			}, func() uint64 {
				b := bitAt(exp, int(p))
				return gen.Hash64(b<<uint(p&63), b, b<<uint(p&63), b, 0, 0)
			}})
		}
	}
	longRun(w, calls, func() uint64 {
		h := uint64(0)
		for _, l := range lists {
			h = gen.Hash64(h, hashI32(l))
		}
		return h
	}, "bitmap")
}

func c14LongRun(w *mon.W, _ int) {
	r := w.Rng
	bms := lrBitmaps(r)[:22]
	var vals [][]uint64
	var calls []lrCall
	for k := 0; k < 21; k++ {
		width := int32([]int{1, 2, 4, 8, 16, 32, 64}[k%7])
		v := make([]uint64, 1+r.Intn(40))
		for i := range v {
			v[i] = r.Uint64()
		}
		vals = append(vals, v)
		d := fmt.Sprintf("(%d values, width %d)", len(v), width)
		calls = append(calls, lrCall{"Join", "Join" + d, func() uint64 { return gen.HashWords(bitmap.Join(v, width)) }, nil},
			lrCall{"Getw", "Getw(Join)" + d, func() uint64 {
				j := bitmap.Join(v, width)
				h := uint64(0)
				for i := range v {
					h = gen.Hash64(h, bitmap.Getw(j, int32(i), width))
				}
				return h
			}, func() uint64 {
				h := uint64(0)
				for i := range v {
					e := v[i]
					if width < 64 {
						e &= uint64(1)<<uint(width) - 1
					}
					h = gen.Hash64(h, e)
				}
				return h
			}})
	}
	for bi, bm := range bms {
		bm := bm
		n := 64 * len(bm)
		for q := 0; q < 3; q++ {
			from, to := r.Intn(n+1), r.Intn(n+1)
			if from > to {
				from, to = to, from
			}
			exp := make([]uint64, (to-from+63)/64)
			for j := 0; j < to-from; j++ {
				if bitAt(bm, from+j) == 1 {
					setBit(exp, j)
				}
			}
			calls = append(calls, lrCall{"Slice", fmt.Sprintf("Slice(bitmap #%d, %d, %d)", bi, from, to), func() uint64 { return gen.HashWords(bitmap.Slice(bm, int32(from), int32(to))) }, func() uint64 { return gen.HashWords(exp) }})
		}
	}
	longRun(w, calls, func() uint64 { return gen.Hash64(lrDigestW(bms)(), lrDigestW(vals)()) }, "bitmap")
}

// ---- bmtree: C03 C04 C10 C11 -----------------------------------------------------------------------------------------

func c03LongRun(w *mon.W, _ int) {
	r := w.Rng
	var calls []lrCall
	for k := 0; k < 48; k++ { // more distinct partial masks than a small cache of per-mask tables holds
		h := 2 + r.Intn(12)
		if k%8 == 7 {
			h = 14 + r.Intn(17)
		}
		top := uint32(1) << uint(h)
		mask := top | uint32(r.Uint64())&(top-1)
		switch k % 6 {
		case 0:
			mask = top<<1 - 1
		case 1:
			mask = top
		}
		for q := 0; q < 3; q++ {
			l := r.Intn(h + 1)
			prefix := r.Uint64() & (uint64(1)<<uint(l) - 1)
			p := bmPathWord(prefix, l, h)
			ei, has := bmWalkRank(mask, h, l, prefix)
			d := fmt.Sprintf("(%#b, path %0*b)", mask, l, prefix)
			eh := int32(0)
			if has {
				eh = 1
			}
			calls = append(calls, lrCall{"PathToIndexLoose", "PathToIndexLoose" + d, func() uint64 { return h2(bmtree.PathToIndexLoose(int32(mask), p)) }, func() uint64 { return h2(int32(ei), eh) }})
			if has {
				calls = append(calls, lrCall{"PathToIndex", "PathToIndex" + d, func() uint64 { return uint64(uint32(bmtree.PathToIndex(int32(mask), p))) }, func() uint64 { return uint64(uint32(int32(ei))) }})
			}
		}
	}
	longRun(w, calls, func() uint64 { return 0 }, "bmtree")
}

func c04LongRun(w *mon.W, _ int) {
	r := w.Rng
	var bms [][]uint64
	var calls []lrCall
	for k := 0; k < 40; k++ {
		h := 1 + r.Intn(8)
		top := uint32(1) << uint(h)
		mask := top | uint32(r.Uint64())&(top-1)
		if k%4 == 0 {
			mask = top<<1 - 1
		}
		list := c04List(mask, h)
		pick := func() uint64 {
			switch r.Intn(4) {
			case 0:
				return 0
			case 1:
				return 1 << 63
			case 2:
				return list[r.Intn(len(list))] + uint64(r.Intn(3)) - 1
			}
			return uint64(r.Intn(1<<uint(h)))<<32 | []uint64{0, 0xffffffff, 0x10, uint64(top)}[r.Intn(4)]
		}
		for q := 0; q < 3; q++ {
			from, to := pick(), pick()
			if q == 0 {
				from = 0 // a truncated enumeration from 0 and the complete one meet in the same rotation
			}
			if q == 2 {
				from, to = 0, 1<<63
			}
			exp := c04Filter(list, from, to)
			calls = append(calls, lrCall{"AllPaths", fmt.Sprintf("AllPaths(%#b, %#x, %#x)", mask, from, to), func() uint64 { return gen.HashWords(bmtree.AllPaths(int32(mask), from, to)) }, func() uint64 { return gen.HashWords(exp) }})
		}
		bm := make([]uint64, (len(list)+63)/64)
		var exp []uint64
		for i, p := range list {
			if r.Intn(3) != 0 {
				setBit(bm, i)
				exp = append(exp, p)
			}
		}
		bms = append(bms, bm)
		if len(bm) >= 2 { // a shorter bitmap of the same tree right before the complete one
			cut := 1 + r.Intn(len(bm)-1)
			var expS []uint64
			for i, p := range list {
				if i < 64*cut && bitAt(bm, i) == 1 {
					expS = append(expS, p)
				}
			}
			short := bm[:cut:cut]
			calls = append(calls, lrCall{"Decode", fmt.Sprintf("Decode(%#b, first %d of %d words)", mask, cut, len(bm)), func() uint64 { return gen.HashWords(bmtree.Decode(int32(mask), short)) }, func() uint64 { return gen.HashWords(append([]uint64{}, expS...)) }})
		}
		calls = append(calls, lrCall{"Decode", fmt.Sprintf("Decode(%#b, %d words)", mask, len(bm)), func() uint64 { return gen.HashWords(bmtree.Decode(int32(mask), bm)) }, func() uint64 { return gen.HashWords(append([]uint64{}, exp...)) }})
	}
	longRun(w, calls, lrDigestW(bms), "bmtree")
}

func c10LongRun(w *mon.W, _ int) {
	r := w.Rng
	var calls []lrCall
	add := func(h, l int, prefix uint64) {
		p := bmPathWord(prefix, l, h)
		txt := c10Text(prefix, l)
		d := fmt.Sprintf("(h=%d, %q)", h, txt)
		calls = append(calls, lrCall{"PathStr", "PathStr" + d, func() uint64 { return gen.HashStr(bmtree.PathStr(p)) }, func() uint64 { return gen.HashStr(txt) }})
		if len(calls)%16 == 0 {
			calls = append(calls, lrCall{"NewPath+accessors", "NewPath/PathLen/PathHeight/PathBits/PathMask" + d, func() uint64 {
				q := bmtree.NewPath(prefix<<uint(h-l), int32(l), int32(h))
				ph := uint64(bmtree.PathHeight(q))
				if l == 0 {
					ph = 0 // (the root path carries no height)
				}
				return gen.Hash64(q, uint64(bmtree.PathLen(q)), ph, bmtree.PathBits(q), bmtree.PathMask(q))
			}, func() uint64 {
				eh := uint64(h)
				if l == 0 {
					eh = 0
				}
				return gen.Hash64(p, uint64(l), eh, prefix<<uint(h-l), (uint64(1)<<uint(l)-1)<<uint(h-l))
			}})
		}
	}
	// every node of a height-10 tree (2047 paths: a sweep separates two visits of a path by 2046 others) and sampled tall ones
	bmPreorder(10, func(l int, prefix uint64) { add(10, l, prefix) })
	for k := 0; k < 300; k++ {
		h := 11 + r.Intn(22)
		l := r.Intn(h + 1)
		add(h, l, r.Uint64()&(uint64(1)<<uint(l)-1))
	}
	longRun(w, calls, func() uint64 { return 0 }, "bmtree")
}

func c11LongRun(w *mon.W, _ int) {
	r := w.Rng
	var lists [][]string
	for k := 0; k < 16; k++ {
		lists = append(lists, gen.SortedUnique(gen.KeyZoo(r, 1+r.Intn(10), r.Pick(1, 2, 3, 9))))
	}
	lists = append(lists, []string{"ab"}, []string{"aa", "aa", "ab", "ba", "ba"}, []string{"a", "a", "a", "a", "a", "a", "a", "a", "a", "b"})
	long := make([]string, 64) // one call whose result is many times shorter than its key list
	for i := range long {
		long[i] = "k" + string(rune('a'+i/16))
	}
	lists = append(lists, long)
	var calls []lrCall
	for li, l := range lists {
		n0 := len(calls)
		l := l
		for _, fh := range [][2]int{{0, 12}, {0, 16}, {8, 8}, {3, 5}, {0, 32}, {r.Intn(20), 1 + r.Intn(32)}} {
			from, h := fh[0], fh[1]
			for _, dd := range []bool{true, false} {
				dd := dd
				exp := c11PathsModel(l, from, h, dd)
				calls = append(calls, lrCall{"PathsOf", fmt.Sprintf("PathsOf(list #%d %.60q, %d, %d, %v)", li, l, from, h, dd), func() uint64 { return gen.HashWords(bmtree.PathsOf(l, int32(from), int32(h), dd)) }, func() uint64 { return gen.HashWords(exp) }})
			}
			s := l[r.Intn(len(l))]
			k, v := c11Bits(s, from, h)
			calls = append(calls, lrCall{"PathOf", fmt.Sprintf("PathOf(%q, %d, %d)", s, from, h), func() uint64 { return bmtree.PathOf(s, int32(from), int32(h)) }, func() uint64 { return c11PathWord(v, k, h) }})
			if h <= 32 {
				calls = append(calls, lrCall{"FromStr32", fmt.Sprintf("FromStr32(%q, %d, %d)", s, from, from+h), func() uint64 {
					a, b := bitmap.FromStr32(s, int32(from), int32(from+h))
					return gen.Hash64(uint64(uint32(a)), b)
				}, nil})
			}
		}
		if len(l) >= 64 {
			lrBig(calls, n0)
		}
	}
	longRun(w, calls, func() uint64 {
		h := uint64(0)
		for _, l := range lists {
			h = gen.Hash64(h, hashStrs(l))
		}
		return h
	}, "bmtree")
}

// ---- strings: C08 C09 C16 C17 -----------------------------------------------------------------------------------------

func c08LongRun(w *mon.W, _ int) {
	r := w.Rng
	var strs []string
	for k := 0; k < 24; k++ {
		strs = append(strs, string(gen.ZooBytes(r, r.Intn(9))))
	}
	strs = append(strs, "abc", "abd", "ab", "", "abcd")
	var calls []lrCall
	for _, n := range c08Widths {
		n := n
		bw := bitword.BitWord[n]
		for si, s := range strs {
			s := s
			ew := make([]byte, 8*len(s)/n)
			for j := range ew {
				ew[j] = c08Word(s, n, j)
			}
			d := fmt.Sprintf("(w=%d, %q)", n, s)
			calls = append(calls, lrCall{"FromStr", "FromStr" + d, func() uint64 { return gen.HashBytes(bw.FromStr(s)) }, func() uint64 { return gen.HashBytes(ew) }},
				lrCall{"ToStr", "ToStr(words of)" + d, func() uint64 { return gen.HashStr(bw.ToStr(ew)) }, func() uint64 { return gen.HashStr(c08Pack(ew, n)) }})
			if len(ew) > 0 {
				i := r.Intn(len(ew))
				calls = append(calls, lrCall{"Get", fmt.Sprintf("Get(%d)%s", i, d), func() uint64 { return uint64(bw.Get(s, i)) }, func() uint64 { return uint64(ew[i]) }})
			}
			t := strs[(si+1)%len(strs)]
			calls = append(calls, lrCall{"FirstDiff", fmt.Sprintf("FirstDiff(w=%d, %q, %q, 0, -1)", n, s, t), func() uint64 { return uint64(bw.FirstDiff(s, t, 0, -1)) }, nil})
		}
		for k := 0; k < 6; k++ {
			batch := []string{strs[r.Intn(len(strs))], strs[r.Intn(len(strs))], strs[r.Intn(len(strs))]}
			if k == 0 {
				batch = []string{"abc", "abd", "ab", "abcd"}
			}
			var raw [][]byte
			var es []string
			for _, s := range batch {
				e := make([]byte, r.Intn(9))
				for j := range e {
					e[j] = byte(r.Intn(1 << uint(n)))
				}
				if len(raw) > 0 && r.Bool() { // an element that extends its predecessor
					e = append(append([]byte{}, raw[len(raw)-1]...), e...)
				}
				raw = append(raw, e)
				es = append(es, c08Pack(e, n))
				_ = s
			}
			calls = append(calls, lrCall{"FromStrs", fmt.Sprintf("FromStrs(w=%d, %q)", n, batch), func() uint64 { return hashBB(bw.FromStrs(batch)) }, func() uint64 {
				var e [][]byte
				for _, s := range batch {
					x := make([]byte, 8*len(s)/n)
					for j := range x {
						x[j] = c08Word(s, n, j)
					}
					e = append(e, x)
				}
				return hashBB(e)
			}}, lrCall{"ToStrs", fmt.Sprintf("ToStrs(w=%d, %v)", n, raw), func() uint64 { return hashStrs(bw.ToStrs(raw)) }, func() uint64 { return hashStrs(es) }})
		}
	}
	longRun(w, calls, func() uint64 { return hashStrs(strs) }, "strings")
}

type c09Held struct {
	b []byte
	h uint64
}

func c09LongRun(w *mon.W, _ int) {
	r := w.Rng
	var srcs []string
	for k := 0; k < 14; k++ {
		srcs = append(srcs, string(gen.ZooBytes(r, 1+r.Intn(6))))
	}
	stem := strings.Repeat("k", 40)
	srcs = append(srcs, stem+"mmmm", stem+"zzzz", stem, stem[:33], stem+"mmmmmmmmmmmmmmmmmmmmmmmmmmmmmm") // keys beyond 32 bytes, prefixes of each other
	type enc struct {
		s        string
		from, to int
		b        []byte
		text     string
	}
	var encs []enc
	var calls []lrCall
	ring := make([]c09Held, 8192)
	ringN := 0
	for _, s := range srcs {
		s := s
		for q := 0; q < 2; q++ {
			from, to := 0, 8*len(s)-r.Intn(8)
			if q == 1 {
				from, to = r.Intn(8*len(s)+1), r.Intn(8*len(s)+1)
				if from > to {
					from, to = to, from
				}
			}
			// the caller KEEPS the slices New returned (they are the arguments of the Cmp / CmpUpto / Len calls below, for
			// the whole run, while 100 000 further New calls are made); keep is a private copy for the expected values
			e := enc{s, from, to, nil, c09Text(s, from, to)}
			e.b = bitstr.New(s, int32(from), int32(to))
			encs = append(encs, e)
			keep := append([]byte{}, e.b...)
			held := e.b
			calls = append(calls, lrCall{"New", fmt.Sprintf("New(%.50q, %d, %d)", s, from, to), func() uint64 {
				// every encoding New returns is the caller's for good: the last 8192 results are kept and all of them
				// are re-read every 2048 calls (an allocator that hands the same memory out twice shows here)
				b := bitstr.New(s, int32(from), int32(to))
				h := gen.HashBytes(b)
				ring[ringN&8191] = c09Held{b, h}
				ringN++
				if ringN&2047 == 0 {
					for _, x := range ring {
						if x.b != nil && gen.HashBytes(x.b) != x.h {
							return ^h // reported as a changed result
						}
					}
				}
				return h
			}, func() uint64 { return gen.HashBytes(keep) }},
				lrCall{"Len", fmt.Sprintf("Len(New(%.50q, %d, %d))", s, from, to), func() uint64 { return gen.Hash64(uint64(bitstr.Len(held)), gen.HashBytes(held)) }, func() uint64 { return gen.Hash64(uint64(len(e.text)), gen.HashBytes(keep)) }})
		}
	}
	for k := 0; k < 60; k++ {
		a, b := encs[r.Intn(len(encs))], encs[r.Intn(len(encs))]
		if k >= 30 { // long related pairs
			a, b = encs[len(encs)-1-r.Intn(10)], encs[len(encs)-1-r.Intn(10)]
		}
		ec := sign(strings.Compare(a.text, b.text))
		calls = append(calls, lrCall{"Cmp", fmt.Sprintf("Cmp(enc(%.44q,%d,%d), enc(%.44q,%d,%d))", a.s, a.from, a.to, b.s, b.from, b.to), func() uint64 { return uint64(int64(bitstr.Cmp(a.b, b.b))) }, func() uint64 { return uint64(int64(ec)) }})
		plain := srcs[r.Intn(len(srcs))]
		if k >= 30 {
			plain = srcs[len(srcs)-1-r.Intn(5)]
		}
		nb := len(b.text)
		eu := sign(strings.Compare(c09ByteText([]byte(plain), min(8*len(plain), nb)), b.text))
		pb := []byte(plain)
		calls = append(calls, lrCall{"CmpUpto", fmt.Sprintf("CmpUpto(%.44q, enc(%.44q,%d,%d))", plain, b.s, b.from, b.to), func() uint64 { return uint64(int64(bitstr.CmpUpto(pb, b.b))) }, func() uint64 { return uint64(int64(eu)) }},
			lrCall{"StrCmpUpto", fmt.Sprintf("StrCmpUpto(%.44q, enc(%.44q,%d,%d))", plain, b.s, b.from, b.to), func() uint64 { return uint64(int64(bitstr.StrCmpUpto(plain, b.b))) }, func() uint64 { return uint64(int64(eu)) }})
	}
	longRun(w, calls, func() uint64 {
		h := hashStrs(srcs)
		for _, e := range encs {
			h = gen.Hash64(h, gen.HashBytes(e.b))
		}
		return h
	}, "strings")
}

func lrKeyLists(r *gen.Rand) [][]string {
	var lists [][]string
	for k := 0; k < 18; k++ {
		lists = append(lists, gen.SortedUnique(gen.KeyZoo(r, 2+r.Intn(30), r.Pick(2, 3, 9, 17))))
	}
	for _, n := range []int{65, 66, 130, 200, 300} { // more than one block of 64 adjacent pairs
		lists = append(lists, gen.SortedUnique(gen.KeyZoo(r, n+r.Intn(40), r.Pick(3, 9))))
	}
	return lists
}

func c16LongRun(w *mon.W, _ int) {
	r := w.Rng
	lists := lrKeyLists(r)
	var calls []lrCall
	fdOf := func(l []string) []int32 {
		var fd []int32
		for i := 0; i+1 < len(l); i++ {
			fd = append(fd, int32(c16FirstDiff(l[i], l[i+1])))
		}
		return fd
	}
	// model: m0 = smallest first-difference bit in the range, counter i = number of distinct keys truncated to m0+i bits
	query := func(group string, sb *sigbits.SigBits, li int, l []string, fd []int32, s, e, m int) lrCall {
		m0 := int32(1 << 30)
		for i := s; i < e-1; i++ {
			if fd[i] < m0 {
				m0 = fd[i]
			}
		}
		ec := make([]int32, m)
		for i := 0; i < m; i++ {
			set := map[string]struct{}{}
			for _, k := range l[s:e] {
				set[c16Trunc(k, int(m0)+i)] = struct{}{}
			}
			ec[i] = int32(len(set))
		}
		return lrCall{group, fmt.Sprintf("SigBits(list #%d: %d keys).CountPrefixes(%d, %d, %d)", li, len(l), s, e, m), func() uint64 {
			a, b := sb.CountPrefixes(int32(s), int32(e), int32(m))
			return gen.Hash64(uint64(uint32(a)), hashI32(b))
		}, func() uint64 { return gen.Hash64(uint64(uint32(m0)), hashI32(ec)) }}
	}
	for li, l := range lists {
		l := l
		n0 := len(calls)
		fd := fdOf(l)
		calls = append(calls, lrCall{"FirstDiffBits", fmt.Sprintf("FirstDiffBits(list #%d: %d keys)", li, len(l)), func() uint64 { return hashI32(sigbits.FirstDiffBits(l)) }, func() uint64 { return hashI32(append([]int32{}, fd...)) }})
		if len(l) >= 65 {
			lrBig(calls, n0)
		}
		if len(l) < 2 {
			continue
		}
		sb := sigbits.New(l) // one object per list
		for q := 0; q < 8; q++ {
			s := r.Intn(len(l) - 1)
			e := s + 2 + r.Intn(len(l)-s-1)
			if q < 2 {
				s, e = 0, len(l)
			}
			if q >= 5 && s+3 <= len(l) {
				e = s + 2 + r.Intn(2)
			}
			calls = append(calls, query("CountPrefixes", sb, li, l, fd, s, e, r.Pick(1, 2, 8, 16, 16, 20, 64)))
		}
	}
	// ONE long-lived object that serves a whole group of queries: a few wide ones (the big calls of the period probes)
	// and many narrow ones that read counters they do not write
	{
		l := gen.SortedUnique(gen.KeyZoo(r, 300, 9))
		lists = append(lists, l)
		fd := fdOf(l)
		sb := sigbits.New(l)
		n := len(l)
		n0 := len(calls)
		for _, q := range [][3]int{{0, n, 16}, {0, n, 64}, {0, n / 2, 20}, {n / 3, n, 12}} {
			calls = append(calls, query("CountPrefixes(one long-lived SigBits)", sb, len(lists)-1, l, fd, q[0], q[1], q[2]))
		}
		lrBig(calls, n0)
		for q := 0; q < 14; q++ {
			s := r.Intn(n - 3)
			calls = append(calls, query("CountPrefixes(one long-lived SigBits)", sb, len(lists)-1, l, fd, s, s+2+r.Intn(2), r.Pick(16, 16, 20, 64, 8, 1)))
		}
	}
	// a third object, over 1500 keys, whose FIRST queries move from left to right with growing right ends (whatever the
	// object computes lazily is then extended call by call; a watermark that skipped the pair at the previous right end
	// was seeded); later the same queries come in any order
	{
		var raw []string
		for len(raw) < 1500 {
			raw = append(raw, gen.KeyZoo(r, 64, 9)...)
		}
		l := gen.SortedUnique(raw)
		lists = append(lists, l)
		fd := fdOf(l)
		sb := sigbits.New(l)
		n := len(l)
		for _, q := range [][2]int{{0, 10}, {5, n / 8}, {n/8 - 3, n / 3}, {n/3 - 1, n / 2}, {n / 4, n/2 + 7}, {n/2 + 6, n - 100}, {n - 120, n}, {0, n}} {
			calls = append(calls, query("CountPrefixes(object queried left to right first)", sb, len(lists)-1, l, fd, q[0], q[1], r.Pick(8, 16, 20)))
		}
	}
	longRun(w, calls, func() uint64 {
		h := uint64(0)
		for _, l := range lists {
			h = gen.Hash64(h, hashStrs(l))
		}
		return h
	}, "sigbits")
}

func c17LongRun(w *mon.W, _ int) {
	r := w.Rng
	lists := lrKeyLists(r)
	// every (list, maxSize) is first verified clause by clause by the ordinary checker
	var calls []lrCall
	for li, l := range lists {
		n0 := len(calls)
		l := l
		for _, ms := range []int{1, 2, 3, 5, 8, 20, 64, 100, len(l), len(l) + 1} {
			ms := ms
			if !c17Check(w, l, ms) {
				return
			}
			calls = append(calls, lrCall{"ShardByPrefix", fmt.Sprintf("ShardByPrefix(list #%d: %d keys, %d)", li, len(l), ms), func() uint64 {
				a, b := sigbits.ShardByPrefix(l, int32(ms))
				return gen.Hash64(hashI32(a), hashI32(b))
			}, nil})
		}
		if len(l) >= 65 {
			lrBig(calls, n0)
		}
	}
	longRun(w, calls, func() uint64 {
		h := uint64(0)
		for _, l := range lists {
			h = gen.Hash64(h, hashStrs(l))
		}
		return h
	}, "sigbits")
}

// ---- C20, C06 ---------------------------------------------------------------------------------------------------------

type lrWide struct {
	A0, A1, A2, A3, A4, A5, A6, A7, A8, A9           int64
	B0, B1, B2, B3, B4, B5, B6, B7, B8, B9           int32
	C0, C1, C2, C3, C4, C5, C6, C7, C8, C9           bool
	D0, D1, D2, D3, D4, D5, D6, D7, D8, D9           float64
	E0, E1, E2, E3, E4, E5, E6, E7, E8, E9           uint16
	F0, F1, F2, F3, F4, F5, F6, F7, F8, F9           int8
	G0, G1, G2, G3                                   uint64
	S64                                              string // field number 64
	S65                                              []int32
	S66                                              map[string]int8
	S67                                              *int64
	S68                                              interface{}
	T0, T1, T2, T3, T4, T5, T6, T7, T8, T9, T10, T11 uint8
}

func c20LongRun(w *mon.W, _ int) {
	r := w.Rng
	var vals []interface{}
	var exps []int
	add := func(x interface{}) {
		vals = append(vals, x)
		exps = append(exps, c20Literal(reflect.ValueOf(x)))
	}
	x := int64(7)
	add(lrWide{S64: "sixty-four", S65: []int32{1, 2, 3}, S66: map[string]int8{"a": 1, "bc": 2}, S67: &x, S68: "iface"})
	add(&lrWide{S64: "p", S65: make([]int32, 100), S68: []string{"x", "yy"}})
	add([]lrWide{{S64: "a"}, {S64: "bb", S67: &x}})
	for k := 0; k < 30; k++ {
		switch k % 6 {
		case 0:
			add(make([]int32, r.Intn(50)))
		case 1:
			add(map[string][]uint16{"a": make([]uint16, r.Intn(9)), "bcd": nil, string(gen.ZooBytes(r, 5)): {1}})
		case 2:
			add(struct {
				A string
				B []string
				C *[3]int16
				D interface{}
			}{string(gen.ZooBytes(r, r.Intn(20))), []string{"a", "", "ccc"}, &[3]int16{1, 2, 3}, uint(3)})
		case 3:
			add([]interface{}{int8(1), "two", []byte{3}, nil, uintptr(4), &x})
		case 4:
			add([4][]string{{"a"}, nil, {"b", "c"}, {}})
		default:
			add(string(gen.ZooBytes(r, r.Intn(300))))
		}
	}
	var calls []lrCall
	for i, v := range vals {
		v, e := v, exps[i]
		calls = append(calls, lrCall{"size.Of", fmt.Sprintf("size.Of(value #%d of type %T)", i, v), func() uint64 { return uint64(size.Of(v)) }, func() uint64 { return uint64(e) }})
		if i%4 == 0 {
			calls = append(calls, lrCall{"size.Stat", fmt.Sprintf("size.Stat(value #%d of type %T, 3, 2)", i, v), func() uint64 { return gen.HashStr(strings.SplitN(size.Stat(v, 3, 2), "\n", 2)[0]) }, nil})
		}
	}
	longRun(w, calls, func() uint64 { return 0 })
}

func c06LongRun(w *mon.W, _ int) {
	r := w.Rng
	type fr struct {
		msg   *wrappers.BytesValue
		frame []byte
	}
	var frames []fr
	for _, n := range []int{0, 1, 33, 40, 60, 63, 64, 65, 100, 127, 128, 200, 255, 256, 1000, 1023, 1024, 1500, 2047, 5000, 40000, 65535, 65536, 70000} {
		m := &wrappers.BytesValue{Value: pbPayload(r, n)}
		var buf bytes.Buffer
		if _, err := pbcmpl.Marshal(&buf, m); err != nil {
			w.Fail("Marshal/error-on-valid-message", mon.D{"body": n, "err": err.Error()})
			return
		}
		frames = append(frames, fr{m, append([]byte{}, buf.Bytes()...)})
	}
	var calls []lrCall
	for _, f := range frames {
		f := f
		d := fmt.Sprintf("(BytesValue of %d bytes)", len(f.msg.Value))
		calls = append(calls, lrCall{"Marshal", "Marshal" + d, func() uint64 {
			var buf bytes.Buffer
			n, err := pbcmpl.Marshal(&buf, f.msg)
			return gen.Hash64(uint64(n), gen.HashBytes(buf.Bytes()), uint64(b2i(err == nil)), uint64(pbcmpl.Size(f.msg)), uint64(pbcmpl.HeaderSize(f.msg)))
		}, func() uint64 {
			return gen.Hash64(uint64(len(f.frame)), gen.HashBytes(f.frame), 1, uint64(len(f.frame)), 32)
		}}, lrCall{"Unmarshal", "Unmarshal" + d, func() uint64 {
			var m wrappers.BytesValue
			rd := bytes.NewReader(f.frame)
			n, ver, err := pbcmpl.Unmarshal(rd, &m)
			return gen.Hash64(uint64(n), gen.HashStr(ver), uint64(b2i(err == nil)), gen.HashBytes(m.Value), uint64(rd.Len()))
		}, func() uint64 {
			return gen.Hash64(uint64(len(f.frame)), gen.HashStr("1.0.0"), 1, gen.HashBytes(f.msg.Value), 0)
		}}, lrCall{"Unmarshal(cut)", "Unmarshal of a strict prefix" + d, func() uint64 {
			var m wrappers.BytesValue
			cut := len(f.frame) - 1 - len(f.msg.Value)/2
			n, _, err := pbcmpl.Unmarshal(bytes.NewReader(f.frame[:cut]), &m)
			return gen.Hash64(uint64(n), uint64(b2i(err == nil)))
		}, func() uint64 {
			return gen.Hash64(uint64(len(f.frame)-1-len(f.msg.Value)/2), 0)
		}}, lrCall{"ReadHeader", "ReadHeader" + d, func() uint64 {
			n, h, err := pbcmpl.ReadHeader(bytes.NewReader(f.frame))
			if err != nil || h == nil {
				return 1
			}
			return gen.Hash64(uint64(n), gen.HashStr(h.GetVersion()), uint64(h.GetHeaderSize()), uint64(h.GetBodySize()))
		}, nil})
	}
	longRun(w, calls, func() uint64 {
		h := uint64(0)
		for _, f := range frames {
			h = gen.Hash64(h, gen.HashBytes(f.frame), gen.HashBytes(f.msg.Value))
		}
		return h
	})
}

func indexOf(l []int, x int) int {
	for i, v := range l {
		if v == x {
			return i
		}
	}
	return 0
}
