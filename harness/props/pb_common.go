package props

import (
	"bufio"
	"bytes"
	"encoding/binary"
	"encoding/hex"
	"errors"
	"fmt"
	"io"
	"strings"
	"testing/iotest"

	proto "github.com/golang/protobuf/proto"
	"github.com/golang/protobuf/ptypes/wrappers"

	"verif/internal/gen"
)

// ---- messages ------------------------------------------------------------------------------

// pbLegacy is a legacy message: it brings its own Marshal/Unmarshal (like pbcmpl's header type).
type pbLegacy struct {
	Payload []byte
	// keep: Marshal returns the message's own slice instead of a copy, as many hand-written legacy types do
	// ("return m.buf, nil"). The slice stays the message's: whoever receives it must not write to it or keep it.
	keep bool
}

func (m *pbLegacy) Marshal() ([]byte, error) {
	if m.keep {
		return m.Payload, nil
	}
	return append([]byte(nil), m.Payload...), nil
}

// Unmarshal MERGES into the receiver, as golang/protobuf asks of a message's own Unmarshal ("should not reset the
// receiver"): proto.Unmarshal resets the message first, so a decode still yields exactly b.
func (m *pbLegacy) Unmarshal(b []byte) error { m.Payload = append(m.Payload, b...); return nil }
func (m *pbLegacy) Reset()                   { m.Payload = nil }
func (m *pbLegacy) String() string           { return fmt.Sprintf("legacy(%d)", len(m.Payload)) }
func (m *pbLegacy) ProtoMessage()            {}

type pbLegacyVer struct {
	pbLegacy
	Ver string
}

func (m *pbLegacyVer) GetVersion() string { return m.Ver }

// Size means something else for this type (say, a number of rows): nothing ties a method called Size to the length of
// what Marshal returns.
func (m *pbLegacyVer) Size() int { return 7 }

// pbBytesVer is a real protobuf message embedded in a versioned struct.
type pbBytesVer struct {
	*wrappers.BytesValue
	Ver string
}

func (m *pbBytesVer) GetVersion() string { return m.Ver }

const (
	pbKLegacy = iota
	pbKLegacyVer
	pbKBytes
	pbKString
	pbKBytesVer
	pbNKinds
)

var pbKindNames = []string{"legacy", "legacy+version", "BytesValue", "StringValue", "BytesValue+version"}

type pbCase struct {
	Kind    int
	Payload []byte
	Ver     string // only for versioned kinds
}

func (c pbCase) versioned() bool { return c.Kind == pbKLegacyVer || c.Kind == pbKBytesVer }

func (c pbCase) expVer() string {
	if c.versioned() {
		return c.Ver
	}
	return "1.0.0"
}

func (c pbCase) msg() proto.Message {
	switch c.Kind {
	case pbKLegacy, pbKLegacyVer:
		// the message owns a private copy of the payload with some spare capacity; for odd lengths its Marshal hands
		// out that very slice
		own := make([]byte, len(c.Payload), len(c.Payload)+48)
		copy(own, c.Payload)
		l := pbLegacy{Payload: own, keep: len(own)&1 == 1}
		if c.Kind == pbKLegacy {
			return &l
		}
		return &pbLegacyVer{l, c.Ver}
	case pbKBytes:
		return &wrappers.BytesValue{Value: c.Payload}
	case pbKString:
		return &wrappers.StringValue{Value: hex.EncodeToString(c.Payload)}
	default:
		return &pbBytesVer{&wrappers.BytesValue{Value: c.Payload}, c.Ver}
	}
}

func (c pbCase) empty() proto.Message {
	switch c.Kind {
	case pbKLegacy:
		return &pbLegacy{}
	case pbKLegacyVer:
		return &pbLegacyVer{}
	case pbKBytes:
		return &wrappers.BytesValue{}
	case pbKString:
		return &wrappers.StringValue{}
	default:
		return &pbBytesVer{&wrappers.BytesValue{}, ""}
	}
}

// body is the expected encoding of the message (proto.Marshal is trusted for real messages).
func (c pbCase) body() []byte {
	switch c.Kind {
	case pbKLegacy, pbKLegacyVer:
		return c.Payload
	}
	b, err := proto.Marshal(c.msg())
	if err != nil {
		panic("harness: proto.Marshal failed: " + err.Error())
	}
	return b
}

// sameMsg compares a decoded message with the original.
func (c pbCase) sameMsg(got proto.Message) bool {
	switch c.Kind {
	case pbKLegacy:
		return bytes.Equal(got.(*pbLegacy).Payload, c.Payload)
	case pbKLegacyVer:
		return bytes.Equal(got.(*pbLegacyVer).Payload, c.Payload)
	case pbKBytes:
		return bytes.Equal(got.(*wrappers.BytesValue).Value, c.Payload) && proto.Equal(got, c.msg())
	case pbKString:
		return got.(*wrappers.StringValue).Value == hex.EncodeToString(c.Payload) && proto.Equal(got, c.msg())
	default:
		return bytes.Equal(got.(*pbBytesVer).BytesValue.Value, c.Payload)
	}
}

// pbFrame is the frame model: 32 header bytes (version NUL padded, LE64 header size, LE64 body size) then the body.
func pbFrame(ver string, hsize, bsize uint64, body []byte) []byte {
	f := make([]byte, 32, 32+len(body))
	copy(f[:16], ver)
	binary.LittleEndian.PutUint64(f[16:], hsize)
	binary.LittleEndian.PutUint64(f[24:], bsize)
	return append(f, body...)
}

func (c pbCase) frame() []byte {
	b := c.body()
	return pbFrame(c.expVer(), 32, uint64(len(b)), b)
}

// pbVersion draws a version of exactly n bytes (n <= 16), interior NULs and high bytes allowed,
// never NUL-terminated.
// pbSpecialVersions: the default version, its prefixes and versions that merely START with it.
var pbSpecialVersions = []string{"1.0.0", "1.0.0-rc1", "1.0.0.1", "1.0.01", "1.0.0+build.0016", "1.0.", "1.0", "1", "1.0.0\x00x", "1.0.1", "01.0.0"}

var pbTextVersions = []string{"1.0.0-\u03b2", "\u00e9", "2.1.0-rc.\u00e9", "1.0.0-alpha.1.\u00fc", "1.\u03b2.0", "\u65e5\u672c", "v\U0001f600", "\U0001f600\U0001f600\U0001f600\U0001f600", "1.0\xce", "1.0\xe6\x97",
	"\xf0\x9f\x98", "a\x80", "\u00e9\x00\u00e9", "0123456789abcde\xc3", "0123456789abcd\u00e9", "\ufffd", "x\ufffd"}

func pbVersion(r *gen.Rand, n int) string {
	if n == 0 {
		return ""
	}
	if r.Intn(6) == 0 {
		// one version in six is related to DefaultVer; the requested length is only a hint then
		return pbSpecialVersions[r.Intn(len(pbSpecialVersions))]
	}
	if r.Intn(8) == 0 {
		// text versions: valid multi-byte UTF-8 at the end, in the middle, up to the full 16 bytes, and
		// truncated / invalid sequences at the end
		return pbTextVersions[r.Intn(len(pbTextVersions))]
	}
	v := make([]byte, n)
	for i := range v {
		switch r.Intn(6) {
		case 0:
			v[i] = 0
		case 1:
			v[i] = 0xff
		case 2:
			v[i] = '.'
		default:
			v[i] = '0' + byte(r.Intn(10))
		}
	}
	if v[n-1] == 0 {
		v[n-1] = '7'
	}
	return string(v)
}

func pbPayload(r *gen.Rand, n int) []byte {
	b := make([]byte, n)
	// cheap but position-identifying content
	x := r.Uint64()
	for i := range b {
		x = x*6364136223846793005 + 1442695040888963407
		b[i] = byte(x >> 56)
	}
	return b
}

// ---- readers and writers (the observation points) -----------------------------------------------

const (
	chWhole = iota
	chOne
	chRandom
	chEOFWithData
	chZeroReads
	chNModes
)

var chNames = []string{"whole", "one-byte", "random", "data+EOF", "zero-reads"}

// chunkReader delivers data in chunks and counts what it has delivered.
type chunkReader struct {
	data      []byte
	pos       int
	mode      int
	r         *gen.Rand
	errAfter  int   // deliver at most this many bytes (-1: all)
	err       error // error once errAfter bytes were delivered (nil: io.EOF at end of data)
	errWith   bool  // return err together with the last delivered data
	reads     int
	delivered int
}

func newChunkReader(data []byte, mode int, r *gen.Rand) *chunkReader {
	return &chunkReader{data: data, mode: mode, r: r, errAfter: -1}
}

func (c *chunkReader) Read(p []byte) (int, error) {
	c.reads++
	end := len(c.data)
	endErr := io.EOF
	if c.errAfter >= 0 && c.errAfter < end {
		end = c.errAfter
		endErr = c.err
	}
	if c.pos >= end {
		return 0, endErr
	}
	if len(p) == 0 {
		return 0, nil
	}
	n := len(p)
	switch c.mode {
	case chOne:
		n = 1
	case chRandom:
		n = 1 + c.r.Intn(7)
	case chZeroReads:
		if c.r.Intn(3) == 0 {
			return 0, nil
		}
		n = 1 + c.r.Intn(40)
	}
	if n > len(p) {
		n = len(p)
	}
	if n > end-c.pos {
		n = end - c.pos
	}
	copy(p, c.data[c.pos:c.pos+n])
	c.pos += n
	c.delivered += n
	if c.pos == end && (c.mode == chEOFWithData || c.errWith) {
		return n, endErr
	}
	return n, nil
}

// lenReader is a chunking reader that also has a Len() method meaning "bytes that can be read without waiting"
// (a FIFO, a ring buffer, a buffered pipe): less than what will eventually arrive.
type lenReader struct{ *chunkReader }

func (l lenReader) Len() int {
	if rem := len(l.data) - l.pos; rem < 4096 {
		return rem
	}
	return 4096
}

// stdReader is one of the reader types callers actually pass (the chunkReader above is ours): the functions under
// test take an io.Reader and must not behave differently for a particular dynamic type.
type stdReader struct {
	name     string
	r        io.Reader
	consumed func() int // bytes taken from the data so far, net of what a buffering wrapper still holds; -1 = not observable
}

func stdReaders(data []byte) []stdReader {
	mk := func(name string, wrap func(u *bytes.Reader) (io.Reader, func() int)) stdReader {
		u := bytes.NewReader(data)
		r, held := wrap(u)
		return stdReader{name, r, func() int {
			h := 0
			if held != nil {
				h = held()
				if h < 0 {
					return -1
				}
			}
			return len(data) - u.Len() - h
		}}
	}
	bufioOf := func(size int) func(u *bytes.Reader) (io.Reader, func() int) {
		return func(u *bytes.Reader) (io.Reader, func() int) {
			b := bufio.NewReaderSize(u, size)
			return b, b.Buffered
		}
	}
	unobservable := func() int { return -1 }
	buf := bytes.NewBuffer(append([]byte(nil), data...))
	strR := strings.NewReader(string(data))
	secR := io.NewSectionReader(bytes.NewReader(data), 0, int64(len(data)))
	return []stdReader{
		mk("*bytes.Reader", func(u *bytes.Reader) (io.Reader, func() int) { return u, nil }),
		{"*bytes.Buffer", buf, func() int { return len(data) - buf.Len() }},
		{"*strings.Reader", strR, func() int { return len(data) - strR.Len() }},
		mk("*bufio.Reader(16)", bufioOf(16)),
		mk("*bufio.Reader(32)", bufioOf(32)),
		mk("*bufio.Reader(4096)", bufioOf(4096)),
		mk("*io.LimitedReader", func(u *bytes.Reader) (io.Reader, func() int) { return io.LimitReader(u, int64(len(data))+100), nil }),
		{"*io.SectionReader", secR, func() int { p, _ := secR.Seek(0, io.SeekCurrent); return int(p) }},
		mk("io.MultiReader", func(u *bytes.Reader) (io.Reader, func() int) {
			return io.MultiReader(io.LimitReader(u, 7), io.LimitReader(u, 25), u), nil
		}),
		mk("iotest.OneByteReader", func(u *bytes.Reader) (io.Reader, func() int) { return iotest.OneByteReader(u), nil }),
		mk("iotest.HalfReader", func(u *bytes.Reader) (io.Reader, func() int) { return iotest.HalfReader(u), nil }),
		mk("iotest.DataErrReader", func(u *bytes.Reader) (io.Reader, func() int) { return iotest.DataErrReader(u), unobservable }),
		mk("*bufio.ReadWriter", func(u *bytes.Reader) (io.Reader, func() int) {
			b := bufio.NewReaderSize(u, 64)
			return bufio.NewReadWriter(b, bufio.NewWriter(io.Discard)), b.Buffered
		}),
	}
}

// stdWriter: the writer types callers actually pass. written() flushes what a buffering wrapper holds and returns
// everything that reached the sink (nil = not observable).
type stdWriter struct {
	name    string
	w       io.Writer
	written func() []byte
}

const nStdWriters = 8

// newStdWriter builds the i-th writer type (only the one asked for: the pipe starts a goroutine).
func newStdWriter(i int) stdWriter {
	switch i % nStdWriters {
	case 0:
		b := &bytes.Buffer{}
		return stdWriter{"*bytes.Buffer", b, b.Bytes}
	case 1, 2:
		sz := []int{0, 16, 4096}[i%nStdWriters]
		sink := &bytes.Buffer{}
		bw := bufio.NewWriterSize(sink, sz)
		return stdWriter{fmt.Sprintf("*bufio.Writer(%d)", sz), bw, func() []byte { bw.Flush(); return sink.Bytes() }}
	case 3:
		sb := &strings.Builder{}
		return stdWriter{"*strings.Builder", sb, func() []byte { return []byte(sb.String()) }}
	case 4:
		m1, m2 := &bytes.Buffer{}, &bytes.Buffer{}
		return stdWriter{"io.MultiWriter", io.MultiWriter(m1, m2), func() []byte {
			if !bytes.Equal(m1.Bytes(), m2.Bytes()) {
				return nil
			}
			return m1.Bytes()
		}}
	case 5:
		return stdWriter{"io.Discard", io.Discard, nil}
	case 6:
		pr, pw := io.Pipe()
		pbuf := &bytes.Buffer{}
		done := make(chan struct{})
		go func() { io.Copy(pbuf, pr); close(done) }()
		return stdWriter{"*io.PipeWriter", pw, func() []byte { pw.Close(); <-done; return pbuf.Bytes() }}
	default:
		rwSink := &bytes.Buffer{}
		rw := bufio.NewReadWriter(bufio.NewReader(strings.NewReader("")), bufio.NewWriterSize(rwSink, 64))
		return stdWriter{"*bufio.ReadWriter", rw, func() []byte { rw.Flush(); return rwSink.Bytes() }}
	}
}

// quotaWriter accepts exactly quota bytes in total and then fails with err. With transient set it
// fails only once: later calls are accepted again (a correct caller never makes them).
type quotaWriter struct {
	buf       bytes.Buffer
	quota     int // -1: unlimited
	eager     bool
	transient bool
	err       error
	writes    int
	failed    int
}

func (q *quotaWriter) Write(p []byte) (int, error) {
	q.writes++
	if q.quota < 0 || (q.transient && q.failed > 0) {
		return q.buf.Write(p)
	}
	room := q.quota - q.buf.Len()
	if len(p) < room || (len(p) == room && !q.eager) {
		return q.buf.Write(p)
	}
	// the quota is reached (eager) or exceeded within this call
	if len(p) == room && q.eager && len(p) == 0 {
		return 0, nil
	}
	q.buf.Write(p[:room])
	q.failed++
	return room, q.err
}

// pbCause unwraps err through Cause() and Unwrap() chains.
func pbCause(err error) error {
	for i := 0; i < 20 && err != nil; i++ {
		if c, ok := err.(interface{ Cause() error }); ok && c.Cause() != nil {
			err = c.Cause()
			continue
		}
		if u := errors.Unwrap(err); u != nil {
			err = u
			continue
		}
		break
	}
	return err
}

func pbIs(err, target error) bool {
	return err != nil && (pbCause(err) == target || errors.Is(err, target))
}

func errStr(err error) string {
	if err == nil {
		return "<nil>"
	}
	c := pbCause(err)
	return fmt.Sprintf("%T(%v)", c, c)
}

// panicWriter accepts `at` bytes and panics on the write that would pass that point.
type panicWriter struct {
	at  int
	got int
}

func (p *panicWriter) Write(b []byte) (int, error) {
	if p.got+len(b) > p.at {
		panic("verif: writer panics")
	}
	p.got += len(b)
	return len(b), nil
}

// boundaryErrReader cuts every Read at the next position in ends and, when a Read ends exactly there, returns its bytes
// together with a non-EOF error once; the following Reads continue normally.
type boundaryErrReader struct {
	r    io.Reader
	ends []int
	pos  int
}

var errTransientRead = errors.New("verif: transient read error delivered with data")

func (b *boundaryErrReader) Read(p []byte) (int, error) {
	for len(b.ends) > 0 && b.ends[0] <= b.pos {
		b.ends = b.ends[1:]
	}
	if len(b.ends) > 0 && b.pos+len(p) > b.ends[0] {
		p = p[:b.ends[0]-b.pos]
	}
	n, err := b.r.Read(p)
	b.pos += n
	if err == nil && n > 0 && len(b.ends) > 0 && b.pos == b.ends[0] {
		b.ends = b.ends[1:]
		return n, errTransientRead
	}
	return n, err
}
