package props

import (
	"fmt"
	"strings"
	"sync"
	"unsafe"

	"github.com/openacid/low/bitstr"

	"verif/internal/gen"
	"verif/internal/mon"
)

// C09 — bitstr: encoded bit strings order and truncate-compare like the bits they hold.
//
// Oracle: the bit string as a Go string over {'0','1'}; strings.Compare on those is exactly
// "lexicographic, proper prefix first".

type c09Enc struct {
	s        string
	from, to int
	enc      []byte
	bits     string
}

var c09Alphabet = []byte{0x00, 0x01, 0x7f, 0x80, 0xff}

func c09Text(s string, from, to int) string {
	var sb strings.Builder
	for p := from &^ 7; p < to; p++ {
		if (s[p>>3]>>(7-uint(p&7)))&1 == 1 {
			sb.WriteByte('1')
		} else {
			sb.WriteByte('0')
		}
	}
	return sb.String()
}

func c09ByteText(a []byte, nbits int) string {
	var sb strings.Builder
	for p := 0; p < nbits; p++ {
		if (a[p>>3]>>(7-uint(p&7)))&1 == 1 {
			sb.WriteByte('1')
		} else {
			sb.WriteByte('0')
		}
	}
	return sb.String()
}

func sign(x int) int {
	switch {
	case x < 0:
		return -1
	case x > 0:
		return 1
	}
	return 0
}

// c09New calls New and checks Len; returns nil on violation.
func c09New(w *mon.W, s string, from, to int) *c09Enc {
	w.Op, w.A, w.B, w.Obj = "New", int64(from), int64(to), fmt.Sprintf("%q", s)
	enc := bitstr.New(s, int32(from), int32(to))
	e := &c09Enc{s: s, from: from, to: to, enc: enc, bits: c09Text(s, from, to)}
	w.Op = "Len"
	if l := int(bitstr.Len(enc)); l != len(e.bits) {
		w.Fail("Len", mon.D{"s": fmt.Sprintf("%q", s), "from": from, "to": to, "encoding": fmt.Sprintf("%x", enc), "got": l, "expected": len(e.bits)})
		return nil
	}
	w.Eval(1)
	return e
}

var c09Universe []*c09Enc // built lazily per process (read-only afterwards)
var c09Plain []string
var c09Once sync.Once

func c09BuildUniverse(w *mon.W) bool {
	strs := []string{""}
	for _, a := range c09Alphabet {
		strs = append(strs, string([]byte{a}))
	}
	for _, a := range c09Alphabet {
		for _, b := range c09Alphabet {
			strs = append(strs, string([]byte{a, b}))
		}
	}
	var u []*c09Enc
	for _, s := range strs {
		for from := 0; from <= 8*len(s); from++ {
			for to := from; to <= 8*len(s); to++ {
				e := c09New(w, s, from, to)
				if e == nil {
					return false
				}
				u = append(u, e)
			}
		}
	}
	plain := append([]string(nil), strs...)
	for _, a := range c09Alphabet {
		for _, b := range c09Alphabet {
			for _, c := range c09Alphabet {
				plain = append(plain, string([]byte{a, b, c}))
			}
		}
	}
	c09Universe, c09Plain = u, plain
	return true
}

func init() {
	register(&mon.Prop{
		ID:    "C09",
		Level: "exploration",
		Rule: "universe = every New(s,from,to) for all strings of length <= 2 over {00,01,7f,80,ff} and all 0<=from<=to<=8*len (4051 encodings): Cmp on ordered pairs " +
			"(thorough: ALL 1.6e7 pairs; quick: every row x 256 sampled columns) and CmpUpto/StrCmpUpto of every encoding against all 156 plain strings of length <= 3; " +
			"keyzoo pairs up to 26 bytes across the 8-byte fast-path switch; StrCmpUpto called from 6 differently shaped call sites; the same case list is executed in optimised, " +
			"-N, -N -l, race(checkptr) builds (thorough: also ASan and go1.26.8 with and without -N). Non-trivial+distinct = hash of (encoding a, encoding b) pairs with both bit strings non-empty, " +
			"or (plain, encoding) with non-empty encoding.",
		Assumptions: []string{"0 <= from <= to <= 8*len(s) (stated domain)", "the oracle renders bit strings as text and uses strings.Compare"},
		Exhaustive:  nil,
		Flavours: func(tier string) []string {
			if tier == "thorough" {
				return []string{"release", "386", "noopt", "nooptl", "race", "asan", "go126", "go126noopt"}
			}
			return []string{"release", "386", "noopt", "nooptl", "race"}
		},
		Required: []string{"source-string>=2^28-bytes", "long-run/calls>=100000-per-function", "arguments-in-read-only-memory", "cmp/equal", "cmp/prefix", "cmp/differ", "cmp/same-bytelen", "cmp/diff-bytelen", "cmp/empty-vs-nonempty", "upto/a-shorter", "upto/a-equal", "upto/a-longer",
			"upto/empty-b", "upto/unaligned-b", "upto/dirty-spare-capacity", "cmp/prefix-view-same-base-address", "new/aligned-empty-after-scribble", "upto/long>=8", "upto/short<8", "str/site=arg", "str/site=field", "str/site=elem", "str/site=closure", "str/site=map", "str/site=substr"},
		Families: func(c *mon.Config) []mon.Family {
			rows := 4051
			step := 1
			if c.Slow() {
				step = 8
			}
			return []mon.Family{
				{Name: "cold-start", N: 1, Serial: true, Run: func(w *mon.W, _ int) {
					if !coldFirst(w, coldBitstrCalls()) {
						return
					}
					defer coldLast(w, coldBitstrCalls())
					a, b := c09New(w, "", 0, 0), c09New(w, "\xff", 0, 8)
					if a == nil || b == nil || !c09CheckCmp(w, a, a) || !c09CheckCmp(w, a, b) || !c09CheckCmp(w, b, a) || !c09CheckUpto(w, "", a) || !c09CheckUpto(w, "\xff\xff", b) || !c09CheckUpto(w, "", b) {
						return
					}
					w.Bucket("cold-start")
				}},
				{Name: "universe-rows", Env: 2, N: rows / step, Run: func(w *mon.W, idx int) { c09Row(w, idx*step) }},
				{Name: "keyzoo", Env: 4, N: c.Pick(12000, 1500000) / step, Run: c09KeyZoo},
				lrFamily(c09LongRun),
				{Name: "huge-source-string", NoCold: true, N: b2i(c.Base() == "release" || c.Base() == "go126"), Run: c09HugeSource},
			}
		},
	})
}

// c09HugeSource (round 12): source strings of 2^28 bytes and more - 8*len(s) no longer fits an int32, every int32 range
// is inside the string (a "lenient" clamp of toBit to int32(len(s))<<3 was seeded). The strings are views of zero pages
// that are never touched except for their first and last kilobyte; only the release-type builds run this.
func c09HugeSource(w *mon.W, _ int) {
	for _, n := range []int{1<<28 - 8, 1 << 28, 1<<28 + 8, 1 << 29} {
		buf, release := hugeZeroBytes(n)
		defer release()
		r := w.Rng
		for i := 0; i < 1024; i++ {
			buf[i] = r.Byte()
		}
		s := unsafe.String(&buf[0], n)
		top := 1<<31 - 1
		if 8*n < top {
			top = 8 * n
		}
		var encs []*c09Enc
		for _, ft := range [][2]int{{0, 0}, {0, 5}, {0, 12}, {0, 13}, {7, 23}, {8, 8}, {1000, 1003}, {top - 100, top}, {top - 8, top - 1}, {1 << 30, 1<<30 + 17}} {
			if ft[0] < 0 || ft[1] > top {
				continue
			}
			w.Op, w.A, w.B, w.C = "New(huge source string)", int64(ft[0]), int64(ft[1]), int64(n)
			enc := bitstr.New(s, int32(ft[0]), int32(ft[1]))
			// expected text from the bytes the range covers only
			lo, hi := ft[0]/8, (ft[1]+7)/8
			e := &c09Enc{s: "<huge>", from: ft[0], to: ft[1], enc: enc, bits: c09Text(s[lo:hi], ft[0]-8*lo, ft[1]-8*lo)}
			if l := int(bitstr.Len(enc)); l != len(e.bits) {
				w.Fail("Len/huge-source-string", mon.D{"source_bytes": n, "from": ft[0], "to": ft[1], "encoding": fmt.Sprintf("%x", enc), "got": l, "expected": len(e.bits)})
				return
			}
			w.Eval(1)
			encs = append(encs, e)
		}
		for _, a := range encs {
			for _, b := range encs {
				if !c09CheckCmp(w, a, b) {
					return
				}
			}
		}
		w.Tick()
	}
	w.Bucket("source-string>=2^28-bytes")
	w.Distinct(gen.Hash64(0x2b28, 4))
	w.Sample(func() interface{} {
		return mon.D{"source_strings_of_bytes": []int{1<<28 - 8, 1 << 28, 1<<28 + 8, 1 << 29}}
	})
}

func c09CheckCmp(w *mon.W, a, b *c09Enc) bool {
	w.Op, w.Obj = "Cmp", nil
	got := bitstr.Cmp(a.enc, b.enc)
	exp := sign(strings.Compare(a.bits, b.bits))
	if got != exp {
		w.Fail("Cmp", mon.D{"a": fmt.Sprintf("New(%q,%d,%d)=%x", a.s, a.from, a.to, a.enc), "b": fmt.Sprintf("New(%q,%d,%d)=%x", b.s, b.from, b.to, b.enc),
			"a_bits": a.bits, "b_bits": b.bits, "got": got, "expected": exp})
		return false
	}
	// every fourth call again with both encodings as views into larger, poisoned arrays (a caller keeps many
	// encodings in one buffer): same result, poison intact
	if n, _ := w.State["c09n"].(int); n&3 == 0 {
		w.State["c09n"] = n + 1
		da, ga := dirtyB(a.enc)
		db, gb := dirtyB(b.enc)
		g2 := bitstr.Cmp(da, db)
		if g2 != exp || !ga() || !gb() || string(da) != string(a.enc) || string(db) != string(b.enc) {
			w.Fail("Cmp/depends-on-or-writes-memory-around-the-arguments", mon.D{"a": fmt.Sprintf("%x", a.enc), "b": fmt.Sprintf("%x", b.enc), "got": g2, "expected": exp,
				"poison_around_a_intact": ga(), "poison_around_b_intact": gb()})
			return false
		}
	} else {
		w.State["c09n"] = n + 1
		if n&1023 == 2 { // and now and then in memory that cannot be written (ro.go; rarely: 16 workers changing page protections serialise on the address-space lock)
			roReset(w)
			ra, rb := roBytes(w, a.enc), roBytes(w, b.enc)
			if rel, ok := roSeal(w); ok {
				w.Op = "Cmp(read-only encodings)"
				g2 := bitstr.Cmp(ra, rb)
				rel()
				if g2 != exp {
					w.Fail("Cmp/differs-on-read-only-arguments", mon.D{"a": fmt.Sprintf("%x", a.enc), "b": fmt.Sprintf("%x", b.enc), "got": g2, "expected": exp})
					return false
				}
				w.Bucket("arguments-in-read-only-memory")
			}
		}
	}
	return true
}

func c09CmpBuckets(w *mon.W, a, b *c09Enc) {
	switch {
	case a.bits == b.bits:
		w.Bucket("cmp/equal")
	case strings.HasPrefix(a.bits, b.bits) || strings.HasPrefix(b.bits, a.bits):
		w.Bucket("cmp/prefix")
	default:
		w.Bucket("cmp/differ")
	}
	if len(a.enc) == len(b.enc) {
		w.Bucket("cmp/same-bytelen")
	} else {
		w.Bucket("cmp/diff-bytelen")
	}
	if (len(a.bits) == 0) != (len(b.bits) == 0) {
		w.Bucket("cmp/empty-vs-nonempty")
	}
}

type c09Holder struct {
	pad uint64
	s   string
	n   int
}

//go:noinline
func c09Ident(s string) string { return s }

// c09CheckUpto checks CmpUpto and StrCmpUpto (through 6 call-site shapes) for plain bytes a against encoding b.
func c09CheckUpto(w *mon.W, a string, b *c09Enc) bool {
	nb := len(b.bits)
	na := 8 * len(a)
	ta := c09ByteText([]byte(a), min(na, nb))
	exp := sign(strings.Compare(ta, b.bits))
	w.Op, w.Obj = "CmpUpto", nil
	ab := []byte(a)
	got := bitstr.CmpUpto(ab, b.enc)
	d := func(site string, got int) mon.D {
		return mon.D{"site": site, "a": fmt.Sprintf("%q", a), "b": fmt.Sprintf("New(%q,%d,%d)=%x", b.s, b.from, b.to, b.enc), "b_bits": b.bits, "a_truncated_bits": ta, "got": got, "expected": exp}
	}
	if got != exp {
		w.Fail("CmpUpto", d("CmpUpto", got))
		return false
	}
	if string(ab) != a {
		w.Fail("CmpUpto/input-modified", d("CmpUpto", got))
		return false
	}
	// b as a view into a larger, poisoned array
	if db, gb := dirtyB(b.enc); bitstr.CmpUpto(ab, db) != exp || bitstr.StrCmpUpto(a, db) != exp || int(bitstr.Len(db)) != nb || !gb() || string(db) != string(b.enc) {
		w.Fail("CmpUpto/depends-on-or-writes-memory-around-b", d("CmpUpto(b with dirty spare capacity)", bitstr.CmpUpto(ab, db)))
		return false
	}
	// both arguments (the plain string's bytes too) in memory that cannot be written (ro.go)
	roTurn, _ := w.State["c09ro"].(int)
	w.State["c09ro"] = roTurn + 1
	if roTurn&127 == 5 { // (rarely: 16 workers changing page protections serialise on the address-space lock)
		roReset(w)
		ra, rb, rs := roBytes(w, ab), roBytes(w, b.enc), roStr(w, a)
		if rel, ok := roSeal(w); ok {
			w.Op = "CmpUpto/StrCmpUpto/Len(read-only arguments)"
			g1, g2, g3 := bitstr.CmpUpto(ra, rb), bitstr.StrCmpUpto(rs, rb), int(bitstr.Len(rb))
			rel()
			if g1 != exp || g2 != exp || g3 != nb {
				w.Fail("CmpUpto/differs-on-read-only-arguments", d("CmpUpto(read-only arguments)", g1))
				return false
			}
			w.Bucket("arguments-in-read-only-memory")
		}
	}
	// the same bytes inside a larger buffer whose spare capacity is dirty: bytes beyond len(a) are not
	// part of the argument, so the result must not change and they must not be written
	for _, poison := range [2]byte{0x00, 0xff} {
		big := make([]byte, len(a)+20)
		for i := range big {
			big[i] = poison
		}
		copy(big[4:], a)
		dirty := big[4 : 4+len(a)]
		if g2 := bitstr.CmpUpto(dirty, b.enc); g2 != exp {
			dd := d("CmpUpto(dirty spare capacity)", g2)
			dd["bytes_beyond_len"] = fmt.Sprintf("%#x", poison)
			w.Fail("CmpUpto/depends-on-bytes-beyond-len", dd)
			return false
		}
		for i, c := range big {
			if (i < 4 || i >= 4+len(a)) && c != poison {
				w.Fail("CmpUpto/wrote-beyond-len", d("CmpUpto(dirty spare capacity)", got))
				return false
			}
		}
	}
	w.Bucket("upto/dirty-spare-capacity")
	switch {
	case na < nb:
		w.Bucket("upto/a-shorter")
	case (na+7)/8 == (nb+7)/8:
		w.Bucket("upto/a-equal")
	default:
		w.Bucket("upto/a-longer")
	}
	if nb == 0 {
		w.Bucket("upto/empty-b")
	}
	if nb&7 != 0 {
		w.Bucket("upto/unaligned-b")
	}
	if len(a) >= 8 && len(b.enc) >= 10 {
		w.Bucket("upto/long>=8")
	} else {
		w.Bucket("upto/short<8")
	}
	// StrCmpUpto from differently shaped call sites: what follows the 16-byte string header in
	// memory depends on where the string lives.
	w.Op = "StrCmpUpto"
	sites := [6]string{"arg", "field", "elem", "closure", "map", "substr"}
	var res [6]int
	var pan [6]string
	call := func(i int, f func() int) {
		defer func() {
			if r := recover(); r != nil {
				pan[i] = fmt.Sprint(r)
			}
		}()
		res[i] = f()
	}
	call(0, func() int { return bitstr.StrCmpUpto(a, b.enc) })
	h := &c09Holder{pad: 0, s: a, n: 0}
	call(1, func() int { return bitstr.StrCmpUpto(h.s, b.enc) })
	ss := []string{a, "", a}
	call(2, func() int { return bitstr.StrCmpUpto(ss[2], b.enc) })
	call(3, func() int { return bitstr.StrCmpUpto(c09Ident(a), b.enc) })
	m := map[int]string{1: a}
	call(4, func() int { return bitstr.StrCmpUpto(m[1], b.enc) })
	big := "\xff\xff\xff" + a + "\xff\xff\xff"
	call(5, func() int { return bitstr.StrCmpUpto(big[3:3+len(a)], b.enc) })
	for i := range sites {
		w.Bucket("str/site=" + sites[i])
		if pan[i] != "" {
			dd := d(sites[i], 0)
			dd["panic"] = pan[i]
			w.Fail("StrCmpUpto/panic", dd)
			return false
		}
		if res[i] != exp {
			w.Fail("StrCmpUpto/differs-from-CmpUpto", d(sites[i], res[i]))
			return false
		}
	}
	w.Eval(9)
	return true
}

func c09Row(w *mon.W, i int) {
	c09Once.Do(func() { c09BuildUniverse(w) })
	if c09Universe == nil {
		return // the worker that built it has recorded why
	}
	u := c09Universe
	a := u[i]
	r := w.Rng
	var ev int64
	full := w.Cfg.Thorough() && !w.Cfg.Slow()
	if full {
		for j := range u {
			if !c09CheckCmp(w, a, u[j]) {
				return
			}
			ev++
		}
		w.DistinctExact(0)
	}
	// sampled columns (also in the full mode, for the coverage buckets and antisymmetry)
	for k := 0; k < 256; k++ {
		b := u[r.Intn(len(u))]
		if k < 8 {
			// neighbours in the enumeration share the string and differ in one end
			b = u[(i+k-4+len(u))%len(u)]
		}
		if !c09CheckCmp(w, a, b) || !c09CheckCmp(w, b, a) {
			return
		}
		ev += 2
		c09CmpBuckets(w, a, b)
		if len(a.bits) > 0 && len(b.bits) > 0 {
			w.Distinct(gen.Hash64(1, uint64(i), gen.HashBytes(b.enc), uint64(len(b.bits))))
		}
	}
	w.Eval(ev)
	if full {
		w.Extra("cmp_pairs_enumerated", int64(len(u)))
	}
	// CmpUpto / StrCmpUpto: every plain string of length <= 3 against this encoding
	for _, p := range c09Plain {
		if !c09CheckUpto(w, p, a) {
			return
		}
		if len(a.bits) > 0 {
			w.Distinct(gen.Hash64(2, uint64(i), gen.HashStr(p)))
		}
	}
	w.Sample(func() interface{} {
		return mon.D{"encoding": fmt.Sprintf("New(%q,%d,%d)=%x", a.s, a.from, a.to, a.enc), "bits": a.bits, "plain_strings": len(c09Plain), "cmp_columns": 256}
	})
}

func c09KeyZoo(w *mon.W, idx int) {
	r := w.Rng
	keys := gen.KeyZoo(r, 4, r.Pick(3, 7, 8, 9, 15, 16, 17, 24, 24, 40, 100, 300))
	mk := func(s string) *c09Enc {
		n := 8 * len(s)
		from, to := 0, n
		switch r.Intn(5) {
		case 0:
		case 1:
			to = r.Intn(n + 1)
		case 2:
			from = r.Intn(n + 1)
			to = from + r.Intn(n-from+1)
		case 3:
			to = n &^ 7
			if n >= 8 && r.Bool() {
				to = n - 8 + r.Intn(8)
			}
		default:
			from = 8 * r.Intn(len(s)+1)
			to = from + r.Intn(n-from+1)
		}
		return c09New(w, s, from, to)
	}
	var encs []*c09Enc
	for _, k := range keys {
		e := mk(k)
		if e == nil {
			return
		}
		encs = append(encs, e)
		// twin: same string, slightly different end (prefix relation with equal / different byte length)
		t2 := e.to + r.Pick(-9, -8, -1, 1, 7, 8)
		if t2 >= e.from && t2 <= 8*len(k) {
			if e2 := c09New(w, k, e.from, t2); e2 != nil {
				encs = append(encs, e2)
			} else {
				return
			}
		}
	}
	for _, a := range encs {
		for _, b := range encs {
			if !c09CheckCmp(w, a, b) {
				return
			}
			w.Eval(1)
			c09CmpBuckets(w, a, b)
			if len(a.bits) > 0 && len(b.bits) > 0 {
				w.Distinct(gen.Hash64(3, gen.HashBytes(a.enc), gen.HashBytes(b.enc)))
			}
		}
	}
	// plain strings shorter than, equal to and longer than the payload, sharing 0..all bytes with it
	for _, b := range encs {
		payload := b.s[b.from>>3:]
		plains := []string{payload, b.s, "", payload + "\x00", payload + "\xff"}
		if len(payload) > 0 {
			plains = append(plains, payload[:r.Intn(len(payload))], payload[:len(payload)-1])
			mut := []byte(payload)
			mut[r.Intn(len(mut))] ^= 1 << uint(r.Intn(8))
			plains = append(plains, string(mut))
			pb := (len(b.bits) + 7) / 8
			if pb <= len(payload) {
				plains = append(plains, payload[:pb])
				if pb > 0 {
					m2 := []byte(payload[:pb])
					m2[pb-1] ^= 1 // a bit at or after the cut in the last payload byte
					plains = append(plains, string(m2))
				}
			}
		}
		for _, k := range keys {
			plains = append(plains, k)
		}
		for _, p := range plains {
			if !c09CheckUpto(w, p, b) {
				return
			}
			if len(b.bits) > 0 {
				w.Distinct(gen.Hash64(4, gen.HashStr(p), gen.HashBytes(b.enc)))
			}
		}
	}
	// prefix views: e[:k] of an encoding e is itself a valid encoding whenever its last byte is a
	// mask byte consistent with the payload byte before it. The two slices then start at the same
	// address; Cmp must still order them by their bit strings.
	views := 0
	for _, e := range encs {
		for k := 1; k < len(e.enc); k++ {
			v := c09View(e.enc[:k])
			if v == nil {
				continue
			}
			views++
			if !c09CheckCmp(w, v, e) || !c09CheckCmp(w, e, v) || !c09CheckCmp(w, v, v) {
				return
			}
			w.Eval(3)
			w.Bucket("cmp/prefix-view-same-base-address")
		}
	}
	w.Sample(func() interface{} {
		return mon.D{"keys": fmt.Sprintf("%q", keys), "encodings": len(encs), "prefix_views": views}
	})
	// hostile caller: the encodings New returned in this case belong to us; overwrite them. A New
	// that hands out shared memory (e.g. one constant for every empty range) poisons later results.
	for _, e := range encs {
		scribbleB(e.enc)
	}
	for _, s := range []string{"", "ab"} {
		for _, ft := range [][2]int{{0, 0}, {8, 8}, {16, 16}} {
			if ft[1] <= 8*len(s) {
				if e := c09New(w, s, ft[0], ft[1]); e != nil {
					w.Bucket("new/aligned-empty-after-scribble")
					scribbleB(e.enc)
				} else {
					return
				}
			}
		}
	}
}

// c09View interprets b as an encoding if it is a valid one: last byte a mask (k leading ones) and the
// payload byte before it has no bit outside that mask; the single byte 0xff is the empty encoding.
func c09View(b []byte) *c09Enc {
	n := len(b)
	if n == 0 {
		return nil
	}
	m := b[n-1]
	ones := 0
	for x := m; x&0x80 != 0; x <<= 1 {
		ones++
	}
	if m != byte(0xff<<uint(8-ones)) || ones == 0 {
		return nil
	}
	if n == 1 {
		if m != 0xff {
			return nil
		}
		return &c09Enc{enc: b, bits: "", s: "(view)"}
	}
	if b[n-2]&^m != 0 {
		return nil
	}
	return &c09Enc{enc: b, bits: c09ByteText(b[:n-1], 8*(n-2)+ones), s: "(view)"}
}
