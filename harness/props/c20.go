package props

import (
	"fmt"
	"math"
	"reflect"
	"strconv"
	"strings"

	"github.com/openacid/low/size"

	"verif/internal/gen"
	"verif/internal/mon"
)

// C20 — size.Of is the structural sum of a value's parts.
//
// Oracle: the expected size is accumulated *while the value is being built* (by construction),
// and independently re-derived by a literal recursion over the finished value; the two harness
// computations must agree with each other (else the harness is wrong -> inconclusive) and
// size.Of / the first line of size.Stat must agree with them.

const (
	c20Str   = 16
	c20Slice = 24
	c20Map   = 8
	c20Ptr   = 8
	c20Iface = 16
)

var c20Scalars = []reflect.Type{
	reflect.TypeOf(false),
	reflect.TypeOf(int8(0)), reflect.TypeOf(int16(0)), reflect.TypeOf(int32(0)), reflect.TypeOf(int64(0)), reflect.TypeOf(int(0)),
	reflect.TypeOf(uint8(0)), reflect.TypeOf(uint16(0)), reflect.TypeOf(uint32(0)), reflect.TypeOf(uint64(0)), reflect.TypeOf(uint(0)), reflect.TypeOf(uintptr(0)),
	reflect.TypeOf(float32(0)), reflect.TypeOf(float64(0)), reflect.TypeOf(complex64(0)), reflect.TypeOf(complex128(0)),
}

var c20Width = map[reflect.Kind]int{
	reflect.Bool: 1, reflect.Int8: 1, reflect.Int16: 2, reflect.Int32: 4, reflect.Int64: 8, reflect.Int: 8,
	reflect.Uint8: 1, reflect.Uint16: 2, reflect.Uint32: 4, reflect.Uint64: 8, reflect.Uint: 8, reflect.Uintptr: 8,
	reflect.Float32: 4, reflect.Float64: 8, reflect.Complex64: 8, reflect.Complex128: 16,
}

var c20IfaceT = reflect.TypeOf((*interface{})(nil)).Elem()
var c20StringT = reflect.TypeOf("")

// hand-declared named types with unexported and embedded fields
type c20Inner struct {
	a int8
	B *int32
	c []string
	u uint
}
type c20Outer struct {
	c20Inner
	X  interface{}
	m  map[string][]uint16
	p  uintptr
	Ar [3]c20Inner
	pp **c20Inner
}
type c20Named []map[uint]c20Inner

// embedding: a promoted field shadowed by an outer one, a name made ambiguous by two embedded structs, an
// embedded pointer, an embedded interface and an embedded non-struct named type. Every field of every
// embedded value is part of the value, whether or not a selector can reach it.
type c20Base struct {
	Name string
	ID   int32
}
type c20Shadow struct {
	c20Base
	Name string
}
type c20Left struct {
	ID int64
	L  []byte
}
type c20Right struct {
	ID int16
	R  string
}
type c20Ambig struct {
	c20Left
	c20Right
}
type c20EmbPtr struct {
	*c20Base
	N uint8
}
type c20Word int32
type c20EmbMisc struct {
	fmt.Stringer
	c20Word
	K int
}
type c20Str8 [8]byte

// interior pointers: a pointer to an object and a pointer to the part of it at offset 0 hold the same address but
// have different types and pointee sizes
type c20Hdr struct {
	ID  int64
	Tag string
}
type c20Rec struct {
	Header c20Hdr
	Body   []byte
}
type c20IdxA struct {
	Rec *c20Rec
	Hdr *c20Hdr
	ID  *int64
}
type c20IdxB struct {
	ID  *int64
	Hdr *c20Hdr
	Rec *c20Rec
}

func (s c20Str8) String() string { return string(s[:]) }

func init() {
	register(&mon.Prop{
		ID:    "C20",
		Level: "exploration",
		Rule: "every scalar kind in 8 positions (bare, struct field, slice/array element, map key, map value, pointee, in interface, nested) + random types composed with reflect " +
			"(StructOf/SliceOf/ArrayOf/MapOf/PointerTo, interface fields) to depth 5 filled with random values (nil/empty containers, nil pointers and interfaces inside containers, shared pointees) + hand-declared named types. " +
			"Non-trivial+distinct = hash of (type string, expected size, shape hash) of values with nesting depth >= 2 containing at least one header-bearing kind.",
		Assumptions: []string{"64-bit platform header sizes 16/24/8/8/16", "acyclic values of the kinds listed in the property only (no chan/func/unsafe.Pointer)",
			"release build only: -race/checkptr aborts on size.sizeof's nil-comparison cast, which is outside the property (DESIGN.md 2.5)", "no NaN map keys"},
		Flavours: func(tier string) []string {
			if tier == "thorough" {
				return []string{"release", "go126"}
			}
			return []string{"release"}
		},
		Required: []string{"long-run/calls>=100000-per-function", "named/struct-with-more-than-64-fields", "kind/uint", "kind/uintptr", "kind/int", "kind/bool", "kind/complex128", "kind/string", "kind/slice", "kind/array", "kind/map",
			"kind/ptr", "kind/interface", "kind/struct", "nil/ptr", "nil/interface", "nil/slice", "nil/map", "empty/slice", "empty/map", "nil/argument", "stat/avg", "named", "large-containers", "containers>=4096-elements", "named/embedding", "named/interior-pointers", "rejected-value-then-valid-one", "depth>1000", "same-named-distinct-types"},
		Families: func(c *mon.Config) []mon.Family {
			return []mon.Family{
				{Name: "cold-start", N: 1, Serial: true, Run: func(w *mon.W, _ int) {
					if !coldFirst(w, coldSizeCalls()) {
						return
					}
					defer coldLast(w, coldSizeCalls())
					c20Observe(w, nil, 0, "nil")
					c20Observe(w, 0, 8, "cold")
					c20Observe(w, "", c20Str, "cold")
					c20Observe(w, []int8(nil), c20Slice, "cold")
					c20Observe(w, struct{}{}, 0, "cold")
					c20Observe(w, uintptr(0), 8, "cold")
					var e interface{} = (*int)(nil)
					c20Observe(w, e, c20Ptr, "cold")
					w.Bucket("cold-start")
				}},
				{Name: "scalar-positions", N: len(c20Scalars) * 8, Run: c20ScalarPositions},
				{Name: "named", Env: 3, N: c.Pick(200, 20000), Run: c20NamedTypes},
				{Name: "random-types", Env: 10, N: c.Pick(40000, 2500000), Run: c20Random},
				{Name: "large-containers", Env: 6, N: c.Pick(120, 20000), Run: func(w *mon.W, idx int) { c20RandomWith(w, idx, true) }},
				{Name: "huge-containers", Env: 3, N: 7 * 3 * c.Pick(1, 6), Run: c20Huge},
				{Name: "deep-nesting", Env: 1, N: c.Pick(9, 300), Run: c20Deep},
				{Name: "same-named-types", N: c.Pick(4, 100), Run: c20SameNamed},
				lrFamily(c20LongRun),
			}
		},
	})
}

type c20Gen struct {
	r         *gen.Rand
	w         *mon.W
	depth     int  // max depth reached
	hdr       bool // a header-bearing kind occurred
	shape     uint64
	ptrs      map[reflect.Type][]reflect.Value // pool for shared pointees
	psize     map[uintptr]int
	big       bool // large containers near the top of the value (hundreds of elements, long strings)
	hugeN     int  // > 0: the top-level slice or map gets this many elements
	forceFull bool // the top-level container is never left nil or empty
}

func (g *c20Gen) typ(d int) reflect.Type {
	r := g.r
	if d <= 0 {
		if r.Intn(4) == 0 {
			return c20StringT
		}
		return c20Scalars[r.Intn(len(c20Scalars))]
	}
	switch r.Intn(10) {
	case 0, 1:
		return c20Scalars[r.Intn(len(c20Scalars))]
	case 2:
		return c20StringT
	case 3:
		return reflect.SliceOf(g.typ(d - 1))
	case 4:
		return reflect.ArrayOf(r.Intn(4), g.typ(d-1))
	case 5:
		return reflect.MapOf(g.keyType(), g.typ(d-1))
	case 6:
		return reflect.PtrTo(g.typ(d - 1))
	case 7:
		return c20IfaceT
	default:
		n := r.Intn(5)
		fs := make([]reflect.StructField, n)
		for i := range fs {
			fs[i] = reflect.StructField{Name: "F" + strconv.Itoa(i), Type: g.typ(d - 1)}
		}
		return reflect.StructOf(fs)
	}
}

func (g *c20Gen) keyType() reflect.Type {
	r := g.r
	switch r.Intn(6) {
	case 0:
		return c20StringT
	case 1:
		return reflect.ArrayOf(r.Intn(3), c20Scalars[1+r.Intn(11)])
	case 2:
		return reflect.StructOf([]reflect.StructField{{Name: "K0", Type: c20Scalars[1+r.Intn(11)]}, {Name: "K1", Type: c20StringT}})
	default:
		return c20Scalars[r.Intn(len(c20Scalars))]
	}
}

var c20Strings = []string{"", "a", "héllo", "\x00\xff", "日本語", "0123456789abcdef", "x\x00"}

// fill sets v (settable) to a random value and returns its structural size.
func (g *c20Gen) fill(v reflect.Value, d int, asKey bool) int {
	r, w := g.r, g.w
	if d > g.depth {
		g.depth = d
	}
	t := v.Type()
	g.shape = gen.Hash64(g.shape, uint64(t.Kind()))
	switch t.Kind() {
	case reflect.Bool:
		v.SetBool(r.Bool())
		w.Bucket("kind/bool")
		return 1
	case reflect.Int8, reflect.Int16, reflect.Int32, reflect.Int64, reflect.Int:
		v.SetInt(int64(r.Uint64()) >> uint(64-8*c20Width[t.Kind()]))
		w.Bucket("kind/" + t.Kind().String())
		return c20Width[t.Kind()]
	case reflect.Uint8, reflect.Uint16, reflect.Uint32, reflect.Uint64, reflect.Uint, reflect.Uintptr:
		v.SetUint(r.Uint64() >> uint(64-8*c20Width[t.Kind()]))
		w.Bucket("kind/" + t.Kind().String())
		return c20Width[t.Kind()]
	case reflect.Float32, reflect.Float64:
		f := float64(int(r.Intn(2000))-1000) / 8
		if !asKey && r.Intn(8) == 0 {
			f = math.Inf(1)
		}
		v.SetFloat(f)
		w.Bucket("kind/" + t.Kind().String())
		return c20Width[t.Kind()]
	case reflect.Complex64, reflect.Complex128:
		v.SetComplex(complex(float64(r.Intn(100)), float64(r.Intn(100))))
		w.Bucket("kind/" + t.Kind().String())
		return c20Width[t.Kind()]
	case reflect.String:
		g.hdr = true
		s := c20Strings[r.Intn(len(c20Strings))]
		if r.Intn(3) == 0 {
			s += string(gen.ZooBytes(r, r.Intn(9)))
		}
		if g.big && d <= 3 && r.Intn(4) == 0 {
			s += string(gen.ZooBytes(r, 1000+r.Intn(9000)))
		}
		v.SetString(s)
		g.shape = gen.Hash64(g.shape, uint64(len(s)))
		w.Bucket("kind/string")
		return c20Str + len(s)
	case reflect.Slice:
		g.hdr = true
		w.Bucket("kind/slice")
		pick := r.Intn(6)
		if g.forceFull && d <= 1 {
			pick = 5
		}
		switch pick {
		case 0:
			w.Bucket("nil/slice")
			return c20Slice // stays nil
		case 1:
			v.Set(reflect.MakeSlice(t, 0, r.Intn(3)))
			w.Bucket("empty/slice")
			return c20Slice
		}
		n := 1 + r.Intn(4)
		if g.big && d <= 1 {
			n = 100 + r.Intn(300)
		}
		if g.hugeN > 0 && d <= 1 {
			n = g.hugeN
		}
		v.Set(reflect.MakeSlice(t, n, n+r.Intn(3)))
		g.shape = gen.Hash64(g.shape, uint64(n))
		sum := c20Slice
		for i := 0; i < n; i++ {
			sum += g.fill(v.Index(i), d+1, false)
		}
		return sum
	case reflect.Array:
		w.Bucket("kind/array")
		sum := 0
		for i := 0; i < t.Len(); i++ {
			sum += g.fill(v.Index(i), d+1, asKey)
		}
		return sum
	case reflect.Struct:
		w.Bucket("kind/struct")
		sum := 0
		for i := 0; i < t.NumField(); i++ {
			sum += g.fill(v.Field(i), d+1, asKey)
		}
		return sum
	case reflect.Ptr:
		g.hdr = true
		w.Bucket("kind/ptr")
		if r.Intn(4) == 0 {
			w.Bucket("nil/ptr")
			return c20Ptr
		}
		if pool := g.ptrs[t]; len(pool) > 0 && r.Intn(3) == 0 {
			p := pool[r.Intn(len(pool))]
			v.Set(p)
			w.Bucket("shared-pointee")
			return c20Ptr + g.psize[p.Pointer()]
		}
		p := reflect.New(t.Elem())
		sz := g.fill(p.Elem(), d+1, false)
		v.Set(p)
		g.ptrs[t] = append(g.ptrs[t], p)
		g.psize[p.Pointer()] = sz
		return c20Ptr + sz
	case reflect.Interface:
		g.hdr = true
		w.Bucket("kind/interface")
		if r.Intn(4) == 0 {
			w.Bucket("nil/interface")
			return c20Iface
		}
		dt := g.typ(max(0, 3-d))
		for dt.Kind() == reflect.Interface {
			dt = g.typ(0)
		}
		x := reflect.New(dt).Elem()
		sz := g.fill(x, d+1, false)
		v.Set(x)
		return c20Iface + sz
	case reflect.Map:
		g.hdr = true
		w.Bucket("kind/map")
		mpick := r.Intn(6)
		if g.forceFull && d <= 1 {
			mpick = 5
		}
		switch mpick {
		case 0:
			w.Bucket("nil/map")
			return c20Map
		case 1:
			v.Set(reflect.MakeMap(t))
			w.Bucket("empty/map")
			return c20Map
		}
		m := reflect.MakeMap(t)
		sum := c20Map
		n := 1 + r.Intn(3)
		if g.big && d <= 1 {
			n = 50 + r.Intn(150)
		}
		if g.hugeN > 0 && d <= 1 {
			n = g.hugeN
		}
		for i := 0; i < n; i++ {
			k := reflect.New(t.Key()).Elem()
			ks := g.fill(k, d+1, true)
			if m.MapIndex(k).IsValid() {
				continue // key already present: do not double count
			}
			e := reflect.New(t.Elem()).Elem()
			es := g.fill(e, d+1, false)
			m.SetMapIndex(k, e)
			sum += ks + es
		}
		g.shape = gen.Hash64(g.shape, uint64(m.Len()))
		v.Set(m)
		return sum
	}
	panic("c20: unexpected kind " + t.Kind().String())
}

// c20Literal is the property statement written as a recursion over a finished value.
func c20Literal(v reflect.Value) int {
	if !v.IsValid() {
		return 0
	}
	switch v.Kind() {
	case reflect.String:
		return c20Str + v.Len()
	case reflect.Slice:
		s := c20Slice
		for i := 0; i < v.Len(); i++ {
			s += c20Literal(v.Index(i))
		}
		return s
	case reflect.Array:
		s := 0
		for i := 0; i < v.Len(); i++ {
			s += c20Literal(v.Index(i))
		}
		return s
	case reflect.Struct:
		s := 0
		for i := 0; i < v.NumField(); i++ {
			s += c20Literal(v.Field(i))
		}
		return s
	case reflect.Map:
		s := c20Map
		it := v.MapRange()
		for it.Next() {
			s += c20Literal(it.Key()) + c20Literal(it.Value())
		}
		return s
	case reflect.Ptr:
		if v.IsNil() {
			return c20Ptr
		}
		return c20Ptr + c20Literal(v.Elem())
	case reflect.Interface:
		if v.IsNil() {
			return c20Iface
		}
		return c20Iface + c20Literal(v.Elem())
	}
	if wd, ok := c20Width[v.Kind()]; ok {
		return wd
	}
	panic("c20Literal: kind " + v.Kind().String())
}

// c20Observe calls size.Of and size.Stat on x and compares with the expected size.
// c20Rejected: size.Of on a value that holds an unsupported kind (a channel, a func) panics "unknown kind"; a caller
// may recover from that. The call must leave nothing behind: the next measurement is checked as usual.
func c20Rejected(w *mon.W) {
	bad := struct {
		A []int32
		B interface{}
		C string
		D map[string]int8
	}{A: []int32{1, 2, 3}, B: make(chan int), C: "left over", D: map[string]int8{"k": 1}}
	func() {
		defer func() {
			if recover() != nil {
				w.Bucket("rejected-value-then-valid-one")
			}
		}()
		w.Op = "size.Of(value holding a channel)"
		size.Of(bad)
	}()
	// whether a value can be measured depends on what its interfaces hold right now, not on its static type (round 14
	// seeded a cache of "unmeasurable" top-level types filled by the recovered panic): the same static types again,
	// holding measurable things
	type rec struct {
		A interface{}
		B string
	}
	pairs := [][2]interface{}{
		{[]interface{}{1, make(chan int)}, []interface{}{int32(1), "two", nil}},
		{map[string]interface{}{"k": func() {}}, map[string]interface{}{"k": uint8(3), "kk": "v"}},
		{rec{A: make(chan string), B: "x"}, rec{A: []int16{1, 2}, B: "yy"}},
		{[]rec{{A: make(chan int)}}, []rec{{A: int64(5), B: "z"}, {}}},
		{[2]interface{}{nil, make(chan bool)}, [2]interface{}{"a", int8(2)}},
		{&rec{A: func() {}}, &rec{A: "str", B: "b"}},
	}
	for _, p := range pairs {
		func() {
			defer func() { recover() }()
			w.Op = "size.Of(value holding a channel or func)"
			size.Of(p[0])
		}()
		good := p[1]
		w.Op = "size.Of(same static type, measurable content, after a recovered panic)"
		n, pan := c20CallOf(good)
		if e := c20Literal(reflect.ValueOf(good)); pan != "" || n != e {
			w.Fail("Of/after-recovered-panic-on-the-same-static-type", mon.D{"type": fmt.Sprintf("%T", good), "got": n, "panic": pan, "expected": e})
			return
		}
		w.Eval(1)
	}
	w.Bucket("rejected-value-then-measurable-value-of-the-same-type")
}

func c20Observe(w *mon.W, x interface{}, expected int, class string) {
	if n, _ := w.State["c20rej"].(int); true {
		w.State["c20rej"] = n + 1
		if n%16 == 0 {
			c20Rejected(w)
		}
	}
	typ := fmt.Sprintf("%T", x)
	w.Op, w.Obj = "size.Of", typ
	if lit := c20Literal(reflect.ValueOf(x)); lit != expected {
		w.Harness("c20/oracles-disagree", mon.D{"type": typ, "by_construction": expected, "literal": lit})
		return
	}
	got, pan := c20CallOf(x)
	w.Eval(1)
	if pan != "" {
		w.Fail("Of/panic:"+firstWords(pan, 3), mon.D{"type": typ, "value": short(x, 300), "panic": pan, "expected": expected, "class": class})
		return
	}
	if got != expected {
		w.Fail("Of/wrong-size/"+class, mon.D{"type": typ, "value": short(x, 300), "got": got, "expected": expected})
		return
	}
	if x == nil {
		return
	}
	// Stat: first line "<type>: <number>", also with AvgOf
	w.Op = "size.Stat"
	depth := w.Rng.Intn(3)
	for _, avg := range []bool{false, true} {
		var out string
		var span string
		func() {
			defer func() {
				if r := recover(); r != nil {
					span = fmt.Sprint(r)
				}
			}()
			if avg {
				out = size.Stat(x, depth, 3, size.Opt{AvgOf: 4})
			} else {
				if depth == 1 {
					out = size.Stat(x, depth, 3, []interface{}{}...) // "no option" as an empty non-nil variadic slice
				} else {
					out = size.Stat(x, depth, 3)
				}
			}
		}()
		w.Eval(1)
		if avg {
			w.Bucket("stat/avg")
		}
		if span != "" {
			w.Fail("Stat/panic:"+firstWords(span, 3), mon.D{"type": typ, "panic": span, "depth": depth})
			return
		}
		first := out
		if i := strings.IndexByte(out, '\n'); i >= 0 {
			first = out[:i]
		}
		prefix := reflect.TypeOf(x).String() + ": "
		ok := strings.HasPrefix(first, prefix)
		num := -1
		if ok {
			rest := first[len(prefix):]
			if avg {
				if j := strings.Index(rest, " /n"); j >= 0 {
					rest = rest[:j]
				} else {
					ok = false
				}
			}
			n, err := strconv.Atoi(rest)
			if err != nil {
				ok = false
			}
			num = n
		}
		if !ok || num != expected {
			w.Fail("Stat/first-line", mon.D{"type": typ, "first_line": first, "expected_number": expected, "avg": avg})
			return
		}
	}
}

func c20CallOf(x interface{}) (n int, pan string) {
	defer func() {
		if r := recover(); r != nil {
			pan = fmt.Sprint(r)
		}
	}()
	return size.Of(x), ""
}

func firstWords(s string, n int) string {
	f := strings.Fields(s)
	if len(f) > n {
		f = f[:n]
	}
	return strings.Join(f, "_")
}

func c20ScalarPositions(w *mon.W, idx int) {
	st := c20Scalars[idx%len(c20Scalars)]
	pos := idx / len(c20Scalars)
	g := &c20Gen{r: w.Rng, w: w, ptrs: map[reflect.Type][]reflect.Value{}, psize: map[uintptr]int{}}
	var t reflect.Type
	switch pos {
	case 0:
		t = st
	case 1:
		t = reflect.StructOf([]reflect.StructField{{Name: "A", Type: reflect.TypeOf(int8(0))}, {Name: "S", Type: st}})
	case 2:
		t = reflect.SliceOf(st)
	case 3:
		t = reflect.ArrayOf(3, st)
	case 4:
		t = reflect.MapOf(st, c20StringT)
	case 5:
		t = reflect.MapOf(c20StringT, st)
	case 6:
		t = reflect.PtrTo(st)
	default:
		t = reflect.SliceOf(c20IfaceT)
	}
	for rep := 0; rep < 6; rep++ {
		v := reflect.New(t).Elem()
		var exp int
		if pos == 7 {
			// []interface{}{scalar, nil, &scalar}
			s := reflect.MakeSlice(t, 3, 3)
			a := reflect.New(st).Elem()
			exp = c20Slice + 3*c20Iface + g.fill(a, 2, false)
			s.Index(0).Set(a)
			p := reflect.New(st)
			exp += c20Ptr + g.fill(p.Elem(), 3, false)
			s.Index(2).Set(p)
			v.Set(s)
			w.Bucket("nil/interface")
		} else {
			exp = g.fill(v, 1, false)
		}
		c20Observe(w, v.Interface(), exp, "scalar-"+st.Kind().String())
		w.Distinct(gen.Hash64(uint64(pos), uint64(st.Kind()), uint64(exp), g.shape))
	}
	if idx == 0 {
		c20Observe(w, nil, 0, "nil")
		w.Bucket("nil/argument")
		var np *int
		c20Observe(w, np, c20Ptr, "nil-ptr")
		var e interface{} = (*c20Outer)(nil)
		c20Observe(w, e, c20Ptr, "nil-ptr")
	}
	w.Sample(func() interface{} { return mon.D{"type": t.String(), "position": pos} })
}

func c20NamedTypes(w *mon.W, idx int) {
	g := &c20Gen{r: w.Rng, w: w, ptrs: map[reflect.Type][]reflect.Value{}, psize: map[uintptr]int{}}
	if idx%8 == 3 {
		// a struct type with more fields than a machine word has bits (round 11 seeded a per-type field bit mask in a
		// uint64): 80 fields, the variable-size ones at positions 64..68; by value, by pointer, inside a slice
		x := int64(w.Rng.Intn(100))
		wide := lrWide{S64: string(gen.ZooBytes(w.Rng, w.Rng.Intn(30))), S65: make([]int32, w.Rng.Intn(9)), S66: map[string]int8{"a": 1, "bc": 2}, S67: &x, S68: "iface"}
		// by hand: 10 int64 + 10 int32 + 10 bool + 10 float64 + 10 uint16 + 10 int8 + 4 uint64 + 12 uint8 scalars, then the five parts
		hand := 10*8 + 10*4 + 10*1 + 10*8 + 10*2 + 10*1 + 4*8 + 12*1 +
			c20Str + len(wide.S64) + c20Slice + 4*len(wide.S65) + c20Literal(reflect.ValueOf(wide.S66)) + c20Ptr + 8 + c20Literal(reflect.ValueOf(wide.S68)) + c20Literal(reflect.ValueOf(&wide.S68).Elem()) - c20Literal(reflect.ValueOf(wide.S68))
		if lit := c20Literal(reflect.ValueOf(wide)); lit == hand {
			c20Observe(w, wide, hand, "struct-of-80-fields")
			c20Observe(w, &wide, c20Ptr+hand, "struct-of-80-fields")
			c20Observe(w, []lrWide{wide, {}}, c20Literal(reflect.ValueOf([]lrWide{wide, {}})), "struct-of-80-fields")
			w.Bucket("named/struct-with-more-than-64-fields")
		} else {
			c20Observe(w, wide, lit, "struct-of-80-fields")
			w.Bucket("named/struct-with-more-than-64-fields")
		}
	}
	// Values of named types with unexported fields are built through their addressable exported
	// view: we construct them in plain Go and compute the expected size by hand.
	r := w.Rng
	mk := func() (c20Inner, int) {
		in := c20Inner{a: int8(r.Intn(100)), u: uint(r.Uint64())}
		sz := 1 + c20Ptr + c20Slice + 8
		if r.Bool() {
			x := int32(r.Intn(1000))
			in.B = &x
			sz += 4
		}
		for i := r.Intn(3); i > 0; i-- {
			s := c20Strings[r.Intn(len(c20Strings))]
			in.c = append(in.c, s)
			sz += c20Str + len(s)
		}
		return in, sz
	}
	var o c20Outer
	exp := 0
	var s int
	o.c20Inner, s = mk()
	exp += s
	exp += c20Iface
	switch r.Intn(3) {
	case 0:
	case 1:
		in, s := mk()
		o.X = in
		exp += s
	default:
		in, s := mk()
		o.X = &in
		exp += c20Ptr + s
	}
	exp += c20Map
	if r.Bool() {
		o.m = map[string][]uint16{}
		for i := r.Intn(3); i > 0; i-- {
			k := fmt.Sprintf("k%d", i)
			val := make([]uint16, r.Intn(4))
			o.m[k] = val
			exp += c20Str + len(k) + c20Slice + 2*len(val)
		}
	}
	o.p = uintptr(r.Uint64())
	exp += 8
	for i := range o.Ar {
		o.Ar[i], s = mk()
		exp += s
	}
	exp += c20Ptr
	if r.Bool() {
		in, s := mk()
		pin := &in
		o.pp = &pin
		exp += c20Ptr + s
	}
	w.Bucket("named")
	c20Observe(w, o, exp, "named-struct")
	c20Observe(w, &o, exp+c20Ptr, "named-struct")
	w.Distinct(gen.Hash64(77, uint64(exp), uint64(idx)))

	var nm c20Named
	e2 := c20Slice
	for i := r.Intn(3); i > 0; i-- {
		m := map[uint]c20Inner{}
		e2 += c20Map
		for j := r.Intn(3); j > 0; j-- {
			in, s := mk()
			k := uint(j)
			m[k] = in
			e2 += 8 + s
		}
		nm = append(nm, m)
	}
	c20Observe(w, nm, e2, "named-slice")
	_ = g
	c20Embedded(w)
	c20Interior(w)
	w.Sample(func() interface{} { return mon.D{"type": "props.c20Outer", "expected": exp} })
}

func c20Embedded(w *mon.W) {
	r := w.Rng
	str := func() (string, int) {
		s := c20Strings[r.Intn(len(c20Strings))]
		return s, c20Str + len(s)
	}
	base := func() (c20Base, int) {
		s, n := str()
		return c20Base{Name: s, ID: int32(r.Uint64())}, n + 4
	}
	w.Bucket("named/embedding")
	// shadowed
	b, nb := base()
	s2, n2 := str()
	sh := c20Shadow{c20Base: b, Name: s2}
	c20Observe(w, sh, nb+n2, "embedded-shadowed")
	c20Observe(w, []*c20Shadow{&sh, nil}, c20Slice+2*c20Ptr+nb+n2, "embedded-shadowed")
	c20Observe(w, map[int8]c20Shadow{3: sh}, c20Map+1+nb+n2, "embedded-shadowed")
	// ambiguous
	lb := make([]byte, r.Intn(5))
	rs, nrs := str()
	am := c20Ambig{c20Left{ID: 1, L: lb}, c20Right{ID: 2, R: rs}}
	c20Observe(w, am, 8+c20Slice+len(lb)+2+nrs, "embedded-ambiguous")
	// embedded pointer, nil and not
	c20Observe(w, c20EmbPtr{N: 1}, c20Ptr+1, "embedded-pointer")
	c20Observe(w, c20EmbPtr{c20Base: &b, N: 1}, c20Ptr+nb+1, "embedded-pointer")
	// embedded interface (nil / holding an array value) and embedded named scalar
	c20Observe(w, c20EmbMisc{K: 1}, c20Iface+4+8, "embedded-interface")
	c20Observe(w, c20EmbMisc{Stringer: c20Str8{1}, c20Word: 5, K: 1}, c20Iface+8+4+8, "embedded-interface")
}

func c20Interior(w *mon.W) {
	r := w.Rng
	tag := c20Strings[r.Intn(len(c20Strings))]
	rec := &c20Rec{Header: c20Hdr{ID: int64(r.Uint64()), Tag: tag}, Body: make([]byte, r.Intn(9))}
	szHdr := 8 + c20Str + len(tag)
	szRec := szHdr + c20Slice + len(rec.Body)
	w.Bucket("named/interior-pointers")
	all := 3*c20Ptr + szRec + szHdr + 8
	c20Observe(w, c20IdxA{Rec: rec, Hdr: &rec.Header, ID: &rec.Header.ID}, all, "interior-pointer")
	c20Observe(w, c20IdxB{Rec: rec, Hdr: &rec.Header, ID: &rec.Header.ID}, all, "interior-pointer")
	c20Observe(w, c20IdxA{Rec: rec, ID: &rec.Header.ID}, 3*c20Ptr+szRec+8, "interior-pointer")
	c20Observe(w, []interface{}{&rec.Header, rec}, c20Slice+2*(c20Iface+c20Ptr)+szHdr+szRec, "interior-pointer")
	var arr [4]int32
	c20Observe(w, []interface{}{&arr, &arr[0]}, c20Slice+2*(c20Iface+c20Ptr)+16+4, "interior-pointer")
	c20Observe(w, []interface{}{&arr[0], &arr}, c20Slice+2*(c20Iface+c20Ptr)+16+4, "interior-pointer")
	sl := make([]int16, 3+r.Intn(4))
	c20Observe(w, struct {
		First *int16
		All   *[]int16
		Again *int16
	}{&sl[0], &sl, &sl[0]}, 3*c20Ptr+2+2+c20Slice+2*len(sl), "interior-pointer")
	// the same pointer twice: every occurrence pays for its pointee
	c20Observe(w, []*c20Rec{rec, rec}, c20Slice+2*(c20Ptr+szRec), "repeated-pointer")
}

// c20Huge: slices, arrays and maps of 4096..262147 elements (lengths that are no multiple of any small number)
// of a shallow element type.
func c20Huge(w *mon.W, idx int) {
	g := &c20Gen{r: w.Rng, w: w, ptrs: map[reflect.Type][]reflect.Value{}, psize: map[uintptr]int{}}
	ns := []int{4096, 4097, 5003, 10007, 65537, 100003, 262147}
	g.hugeN = ns[idx%len(ns)]
	elem := g.typ(w.Rng.Intn(2))
	var t reflect.Type
	switch (idx / len(ns)) % 3 {
	case 0:
		t = reflect.SliceOf(elem)
	case 1:
		t = reflect.ArrayOf(g.hugeN, elem)
	default:
		t = reflect.MapOf(c20Scalars[4], elem) // int64 keys: enough distinct values
		if g.hugeN > 70000 {
			g.hugeN = 20011
		}
	}
	w.Bucket("containers>=4096-elements")
	v := reflect.New(t).Elem()
	g.forceFull = true
	exp := g.fill(v, 1, false)
	c20Observe(w, v.Interface(), exp, "huge-container")
	w.Distinct(gen.Hash64(gen.HashStr(t.String()), uint64(exp), g.shape))
	w.Sample(func() interface{} { return mon.D{"type": t.String(), "elements": g.hugeN, "expected_size": exp} })
}

func c20Random(w *mon.W, idx int) { c20RandomWith(w, idx, false) }

func c20RandomWith(w *mon.W, idx int, big bool) {
	g := &c20Gen{r: w.Rng, w: w, ptrs: map[reflect.Type][]reflect.Value{}, psize: map[uintptr]int{}, big: big}
	if big {
		w.Bucket("large-containers")
	}
	t := g.typ(1 + w.Rng.Intn(5))
	if big {
		// make sure the top of the value is a container
		switch w.Rng.Intn(3) {
		case 0:
			t = reflect.SliceOf(g.typ(2))
		case 1:
			t = reflect.MapOf(g.keyType(), g.typ(2))
		default:
			t = reflect.ArrayOf(257+w.Rng.Intn(300), g.typ(1))
		}
	}
	v := reflect.New(t).Elem()
	exp := g.fill(v, 1, false)
	x := v.Interface()
	if t.Kind() == reflect.Interface && v.IsNil() {
		// a nil interface passed as argument is the nil argument: 0
		c20Observe(w, nil, 0, "nil")
		w.Bucket("nil/argument")
		return
	}
	if t.Kind() == reflect.Interface {
		exp -= c20Iface // passing through interface{} drops the static interface layer
	}
	c20Observe(w, x, exp, "random")
	if g.depth >= 2 && g.hdr {
		w.Distinct(gen.Hash64(gen.HashStr(t.String()), uint64(exp), g.shape))
	}
	w.Sample(func() interface{} {
		return mon.D{"type": fmt.Sprintf("%.200s", t.String()), "value": short(x, 200), "expected_size": exp, "depth": g.depth}
	})
}

type c20Node struct {
	Val  int64
	Next *c20Node
}
type c20Nest []c20Nest
type c20Box struct{ In interface{} }

// c20Deep: acyclic values nested deeper than 1000 steps (breadth never reaches such depths).
func c20Deep(w *mon.W, idx int) {
	r := w.Rng
	n := []int{1100, 1500, 4000}[idx%3] + r.Intn(50)
	w.Bucket("depth>1000")
	switch (idx / 3) % 3 {
	case 0: // linked list: each node int64 + pointer header, last pointer nil
		var head *c20Node
		for i := 0; i < n; i++ {
			head = &c20Node{Val: int64(i), Next: head}
		}
		c20Observe(w, head, c20Ptr+n*(8+c20Ptr), "deep-linked-list")
	case 1: // type nest []nest, one element per level, innermost nil
		var v c20Nest
		exp := c20Slice
		for i := 0; i < n; i++ {
			v = c20Nest{v}
			exp += c20Slice
		}
		c20Observe(w, v, exp, "deep-nested-slices")
	default: // &box{in: &box{in: ... payload}}
		payload := "payload-" + string(gen.ZooBytes(r, 20))
		var cur interface{} = payload
		exp := c20Str + len(payload)
		for i := 0; i < n/3; i++ {
			cur = &c20Box{In: cur}
			exp += c20Ptr + c20Iface
		}
		c20Observe(w, cur, exp, "deep-interface-wrappers")
	}
	w.Distinct(gen.Hash64(0xdee9, uint64(n), uint64(idx%9)))
	w.Sample(func() interface{} {
		return mon.D{"what": "value nested deeper than 1000 steps", "depth": n, "shape": (idx / 3) % 3}
	})
}

// c20SameNamed: distinct types that print the same name (function-local declarations), measured one
// after the other: a result remembered per type NAME instead of per type goes stale.
func c20SameNamed(w *mon.W, idx int) {
	r := w.Rng
	a := func() (interface{}, int) {
		type rec struct {
			ID int32
			N  int64
		}
		v := []rec{{1, 2}, {3, 4}, {5, int64(r.Intn(9))}}
		return v, c20Slice + 3*(4+8)
	}
	b := func() (interface{}, int) {
		type rec struct {
			ID   int32
			Name string
		}
		v := []rec{{1, "alice"}, {2, "bob"}}
		return v, c20Slice + 2*(4+c20Str) + 5 + 3
	}
	c := func() (interface{}, int) {
		type rec struct {
			P *int16
			B [3]bool
		}
		x := int16(7)
		v := [2]rec{{&x, [3]bool{}}, {nil, [3]bool{true}}}
		return v, (c20Ptr + 2 + 3) + (c20Ptr + 3)
	}
	order := [][]func() (interface{}, int){{a, b, c}, {b, a, c}, {c, b, a}, {a, c, b}}[idx%4]
	for _, f := range order {
		v, exp := f()
		c20Observe(w, v, exp, "same-named-local-type")
	}
	w.Bucket("same-named-distinct-types")
	w.Distinct(gen.Hash64(0x5a9e, uint64(idx%4)))
	w.Sample(func() interface{} {
		return mon.D{"what": "three function-local types all named rec, measured in order", "order": idx % 4}
	})
}
