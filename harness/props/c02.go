package props

import (
	"fmt"

	"github.com/openacid/low/bitmap"

	"verif/internal/gen"
	"verif/internal/mon"
)

// C02 — Select32 / Select32R64 exact and inverse to rank.
// Oracle: the ascending list P of 1-positions from a naive bit scan.

func init() {
	register(&mon.Prop{
		ID:    "C02",
		Level: "exploration",
		Rule: "every valid i of every bitmap: (a) the in-word search COMPLETELY per 16-bit lane: 4 lanes x all 65536 lane values x other lanes {all 0, all 1} (524288 single-word bitmaps, embedded at word 0/1 of 1..3-word bitmaps); " +
			"(b) all 64x64 two-bit words; (c) multi-word bitmaps with n in {1,2,31,32,33,63,64,65,95,96,97,128,129,...} ones separated by gaps from {1,2,63,64,65,128,200,384} bits (0..5 empty words between 1-bits); " +
			"(d) zoo bitmaps of 1..40 words (quick) / up to 500 (thorough). Both Select32 and Select32R64; index shapes and contents checked; derived rank(select(i)) = i through Rank64. " +
			"Non-trivial+distinct = hash of bitmaps with at least two 1-bits and one 0.",
		Assumptions: []string{"only 0 <= i < n (outside, the functions panic by design)"},
		Flavours:    releaseAnd386,
		Required: []string{"long-run/calls>=100000-per-function", "bitmap=2^31-64-bits", "arguments-in-read-only-memory", "i=n-1", "i%32=31", "i%32=0", "i%32=1", "answer-word!=checkpoint-word", "next/same-word", "next/later-word", "next/skips-empty-words", "next/absent",
			"lane=0", "lane=1", "lane=2", "lane=3", "answer-in-high-byte-of-lane", "answer-in-low-byte-of-lane", "bitmap/no-ones", "ones>=65536", "words>=65536", "gap>=2^31/31-bits"},
		Families: func(c *mon.Config) []mon.Family {
			return []mon.Family{
				{Name: "cold-start", N: 1, Serial: true, Run: func(w *mon.W, _ int) {
					if !coldFirst(w, coldPick(coldRankSelect(), "Select32", "Select32R64", "IndexSelect32", "IndexSelect32R64")) {
						return
					}
					defer coldLast(w, coldPick(coldRankSelect(), "Select32", "Select32R64", "IndexSelect32", "IndexSelect32R64"))
					var pos []int32
					var cov c02Cov
					for _, b := range [][]uint64{{^uint64(0)}, {}, {0}, {^uint64(0), ^uint64(0)}, {0, 0}, {1 << 63}, {1}} {
						if !c02Check(w, b, &pos, &cov) {
							return
						}
					}
					w.Bucket("cold-start")
				}},
				{Name: "lanes16", N: 4 * 2 * 64, Run: c02Lanes},
				{Name: "two-bit-words", N: 64, Run: c02TwoBit},
				{Name: "gaps", N: c.Pick(10000, 2000000), Run: c02Gaps},
				{Name: "zoo", Env: 8, N: c.Pick(20000, 3000000), Run: c02Zoo},
				{Name: "zoo-long", Env: 4, N: c.Pick(400, 100000), Run: c02ZooLong},
				{Name: "dense-long", Env: 3, N: c.Pick(6, 300), Run: c02DenseLong},
				{Name: "huge-sparse", N: c.Pick(1, 6), Run: c02HugeSparse},
				{Name: "huge-bitmap", NoCold: true, N: b2i(c.Base() != "386"), Run: c02Huge},
				lrFamily(c02LongRun),
			}
		},
	})
}

type c02Cov struct {
	last, m31, m0, m1, otherWord, nextSame, nextLater, nextSkips, nextAbsent, hiByte, loByte int64
}

func (c *c02Cov) flush(w *mon.W) {
	w.BucketN("i=n-1", c.last)
	w.BucketN("i%32=31", c.m31)
	w.BucketN("i%32=0", c.m0)
	w.BucketN("i%32=1", c.m1)
	w.BucketN("answer-word!=checkpoint-word", c.otherWord)
	w.BucketN("next/same-word", c.nextSame)
	w.BucketN("next/later-word", c.nextLater)
	w.BucketN("next/skips-empty-words", c.nextSkips)
	w.BucketN("next/absent", c.nextAbsent)
	w.BucketN("answer-in-high-byte-of-lane", c.hiByte)
	w.BucketN("answer-in-low-byte-of-lane", c.loByte)
}

// c02Check runs the select API on one bitmap. scratch is reused between calls.
func c02Check(w *mon.W, words []uint64, pos *[]int32, cov *c02Cov) bool {
	words, guard := argW(w, words)
	nw := len(words)
	P := (*pos)[:0]
	for i := 0; i < nw*64; i++ {
		if bitAt(words, i) == 1 {
			P = append(P, int32(i))
		}
	}
	*pos = P
	n := len(P)
	w.Obj = nil
	w.Op = "IndexSelect32"
	sidx := bitmap.IndexSelect32(words)
	if nw > 0 && words[0]&3 == 1 {
		w.Op = "IndexRank64/IndexRank128 (neighbouring builders between two select builders)"
		bitmap.IndexRank128(words)
		bitmap.IndexRank64(words, true)
	}
	w.Op = "IndexSelect32R64"
	sidx2, ridx := bitmap.IndexSelect32R64(words)
	w.Eval(2)
	ret, _ := w.State["c02"].(*retained)
	if ret == nil {
		ret = &retained{}
		w.State["c02"] = ret
	}
	_ = ret
	d := func(extra mon.D) mon.D {
		extra["words"] = truncW(words, 6)
		extra["nwords"] = nw
		extra["ones"] = n
		return extra
	}
	if overlapI32(sidx2, ridx) {
		w.Fail("IndexSelect32R64/the-two-results-share-memory", d(mon.D{"len_sidx": len(sidx2), "cap_sidx": cap(sidx2), "len_ridx": len(ridx), "cap_ridx": cap(ridx),
			"what": "the select index and the rank index returned by one call overlap within their capacities: an append to one overwrites the other"}))
		return false
	}
	if len(sidx) != (n+31)/32 || len(sidx2) != (n+31)/32 || len(ridx) != nw+1 {
		w.Fail("Index/shape", d(mon.D{"len_sidx": len(sidx), "len_sidx_r64": len(sidx2), "len_ridx": len(ridx), "expected_sidx": (n + 31) / 32, "expected_ridx": nw + 1}))
		return false
	}
	for k := range sidx {
		if sidx[k] != P[32*k] || sidx2[k] != P[32*k] {
			w.Fail("IndexSelect32/entry", d(mon.D{"entry": k, "got": sidx[k], "got_r64": sidx2[k], "expected": P[32*k]}))
			return false
		}
	}
	// rank index = naive prefix counts with total
	{
		var cnt int32
		for k := 0; k <= nw; k++ {
			if ridx[k] != cnt {
				w.Fail("IndexSelect32R64/rank-entry", d(mon.D{"entry": k, "got": ridx[k], "expected": cnt}))
				return false
			}
			if k < nw {
				for j := 0; j < 64; j++ {
					cnt += int32(bitAt(words, 64*k+j))
				}
			}
		}
	}
	if n == 0 {
		w.Bucket("bitmap/no-ones")
		return c02Finish(w, guard, ret, sidx, sidx2, ridx, nw)
	}
	end := int32(64 * nw)
	// the queries get the indexes as a caller may hold them: views into a larger array, poison around them
	qS, gS := dirtyI32(sidx)
	qS2, gS2 := dirtyI32(sidx2)
	qR, gR := dirtyI32(ridx)
	hS, hS2, hR := hashI32(qS), hashI32(qS2), hashI32(qR)
	defer func() {
		if !gS() || !gS2() || !gR() || hashI32(qS) != hS || hashI32(qS2) != hS2 || hashI32(qR) != hR {
			w.Fail("Select/wrote-to-or-outside-the-index-argument", d(mon.D{"what": "an index passed to Select32/Select32R64, or the poison next to it, changed during the queries"}))
		}
	}()
	for i := 0; i < n; i++ {
		ea := P[i]
		eb := end
		if i+1 < n {
			eb = P[i+1]
		}
		w.Op, w.A = "Select32", int64(i)
		a1, b1 := bitmap.Select32(words, qS, int32(i))
		w.Op = "Select32R64"
		a2, b2 := bitmap.Select32R64(words, qS2, qR, int32(i))
		if a1 != ea || b1 != eb {
			cls := "ith"
			if a1 == ea {
				cls = "next"
			}
			w.Fail("Select32/"+cls, d(mon.D{"i": i, "got": []int32{a1, b1}, "expected": []int32{ea, eb}}))
			return false
		}
		if a2 != ea || b2 != eb {
			cls := "ith"
			if a2 == ea {
				cls = "next"
			}
			w.Fail("Select32R64/"+cls, d(mon.D{"i": i, "got": []int32{a2, b2}, "expected": []int32{ea, eb}}))
			return false
		}
		// derived: rank(select(i)) = i and the selected bit is 1 (through the library's own rank)
		if i&7 == 0 {
			w.Op = "Rank64"
			c, bit := bitmap.Rank64(words, ridx, a1)
			if int(c) != i || bit != 1 {
				w.Fail("rank-of-select", d(mon.D{"i": i, "select": a1, "rank": c, "bit": bit}))
				return false
			}
		}
		// coverage
		if i == n-1 {
			cov.last++
		}
		switch i & 31 {
		case 31:
			cov.m31++
		case 0:
			cov.m0++
		case 1:
			cov.m1++
		}
		if ea>>6 != sidx[i>>5]>>6 {
			cov.otherWord++
		}
		switch {
		case eb == end && i+1 >= n:
			cov.nextAbsent++
		case eb>>6 == ea>>6:
			cov.nextSame++
		default:
			cov.nextLater++
			if eb>>6 > ea>>6+1 {
				cov.nextSkips++
			}
		}
		if (ea>>3)&1 == 1 {
			cov.hiByte++
		} else {
			cov.loByte++
		}
	}
	w.Eval(int64(2 * n))
	if n >= 2 && n < nw*64 {
		w.Distinct(gen.HashWords(words))
	}
	// a prefix view of the bitmap and the bitmap itself, each with its own indexes, queried alternately (both are
	// legitimate, read-only bitmaps that share their first word): the last 1-bit of the prefix, then the following one of
	// the whole bitmap
	if k := nw / 2; k >= 1 && gen.HashWords(words)&3 == 1 {
		cp := 0
		for cp < n && P[cp] < int32(64*k) {
			cp++
		}
		if cp >= 1 && cp < n {
			pre := words[:k]
			w.Op = "IndexSelect32(prefix view)"
			ps := bitmap.IndexSelect32(pre)
			ps2, pr := bitmap.IndexSelect32R64(pre)
			w.Op, w.A = "Select32(prefix view, then the whole bitmap)", int64(cp-1)
			a1, b1 := bitmap.Select32(pre, ps, int32(cp-1))
			eb := end
			if cp+1 < n {
				eb = P[cp+1]
			}
			a2, b2 := bitmap.Select32(words, qS, int32(cp))
			a3, b3 := bitmap.Select32R64(pre, ps2, pr, int32(cp-1))
			a4, b4 := bitmap.Select32R64(words, qS2, qR, int32(cp))
			w.Eval(6)
			if a1 != P[cp-1] || b1 != int32(64*k) || a3 != a1 || b3 != b1 || a2 != P[cp] || b2 != eb || a4 != a2 || b4 != b2 {
				w.Fail("Select/prefix-view-then-whole-bitmap", d(mon.D{"prefix_words": k, "i_in_prefix": cp - 1, "prefix_select32": []int32{a1, b1}, "prefix_select32r64": []int32{a3, b3},
					"whole_select32": []int32{a2, b2}, "whole_select32r64": []int32{a4, b4}, "expected_prefix": []int32{P[cp-1], int32(64 * k)}, "expected_whole": []int32{P[cp], eb}}))
				return false
			}
			w.Bucket("select/prefix-view-then-whole-bitmap")
		}
	}
	// the bitmap and its indexes in memory that cannot be written (ro.go): same indexes, same answers, no fault
	if gen.HashWords(words)&7 == 0 {
		roReset(w)
		rw, rs, rs2, rr := roWords(w, words), roI32(w, sidx), roI32(w, sidx2), roI32(w, ridx)
		if release, ok := roSeal(w); ok {
			w.Op = "IndexSelect32(read-only bitmap)"
			a := bitmap.IndexSelect32(rw)
			w.Op = "IndexSelect32R64(read-only bitmap)"
			b, c := bitmap.IndexSelect32R64(rw)
			if !eqI32(a, sidx) || !eqI32(b, sidx2) || !eqI32(c, ridx) {
				release()
				w.Fail("Index/differs-on-read-only-bitmap", d(mon.D{}))
				return false
			}
			step := 1
			if n > 512 {
				step = n/512 | 1
			}
			for i := 0; i < n; i += step {
				eb := end
				if i+1 < n {
					eb = P[i+1]
				}
				w.Op, w.A = "Select32(read-only bitmap and index)", int64(i)
				a1, b1 := bitmap.Select32(rw, rs, int32(i))
				w.Op = "Select32R64(read-only bitmap and indexes)"
				a2, b2 := bitmap.Select32R64(rw, rs2, rr, int32(i))
				if a1 != P[i] || a2 != P[i] || b1 != eb || b2 != eb {
					release()
					w.Fail("Select/differs-on-read-only-arguments", d(mon.D{"i": i, "got": []int32{a1, b1}, "got_r64": []int32{a2, b2}, "expected": []int32{P[i], eb}}))
					return false
				}
			}
			release()
			w.Eval(2 + 2*int64((n+step-1)/step))
			w.Bucket("arguments-in-read-only-memory")
		}
	}
	// in-place update of the bitmap, then the index builders again (see C01)
	if nw > 0 {
		k := int((words[0] >> 7) % uint64(nw))
		words[k] ^= 1<<uint(words[0]&63) | 1<<uint((words[0]>>8)&63)
		w.Op = "IndexSelect32R64(after in-place update)"
		s2, r2 := bitmap.IndexSelect32R64(words)
		w.Op = "IndexSelect32(after in-place update)"
		s1 := bitmap.IndexSelect32(words)
		w.Eval(2)
		if len(r2) != nw+1 {
			w.Fail("Index/shape", d(mon.D{"what": "rank index returned by IndexSelect32R64 for the updated bitmap", "len_ridx": len(r2), "expected_ridx": nw + 1}))
			return false
		}
		var c int32
		var exp []int32
		for i := 0; i < nw*64; i++ {
			if i&63 == 0 && r2[i>>6] != c {
				w.Fail("Index/stale-after-in-place-update", d(mon.D{"what": "rank index of IndexSelect32R64 does not describe the bitmap after an in-place update", "entry": i >> 6, "got": r2[i>>6], "expected": c}))
				return false
			}
			if bitAt(words, i) == 1 {
				if c&31 == 0 {
					exp = append(exp, int32(i))
				}
				c++
			}
		}
		if !eqI32(s1, exp) || !eqI32(s2, exp) || r2[nw] != c {
			w.Fail("Index/stale-after-in-place-update", d(mon.D{"what": "select index does not describe the bitmap after an in-place update", "got": trunc32(s1, 6), "got_r64": trunc32(s2, 6), "expected": trunc32(exp, 6)}))
			return false
		}
		// the walk continues on the updated bitmap with its new indexes, first at the i that follows the last query on
		// the old content, then from the start (round 12 seeded a sequential-access memo in Select32 that identified the
		// bitmap by the address of its first word)
		var NP []int32
		for i := 0; i < nw*64; i++ {
			if bitAt(words, i) == 1 {
				NP = append(NP, int32(i))
			}
		}
		var order []int
		for i := n; i < len(NP) && i < n+3; i++ {
			order = append(order, i)
		}
		for i := 0; i < len(NP) && i < 6; i++ {
			order = append(order, i)
		}
		for _, i := range order {
			ea, eb := NP[i], int32(64*nw)
			if i+1 < len(NP) {
				eb = NP[i+1]
			}
			w.Op, w.A = "Select32(after in-place update)", int64(i)
			a1, b1 := bitmap.Select32(words, s1, int32(i))
			w.Op = "Select32R64(after in-place update)"
			a2, b2 := bitmap.Select32R64(words, s2, r2, int32(i))
			if a1 != ea || b1 != eb || a2 != ea || b2 != eb {
				w.Fail("Select/stale-after-in-place-update", d(mon.D{"what": "the bitmap was changed in place and indexed again; the walk continued with the new indexes", "i": i, "select32": []int32{a1, b1}, "select32r64": []int32{a2, b2}, "expected": []int32{ea, eb}}))
				return false
			}
		}
		w.Eval(int64(2 * len(order)))
		scribbleI32(s1)
		scribbleI32(s2)
		scribbleI32(r2)
	}
	return c02Finish(w, guard, ret, sidx, sidx2, ridx, nw)
}

// c02Finish: guard words around the argument intact; then the hostile caller scribbles over the
// returned indexes and they are retained to detect later changes.
func c02Finish(w *mon.W, guard func() bool, ret *retained, sidx, sidx2, ridx []int32, nw int) bool {
	if !guard() {
		w.Fail("Select/wrote-outside-len-of-argument", mon.D{"what": "poison next to the bitmap (before it, or between len and cap) was overwritten", "nwords": nw})
		return false
	}
	scribbleI32(sidx)
	scribbleI32(sidx2)
	scribbleI32(ridx)
	if ret.keep(sidx, sidx2, ridx) >= 0 {
		w.Fail("Index/earlier-returned-index-changed-by-later-call", mon.D{"what": "an index slice returned by an earlier IndexSelect32/IndexSelect32R64 call changed its content after a later call", "nwords_of_later_bitmap": nw})
		return false
	}
	return true
}

func c02Lanes(w *mon.W, idx int) {
	lane := idx % 4
	fill := (idx / 4) % 2
	block := idx / 8
	var pos []int32
	var cov c02Cov
	r := w.Rng
	laneMask := uint64(0xffff) << (16 * uint(lane))
	for v := block * 1024; v < (block+1)*1024; v++ {
		word := uint64(v) << (16 * uint(lane))
		if fill == 1 {
			word |= ^laneMask
		}
		var words []uint64
		switch v % 3 {
		case 0:
			words = []uint64{word}
		case 1:
			words = []uint64{gen.ZooWord(r, r.Intn(gen.NWordClasses)), word}
		default:
			words = []uint64{word, gen.ZooWord(r, r.Intn(gen.NWordClasses)), 0}
		}
		if !c02Check(w, words, &pos, &cov) {
			return
		}
	}
	cov.flush(w)
	w.Bucket(fmt.Sprintf("lane=%d", lane))
	w.Extra("lane16_words_enumerated", 1024)
	w.Sample(func() interface{} {
		return mon.D{"lane": lane, "other_lanes": []string{"all 0", "all 1"}[fill], "lane_values": fmt.Sprintf("%d..%d", block*1024, block*1024+1023)}
	})
}

func c02TwoBit(w *mon.W, idx int) {
	var pos []int32
	var cov c02Cov
	for j := 0; j < 64; j++ {
		word := uint64(1)<<uint(idx) | uint64(1)<<uint(j)
		if !c02Check(w, []uint64{word}, &pos, &cov) || !c02Check(w, []uint64{0, word, 0}, &pos, &cov) {
			return
		}
	}
	cov.flush(w)
	w.Sample(func() interface{} { return mon.D{"two_bit_words_with_bit": idx} })
}

var c02Counts = []int{1, 2, 31, 32, 33, 63, 64, 65, 95, 96, 97, 128, 129, 255, 256, 257, 2017, 2047, 2048, 2049, 4096, 8192}
var c02GapChoices = []int{1, 1, 2, 63, 64, 65, 128, 200, 384}

func c02Gaps(w *mon.W, idx int) {
	r := w.Rng
	n := c02Counts[idx%len(c02Counts)]
	var ps []int
	p := r.Intn(70)
	mode := r.Intn(3)
	for i := 0; i < n; i++ {
		ps = append(ps, p)
		switch mode {
		case 0:
			p += c02GapChoices[r.Intn(len(c02GapChoices))]
		case 1:
			p += 1 + r.Intn(3)
		default:
			if r.Intn(8) == 0 {
				p += 64 * (1 + r.Intn(6))
			} else {
				p += 1
			}
		}
	}
	nw := ps[len(ps)-1]/64 + 1 + r.Intn(3)
	words := make([]uint64, nw)
	for _, q := range ps {
		setBit(words, q)
	}
	var pos []int32
	var cov c02Cov
	if c02Check(w, words, &pos, &cov) {
		cov.flush(w)
		w.Sample(func() interface{} {
			return mon.D{"ones": n, "nwords": nw, "gap_mode": mode, "first_positions": ps[:min(8, len(ps))]}
		})
	}
}

func c02Zoo(w *mon.W, idx int) {
	words := gen.ZooBitmap(w.Rng, 1+idx%40)
	if idx%10 == 7 {
		words = gen.RunBitmap(w.Rng, 140+idx%280)
		w.Bucket("bitmap/run-structured")
	}
	var pos []int32
	var cov c02Cov
	if c02Check(w, words, &pos, &cov) {
		cov.flush(w)
		w.Sample(func() interface{} { return mon.D{"nwords": len(words), "first_words": truncW(words, 4)} })
	}
}

func c02ZooLong(w *mon.W, idx int) {
	words := gen.ZooBitmap(w.Rng, 41+w.Rng.Intn(w.Cfg.Pick(100, 460)))
	var pos []int32
	var cov c02Cov
	if c02Check(w, words, &pos, &cov) {
		cov.flush(w)
		w.Sample(func() interface{} { return mon.D{"nwords": len(words)} })
	}
}

// c02DenseLong: all-one / dense / half-empty bitmaps of 1030..2100 words: more than 2^16 ones, select
// checkpoints far from the start, long skip loops.
func c02DenseLong(w *mon.W, idx int) {
	r := w.Rng
	n := []int{1030, 1100, 2100}[idx%3]
	if idx == 5 || w.Cfg.Thorough() && idx%32 == 9 {
		n = []int{65536, 65539, 131075}[r.Intn(3)] // at and beyond 2^16 words
		w.Bucket("words>=65536")
	}
	words := make([]uint64, n)
	for i := range words {
		switch (idx / 3) % 3 {
		case 0:
			words[i] = ^uint64(0)
		case 1:
			words[i] = r.Uint64() | r.Uint64() | r.Uint64()
		default:
			if i%2 == 0 || i > n-300 {
				words[i] = ^uint64(0)
			}
		}
	}
	w.Tick()
	var pos []int32
	var cov c02Cov
	if c02Check(w, words, &pos, &cov) {
		cov.flush(w)
		if len(pos) >= 65536 {
			w.Bucket("ones>=65536")
		}
		w.Sample(func() interface{} { return mon.D{"nwords": n, "ones": len(pos), "what": "dense long bitmap"} })
	}
}

// c02HugeSparse: about 10^8 bits with a few dozen ones and a gap of more than 2^31/31 bits between
// two sampled ones (positions and products of positions leave the comfortable int32 range).
func c02HugeSparse(w *mon.W, idx int) {
	r := w.Rng
	nbits := 100000000 + r.Intn(5000000)
	words := make([]uint64, (nbits+63)/64)
	var ps []int
	p := r.Intn(3000)
	for i := 0; i < 70; i++ {
		ps = append(ps, p)
		switch {
		case i == 32+idx%8:
			p += 90000000 // the huge gap lies inside the second group of 32
		default:
			p += 1 + r.Intn(3000)
		}
	}
	for _, q := range ps {
		if q < nbits {
			setBit(words, q)
		}
	}
	w.Tick()
	w.Op = "IndexSelect32R64(huge sparse)"
	sidx, ridx := bitmap.IndexSelect32R64(words)
	w.Tick()
	w.Op = "IndexSelect32(huge sparse)"
	sidx1 := bitmap.IndexSelect32(words)
	w.Tick()
	end := int32(64 * len(words))
	var P []int32
	for _, q := range ps {
		if q < nbits {
			P = append(P, int32(q))
		}
	}
	for i := range P {
		ea, eb := P[i], end
		if i+1 < len(P) {
			eb = P[i+1]
		}
		w.Op, w.A = "Select32(huge sparse)", int64(i)
		a1, b1 := bitmap.Select32(words, sidx1, int32(i))
		w.Op = "Select32R64(huge sparse)"
		a2, b2 := bitmap.Select32R64(words, sidx, ridx, int32(i))
		if a1 != ea || b1 != eb || a2 != ea || b2 != eb {
			w.Fail("Select/huge-sparse", mon.D{"nbits": nbits, "i": i, "Select32": []int32{a1, b1}, "Select32R64": []int32{a2, b2}, "expected": []int32{ea, eb}})
			return
		}
	}
	w.Eval(int64(2*len(P)) + 2)
	w.Bucket("gap>=2^31/31-bits")
	w.Distinct(gen.Hash64(0x5a7, uint64(nbits), uint64(ps[0])))
	w.Sample(func() interface{} { return mon.D{"nbits": nbits, "ones": len(P), "largest_gap_bits": 90000000} })
}

// c02Huge (round 12): the largest bitmap for which 64*len(words) - the "no next 1-bit" answer - is still an int32:
// 2^25-1 words (2^31-64 bits). 1-bits at the head, around 2^30 and in the last words (the last bit of the bitmap too);
// untouched pages in between. Indexes built by the library; every i.
func c02Huge(w *mon.W, _ int) {
	nw := 1<<25 - 1
	n := int64(nw) * 64
	words, release := hugeZeroWords(nw)
	defer release()
	var P []int64
	for p := int64(0); p < 70; p += 2 { // more than 32 ones: several select-index entries
		P = append(P, p)
	}
	P = append(P, 1<<20, 1<<30+5, n-4000, n-129, n-128, n-65, n-64, n-2, n-1)
	for _, p := range P {
		words[p>>6] |= 1 << uint(p&63)
	}
	w.Op, w.A = "IndexSelect32(huge)", int64(nw)
	sidx := bitmap.IndexSelect32(words)
	w.Tick()
	w.Op = "IndexSelect32R64(huge)"
	sidx2, ridx := bitmap.IndexSelect32R64(words)
	w.Tick()
	if len(sidx) != (len(P)+31)/32 || len(sidx2) != len(sidx) || len(ridx) != nw+1 {
		w.Fail("Index/shape", mon.D{"nwords": nw, "len_sidx": len(sidx), "len_sidx_r64": len(sidx2), "len_ridx": len(ridx)})
		return
	}
	for k := range sidx {
		if int64(sidx[k]) != P[32*k] || int64(sidx2[k]) != P[32*k] {
			w.Fail("IndexSelect32/entry", mon.D{"nwords": nw, "entry": k, "got": sidx[k], "got_r64": sidx2[k], "expected": P[32*k]})
			return
		}
	}
	if ridx[nw] != int32(len(P)) || ridx[nw-1] != int32(len(P)-3) || ridx[1] != 32 {
		w.Fail("IndexSelect32R64/rank-entry", mon.D{"nwords": nw, "total": ridx[nw], "expected_total": len(P)})
		return
	}
	for i := range P {
		ea, eb := int32(P[i]), int32(n)
		if i+1 < len(P) {
			eb = int32(P[i+1])
		}
		w.Op, w.A = "Select32(huge)", int64(i)
		a1, b1 := bitmap.Select32(words, sidx, int32(i))
		w.Op = "Select32R64(huge)"
		a2, b2 := bitmap.Select32R64(words, sidx2, ridx, int32(i))
		if a1 != ea || b1 != eb || a2 != ea || b2 != eb {
			w.Fail("Select/huge-bitmap", mon.D{"nwords": nw, "i": i, "select32": []int32{a1, b1}, "select32r64": []int32{a2, b2}, "expected": []int32{ea, eb}})
			return
		}
		w.Tick()
	}
	w.Eval(int64(2*len(P) + 2))
	w.Bucket("bitmap=2^31-64-bits")
	w.Distinct(gen.Hash64(0x2b32, uint64(len(P))))
	w.Sample(func() interface{} {
		return mon.D{"nwords": nw, "ones": len(P), "what": "indexes built by the library, every i"}
	})
}
