package props

import (
	"fmt"

	"github.com/openacid/low/bitword"

	"verif/internal/gen"
	"verif/internal/mon"
)

// C08 — bitword: n-bit word split/join round-trips and indexes consistently.
// Oracle: word i of s at width n = bits [i*n, (i+1)*n) read one bit at a time, MSB first.

var c08Widths = []int{1, 2, 4, 8}

func c08Word(s string, n, i int) byte {
	var v byte
	for k := 0; k < n; k++ {
		p := i*n + k
		v = v<<1 | (s[p>>3]>>(7-uint(p&7)))&1
	}
	return v
}

func c08Pack(words []byte, n int) string {
	nbits := len(words) * n
	out := make([]byte, (nbits+7)/8)
	for i, wv := range words {
		for k := 0; k < n; k++ {
			if (wv>>uint(n-1-k))&1 == 1 {
				p := i*n + k
				out[p>>3] |= 1 << (7 - uint(p&7))
			}
		}
	}
	return string(out)
}

func init() {
	register(&mon.Prop{
		ID:    "C08",
		Level: "exploration",
		Rule: "all 256 one-byte and all 65536 two-byte strings x 4 widths (every (width, word-in-byte, byte value) combination for FromStr/Get/ToStr); random strings of 0..40 bytes; ToStr of in-range word slices of EVERY length 0..17; " +
			"FirstDiff on pairs from a common stem (equal, one bit flipped in word k, one a prefix of the other, unrelated) with ALL (from,end) in [0,w+2] x ({-1} u [0,w+3]); FromStrs/ToStrs on lists of 0..5 strings. " +
			"Non-trivial+distinct = hash of (width, string) for non-empty strings; hash of (width, a, b) FirstDiff pairs.",
		Assumptions: []string{"Get only for i < words(s); ToStr only on in-range word values; from >= 0; end = -1 or >= 0"},
		Flavours:    func(tier string) []string { return append(releaseAnd386("quick"), "go126") }, // go1.26.8 also in quick: newer compilers place small non-escaping makes on the stack
		Required: []string{"long-run/calls>=100000-per-function", "arguments-in-read-only-memory", "w=1", "w=2", "w=4", "w=8", "tostr/partial-last-byte", "tostr/empty", "firstdiff/end=-1", "firstdiff/from>=lim", "firstdiff/end-beyond-shorter", "firstdiff/found", "firstdiff/none",
			"firstdiff/prefix-pair", "firstdiff/end>=MaxInt/8", "firstdiff/end<-1", "strs/empty-list", "strs/append-to-element", "strs/batch>=4096", "strs/tostrs-partial-byte-element-not-last", "strs/tostrs-overlapping-views", "byte>=0x80", "len>=300", "tostr/long-result-retained"},
		Families: func(c *mon.Config) []mon.Family {
			return []mon.Family{
				{Name: "cold-start", N: 1, Serial: true, Run: c08Cold},
				{Name: "one-two-byte", N: 4 * 257, Run: c08Enum},
				{Name: "random-strings", Env: 10, N: c.Pick(20000, 4000000), Run: c08Random},
				{Name: "tostr-lengths", Env: 4, N: 4 * 18 * c.Pick(20, 5000), Run: c08ToStr},
				{Name: "firstdiff", N: c.Pick(10000, 2000000), Run: c08FirstDiff},
				{Name: "strs", Env: 6, N: c.Pick(5000, 1000000), Run: c08Strs},
				{Name: "long-strings", Env: 2, N: c.Pick(60, 6000), Run: func(w *mon.W, idx int) {
					s := string(gen.ZooBytes(w.Rng, []int{1024, 2000, 5000, 40000}[idx%4]+w.Rng.Intn(100)))
					for _, n := range c08Widths {
						if !c08CheckStr(w, n, s) {
							return
						}
					}
					w.Distinct(gen.Hash64(0x10c8, gen.HashStr(s)))
					w.Sample(func() interface{} {
						return mon.D{"len": len(s), "what": "long string, all widths, ToStr results retained"}
					})
				}},
				lrFamily(c08LongRun),
			}
		},
	})
}

// c08CheckStr checks FromStr / Get / ToStr on one string at one width.
func c08CheckStr(w *mon.W, n int, s string) bool {
	bw := bitword.BitWord[n]
	if (gen.HashStr(s)+uint64(n))&3 == 0 {
		// the string as the last bytes of a mapping: nothing may be read beyond it
		if v, rel, ok := roTailStr(w, s); ok {
			s = v
			defer rel()
		}
	}
	w.Op, w.A, w.Obj = "FromStr", int64(n), nil
	words := bw.FromStr(s)
	nwords := 8 * len(s) / n
	if len(words) != nwords {
		w.Fail("FromStr/len", mon.D{"width": n, "s": fmt.Sprintf("%q", s), "got": len(words), "expected": nwords})
		return false
	}
	for i := 0; i < nwords; i++ {
		e := c08Word(s, n, i)
		if words[i] != e {
			w.Fail(fmt.Sprintf("FromStr/word/w=%d", n), mon.D{"width": n, "s": fmt.Sprintf("%q", s), "i": i, "got": words[i], "expected": e})
			return false
		}
		w.Op, w.B = "Get", int64(i)
		if g := bw.Get(s, i); g != e {
			w.Fail(fmt.Sprintf("Get/w=%d", n), mon.D{"width": n, "s": fmt.Sprintf("%q", s), "i": i, "got": g, "expected": e})
			return false
		}
	}
	w.Op = "ToStr"
	back := bw.ToStr(words)
	if back != s {
		w.Fail(fmt.Sprintf("ToStr(FromStr(s))/w=%d", n), mon.D{"width": n, "s": fmt.Sprintf("%.60q", s), "got": fmt.Sprintf("%.60q", back)})
		return false
	}
	// strings returned earlier must still read the same (a string built without copying from a buffer
	// the library reuses would change): keep the last few long results and re-read them
	if len(s) >= 256 {
		held, _ := w.State["c08held"].([][2]string)
		for _, h := range held {
			if h[0] != h[1] {
				w.Fail("ToStr/earlier-returned-string-changed-by-later-call", mon.D{"len": len(h[1]), "what": "a string returned by an earlier ToStr call no longer equals what it was"})
				w.State["c08held"] = [][2]string(nil)
				return false
			}
		}
		if len(held) >= 6 {
			held = held[1:]
		}
		w.State["c08held"] = append(held, [2]string{back, string(append([]byte(nil), s...))})
		w.Bucket("tostr/long-result-retained")
	}
	w.Eval(int64(2*nwords + 2))
	scribbleB(words) // ours now; a shared or cached buffer would poison later results
	if len(s) > 0 && s[0]&7 == 0 && !retainCheck(w, "FromStr", "bitword FromStr", func() uint64 { return gen.HashBytes(words) }) {
		return false
	}
	return true
}

// c08Cold: for every width another function makes the FIRST call on that width in this process (rotated by the
// process variant): Get, FirstDiff, ToStr, ToStrs, FromStrs, FromStr. Each is compared with the bit model.
func c08Cold(w *mon.W, _ int) {
	rot := w.Cfg.ColdRotation()
	s, t := "a\x5a\xff\x01z", "a\x5a\xfe\x01z"
	for k, n := range c08Widths {
		bw := bitword.BitWord[n]
		nw := 8 * len(s) / n
		words := make([]byte, nw)
		firstDiff := nw
		for i := nw - 1; i >= 0; i-- {
			words[i] = c08Word(s, n, i)
			if words[i] != c08Word(t, n, i) {
				firstDiff = i
			}
		}
		which := (k + rot) % 6
		w.Op, w.A = "cold first call", int64(n)
		d := func(call string, got, exp interface{}) mon.D {
			return mon.D{"width": n, "first_call_on_this_width_in_the_process": call, "s": fmt.Sprintf("%q", s), "got": fmt.Sprint(got), "expected": fmt.Sprint(exp)}
		}
		switch which {
		case 0:
			for _, i := range []int{nw - 1, 0, 3 % nw} {
				if g := bw.Get(s, i); g != words[i] {
					w.Fail("cold/Get-before-any-other-call", d(fmt.Sprintf("Get(s,%d)", i), g, words[i]))
					return
				}
			}
		case 1:
			if g := bw.FirstDiff(s, t, 0, -1); g != firstDiff {
				w.Fail("cold/FirstDiff-before-any-other-call", d("FirstDiff(s,t,0,-1)", g, firstDiff))
				return
			}
		case 2:
			if g := bw.ToStr(words); g != s {
				w.Fail("cold/ToStr-before-any-other-call", d("ToStr(words)", fmt.Sprintf("%q", g), fmt.Sprintf("%q", s)))
				return
			}
		case 3:
			if g := bw.ToStrs([][]byte{words, words[:nw/2]}); len(g) != 2 || g[0] != s || g[1] != c08Pack(words[:nw/2], n) {
				w.Fail("cold/ToStrs-before-any-other-call", d("ToStrs", fmt.Sprintf("%q", g), ""))
				return
			}
		case 4:
			if g := bw.FromStrs([]string{s, ""}); len(g) != 2 || string(g[0]) != string(words) || len(g[1]) != 0 {
				w.Fail("cold/FromStrs-before-any-other-call", d("FromStrs", g, words))
				return
			}
		default:
			if g := bw.FromStr(s); string(g) != string(words) {
				w.Fail("cold/FromStr-before-any-other-call", d("FromStr", g, words))
				return
			}
		}
		w.Eval(1)
		// and the usual complete check right after
		if !c08CheckStr(w, n, s) {
			return
		}
	}
	w.Bucket("cold-start")
}

func c08Enum(w *mon.W, idx int) {
	n := c08Widths[idx%4]
	hi := idx / 4 // 0..255: first byte of the two-byte strings; 256: the one-byte strings and ""
	w.Bucket(fmt.Sprintf("w=%d", n))
	if hi == 256 {
		if !c08CheckStr(w, n, "") {
			return
		}
		for b := 0; b < 256; b++ {
			if !c08CheckStr(w, n, string([]byte{byte(b)})) {
				return
			}
		}
		w.DistinctExact(256)
		w.Extra("one_byte_strings_enumerated", 256)
	} else {
		for b := 0; b < 256; b++ {
			if !c08CheckStr(w, n, string([]byte{byte(hi), byte(b)})) {
				return
			}
		}
		w.DistinctExact(256)
		w.Extra("two_byte_strings_enumerated", 256)
		if hi >= 0x80 {
			w.Bucket("byte>=0x80")
		}
	}
	w.Sample(func() interface{} {
		return mon.D{"width": n, "strings": fmt.Sprintf("first byte %#x x all second bytes", hi)}
	})
}

func c08Random(w *mon.W, idx int) {
	r := w.Rng
	s := string(gen.ZooBytes(r, r.Intn(41)))
	if idx%50 == 49 {
		s = string(gen.ZooBytes(r, 300+r.Intn(900))) // long strings: byte/word index arithmetic far from 0
		w.Bucket("len>=300")
	}
	if idx%10 == 3 {
		s = string(gen.PeriodicBytes(r)) // a short chunk repeated 16-45 times (periods 1..16)
		w.Bucket("string/periodic")
	}
	for _, n := range c08Widths {
		if !c08CheckStr(w, n, s) {
			return
		}
		if len(s) > 0 {
			w.Distinct(gen.Hash64(uint64(n), gen.HashStr(s)))
		}
	}
	w.Sample(func() interface{} { return mon.D{"s": fmt.Sprintf("%q", s), "widths": c08Widths} })
}

func c08ToStr(w *mon.W, idx int) {
	r := w.Rng
	n := c08Widths[idx%4]
	l := (idx / 4) % 18
	words := make([]byte, l)
	for i := range words {
		switch r.Intn(3) {
		case 0:
			words[i] = byte(1<<uint(n) - 1)
		case 1:
			words[i] = 0
		default:
			words[i] = byte(r.Intn(1 << uint(n)))
		}
	}
	in := append([]byte(nil), words...)
	bw := bitword.BitWord[n]
	w.Op, w.A, w.B = "ToStr", int64(n), int64(l)
	// the argument is a view into a larger array (a prefix of a longer word slice): what lies beyond len is not ours
	words, guard := dirtyB(words)
	if (l+int(n))%3 == 1 { // or lives in memory that cannot be written (ro.go)
		roReset(w)
		v := roBytes(w, in)
		if rel, ok := roSeal(w); ok {
			words = v
			defer rel()
			w.Bucket("arguments-in-read-only-memory")
		}
	}
	got := bw.ToStr(words)
	exp := c08Pack(in, n)
	w.Eval(1)
	if !guard() {
		w.Fail("ToStr/wrote-outside-len-of-argument", mon.D{"width": n, "words": in, "what": "the poison before the argument or between its len and cap was overwritten"})
		return
	}
	if got != exp {
		w.Fail(fmt.Sprintf("ToStr/pack/w=%d", n), mon.D{"width": n, "words": in, "got": fmt.Sprintf("%q", got), "expected": fmt.Sprintf("%q", exp)})
		return
	}
	if string(in) != string(words) {
		w.Fail("ToStr/input-modified", mon.D{"width": n})
		return
	}
	if (l*n)%8 != 0 {
		w.Bucket("tostr/partial-last-byte")
	}
	if l == 0 {
		w.Bucket("tostr/empty")
	}
	if l > 0 {
		w.Distinct(gen.Hash64(7, uint64(n), gen.HashBytes(in)))
	}
	w.Sample(func() interface{} { return mon.D{"width": n, "words": in, "packed": fmt.Sprintf("%q", got)} })
}

func c08FirstDiff(w *mon.W, idx int) {
	r := w.Rng
	n := c08Widths[idx%4]
	bw := bitword.BitWord[n]
	stem := gen.ZooBytes(r, r.Intn(5))
	a := append([]byte(nil), stem...)
	b := append([]byte(nil), stem...)
	kind := (idx / 4) % 5
	switch kind {
	case 0: // equal
	case 1: // one bit flipped
		if len(b) > 0 {
			b[r.Intn(len(b))] ^= 1 << uint(r.Intn(8))
		}
	case 2: // a is a prefix of b
		b = append(b, gen.ZooBytes(r, 1+r.Intn(2))...)
		w.Bucket("firstdiff/prefix-pair")
	case 3: // b is a prefix of a
		a = append(a, gen.ZooBytes(r, 1+r.Intn(2))...)
		w.Bucket("firstdiff/prefix-pair")
	default:
		b = gen.ZooBytes(r, r.Intn(5))
	}
	sa, sb := string(a), string(b)
	if idx%3 == 1 { // one of the two strings as the last bytes of a mapping
		if idx%2 == 0 {
			if v, rel, ok := roTailStr(w, sa); ok {
				sa = v
				defer rel()
			}
		} else if v, rel, ok := roTailStr(w, sb); ok {
			sb = v
			defer rel()
		}
	}
	wa, wb := 8*len(sa)/n, 8*len(sb)/n
	wmax := max(wa, wb)
	var ev int64
	for from := 0; from <= wmax+2; from++ {
		// end = -1 is the only sentinel: -2, -3, -4 are ordinary (empty-window) ends, lim = end
		for end := -4; end <= wmax+3; end++ {
			lim := end
			if end == -1 {
				lim = wa
			}
			lim = min(lim, min(wa, wb))
			exp := lim
			for i := from; i < lim; i++ {
				if c08Word(sa, n, i) != c08Word(sb, n, i) {
					exp = i
					break
				}
			}
			w.Op, w.A, w.B = "FirstDiff", int64(from), int64(end)
			got := bw.FirstDiff(sa, sb, from, end)
			ev++
			if got != exp {
				w.Fail("FirstDiff", mon.D{"width": n, "a": fmt.Sprintf("%q", sa), "b": fmt.Sprintf("%q", sb), "from": from, "end": end, "got": got, "expected": exp})
				w.Eval(ev)
				return
			}
			if end == -1 {
				w.Bucket("firstdiff/end=-1")
			}
			if end < -1 {
				w.Bucket("firstdiff/end<-1")
			}
			if from >= lim {
				w.Bucket("firstdiff/from>=lim")
			} else if exp < lim {
				w.Bucket("firstdiff/found")
			} else {
				w.Bucket("firstdiff/none")
			}
			if end > min(wa, wb) {
				w.Bucket("firstdiff/end-beyond-shorter")
			}
		}
	}
	// windows at the extreme of the int domain: a huge end means "up to the end of the shorter
	// string", a huge from means an empty window
	const maxInt = int(^uint(0) >> 1)
	for _, end := range []int{maxInt, maxInt - 1, maxInt / 2, maxInt/2 + 1, maxInt / 8, maxInt/8 + 1, maxInt >> 16, 1<<31 - 1, maxInt>>31 + 1, -maxInt - 1, -maxInt, -maxInt / 2, -1 << 31, -2} {
		for _, from := range []int{0, 1, wmax, maxInt, maxInt / 2, maxInt/8 + 1, maxInt>>31 + 7} {
			lim := min(end, min(wa, wb))
			exp := lim
			for i := from; i < lim; i++ {
				if c08Word(sa, n, i) != c08Word(sb, n, i) {
					exp = i
					break
				}
			}
			w.Op, w.A, w.B = "FirstDiff(extreme)", int64(from), int64(end)
			got := bw.FirstDiff(sa, sb, from, end)
			ev++
			if got != exp {
				w.Fail("FirstDiff/extreme-window", mon.D{"width": n, "a": fmt.Sprintf("%q", sa), "b": fmt.Sprintf("%q", sb), "from": from, "end": end, "got": got, "expected": exp})
				w.Eval(ev)
				return
			}
		}
	}
	w.Bucket("firstdiff/end>=MaxInt/8")
	w.Eval(ev)
	w.Distinct(gen.Hash64(8, uint64(n), gen.HashStr(sa), gen.HashStr(sb)))
	w.Sample(func() interface{} {
		return mon.D{"width": n, "a": fmt.Sprintf("%q", sa), "b": fmt.Sprintf("%q", sb), "windows": ev}
	})
}

func c08Strs(w *mon.W, idx int) {
	r := w.Rng
	n := c08Widths[idx%4]
	bw := bitword.BitWord[n]
	k := r.Intn(6)
	if idx%200 == 199 {
		k = 4096 + r.Intn(3000) // batches beyond 2^12 elements
		w.Bucket("strs/batch>=4096")
	}
	strs := make([]string, k)
	for i := range strs {
		strs[i] = string(gen.ZooBytes(r, r.Intn(6)))
	}
	if k == 0 {
		w.Bucket("strs/empty-list")
	}
	w.Op, w.A = "FromStrs", int64(n)
	qStrs, gStrs := dirtyStrs(strs) // the list as a view into a larger array
	if idx%4 == 1 && k > 0 {        // or in memory that cannot be written (ro.go)
		if v, rel, ok := roOneStrs(w, strs); ok {
			qStrs = v
			defer rel()
		}
	}
	ws := bw.FromStrs(qStrs)
	if !gStrs() {
		w.Fail("FromStrs/wrote-outside-len-of-argument", mon.D{"width": n, "nstrs": len(strs)})
		return
	}
	if len(ws) != k {
		w.Fail("FromStrs/len", mon.D{"width": n, "strs": fmt.Sprintf("%q", strs), "got": len(ws)})
		return
	}
	for i := range strs {
		e := make([]byte, 8*len(strs[i])/n)
		for j := range e {
			e[j] = c08Word(strs[i], n, j)
		}
		if string(ws[i]) != string(e) {
			w.Fail("FromStrs/element", mon.D{"width": n, "i": i, "s": fmt.Sprintf("%q", strs[i]), "got": ws[i], "expected": e})
			return
		}
	}
	w.Op = "ToStrs"
	back := bw.ToStrs(ws)
	if len(back) != k {
		w.Fail("ToStrs/len", mon.D{"width": n, "got": len(back)})
		return
	}
	for i := range strs {
		if back[i] != strs[i] {
			w.Fail("ToStrs/element", mon.D{"width": n, "i": i, "s": fmt.Sprintf("%q", strs[i]), "got": fmt.Sprintf("%q", back[i])})
			return
		}
	}
	// ToStrs is element-wise ToStr for ANY word slices, not only FromStrs output: elements with a partial last
	// byte, empty elements, in the middle of the batch
	if k <= 64 || idx%400 == 199 {
		m := 2 + r.Intn(6)
		if k > 64 {
			m = 4096 + r.Intn(100)
		}
		raw := make([][]byte, m)
		exp := make([]string, m)
		partial := false
		for i := range raw {
			raw[i] = make([]byte, r.Intn(20))
			for j := range raw[i] {
				raw[i][j] = byte(r.Intn(1 << uint(n)))
			}
			exp[i] = c08Pack(raw[i], n)
			if (len(raw[i])*n)%8 != 0 && i < m-1 {
				partial = true
			}
		}
		// every third batch: the elements are overlapping prefix views of ONE word slice (len < cap)
		var whole, whole0 []byte
		if idx%3 == 0 && m <= 64 {
			whole = make([]byte, 24)
			for j := range whole {
				whole[j] = byte(r.Intn(1 << uint(n)))
			}
			whole0 = append([]byte(nil), whole...)
			for i := range raw {
				raw[i] = whole[:r.Intn(21)]
				exp[i] = c08Pack(raw[i], n)
			}
			w.Bucket("strs/tostrs-overlapping-views")
		}
		w.Op = "ToStrs(raw words)"
		// the batch itself as a view into a larger array of slices
		outer := make([][]byte, len(raw)+3)
		sentinel := []byte{poisonB}
		for i := range outer {
			outer[i] = sentinel
		}
		copy(outer[1:], raw)
		qRaw := outer[1 : 1+len(raw) : len(raw)+2]
		if idx%4 == 2 { // the batch - headers and words - in memory that cannot be written (ro.go)
			roReset(w)
			v := roBBs(w, raw)
			if rel, ok := roSeal(w); ok {
				qRaw = v
				defer rel()
				w.Bucket("arguments-in-read-only-memory")
			}
		}
		got := bw.ToStrs(qRaw)
		if len(outer[0]) != 1 || len(outer[1+len(raw)]) != 1 || len(outer[2+len(raw)]) != 1 || &outer[0][0] != &sentinel[0] || &outer[1+len(raw)][0] != &sentinel[0] {
			w.Fail("ToStrs/wrote-outside-len-of-argument", mon.D{"width": n, "elements": len(raw)})
			return
		}
		if string(whole) != string(whole0) {
			w.Fail("ToStrs/wrote-outside-len-of-element", mon.D{"width": n, "before": whole0, "after": whole, "what": "the elements are prefix views of one word slice; words beyond an element's len changed"})
			return
		}
		w.Eval(1)
		if len(got) != m {
			w.Fail("ToStrs/len", mon.D{"width": n, "elements": m, "got": len(got)})
			return
		}
		for i := range got {
			if got[i] != exp[i] {
				w.Fail("ToStrs/not-element-wise-ToStr", mon.D{"width": n, "elements": m, "i": i, "words": raw[i], "previous_words": raw[max(i-1, 0)], "got": fmt.Sprintf("%q", got[i]), "expected": fmt.Sprintf("%q", exp[i])})
				return
			}
		}
		if partial {
			w.Bucket("strs/tostrs-partial-byte-element-not-last")
		}
	}
	// hostile caller: every element of the FromStrs result is ours; append a word to each (a trie
	// builder appends terminators) and check that no OTHER element changed, then scribble
	for i := range ws {
		if k > 64 && i%257 != 0 {
			continue
		}
		ws[i] = append(ws[i], 0xee)
		for j := range ws {
			e := 8 * len(strs[j]) / n
			for x := 0; x < e; x++ {
				if ws[j][x] != c08Word(strs[j], n, x) {
					w.Fail("FromStrs/elements-share-memory", mon.D{"width": n, "strs": fmt.Sprintf("%q", strs), "appended_to": i, "changed_element": j, "word": x})
					return
				}
			}
		}
	}
	if k >= 2 {
		w.Bucket("strs/append-to-element")
	}
	for i := range ws {
		scribbleB(ws[i])
	}
	w.Eval(2)
	if k >= 1 {
		h := uint64(n)
		for _, s := range strs {
			h = gen.Hash64(h, gen.HashStr(s))
		}
		w.Distinct(h)
	}
	w.Sample(func() interface{} { return mon.D{"width": n, "strs": fmt.Sprintf("%q", strs)} })
}
