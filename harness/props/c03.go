package props

import (
	"fmt"

	"github.com/openacid/low/bmtree"

	"verif/internal/gen"
	"verif/internal/mon"
)

// C03 — PathToIndex is the pre-order rank of a tree node among the stored nodes, in the release
// and in the -tags debug build.
//
// Two oracles cross-validated inside the run: (a) literal recursive pre-order traversal,
// (b) path walk (bm_common.go). Paths are built by the harness's own constructor.

func init() {
	register(&mon.Prop{
		ID:    "C03",
		Level: "exploration",
		Rule: "ALL level masks x ALL nodes for every height <= 10 (quick) / <= 13 (thorough) against the literal pre-order list and the walk oracle (bijection onto [0,bitmapSize) and strict order follow from list position); " +
			"heights 11..30: masks {full, leaf-only, full minus each single level, alternating, top-k, bottom-k, random} x paths {all-left, all-right, alternating, random} of EVERY length 0..h against the walk oracle (int32 edge h=30 included). " +
			"The identical case list runs in the release and the -tags debug build; each emits an order-independent digest of all (mask, path, index, has) results and the parent requires equal digests and zero contract panics. " +
			"Non-trivial+distinct = exact count of (mask, node) pairs enumerated with a partial mask (neither full nor leaf-only) + hash of (mask, path) for the sampled heights.",
		Assumptions: []string{"masks in [1, 2^31); well-formed paths of the mask's height; PathToIndex only on stored levels",
			"debug flavour liveness: three malformed paths must raise a contract panic there, otherwise the flavour is not really 'debug' and the run is inconclusive"},
		Flavours: func(tier string) []string {
			if tier == "thorough" {
				return []string{"release", "debug", "386"}
			}
			return []string{"release", "debug"}
		},
		Required: []string{"long-run/calls>=100000-per-function", "mask/full", "mask/leaf-only", "mask/partial", "node/root", "node/leaf", "node/absent-level", "node/stored-level", "h=30", "h>=11", "index>=2^30", "path/all-right", "path/all-left", "sequence/related-masks-alternating"},
		Families: func(c *mon.Config) []mon.Family {
			hmax := c.Pick(10, 13)
			return []mon.Family{
				{Name: "cold-start", N: 1, Serial: true, Run: c03Cold},
				{Name: "contract-liveness", N: 1, Run: c03Liveness},
				{Name: "all-masks-all-nodes", N: (1 << uint(hmax+1)) - 1, Run: c03AllSmall},
				{Name: "large-heights", Env: 20, N: 20 * c.Pick(200, 20000), Run: c03Large},
				{Name: "related-mask-sequences", Env: 10, N: c.Pick(600, 60000), Run: c03Sequences},
				lrFamily(c03LongRun),
			}
		},
		Merge: func(tier string, rs map[string]*mon.Result) []mon.Violation {
			rel, dbg := rs["release"], rs["debug"]
			if rel == nil || dbg == nil || !rel.Complete || !dbg.Complete || len(rel.Violations) > 0 || len(dbg.Violations) > 0 {
				return nil
			}
			if rel.Digest != dbg.Digest || rel.Extra["index_results_digested"] != dbg.Extra["index_results_digested"] {
				d := []byte(fmt.Sprintf(`{"release_digest":"%016x","debug_digest":"%016x","release_results":%d,"debug_results":%d}`,
					rel.Digest, dbg.Digest, rel.Extra["index_results_digested"], dbg.Extra["index_results_digested"]))
				return []mon.Violation{{Sig: "debug-vs-release/digest-differs", Flavour: "debug", Detail: d, Count: 1}}
			}
			return nil
		},
	})
}

// c03Malformed are (bitmapSize, path) pairs that violate the documented contracts.
var c03Malformed = []struct {
	name string
	mask int32
	path uint64
}{
	{"non-contiguous path mask", 0xf, 0x0000000000000005},
	{"search bits outside the path mask", 0xf, 0x0000000300000004},
	{"path height != bitmap height", 0xf, 0x0000000000000003},
}

func c03Liveness(w *mon.W, _ int) {
	for _, m := range c03Malformed {
		panicked := false
		func() {
			defer func() {
				if recover() != nil {
					panicked = true
				}
			}()
			bmtree.PathToIndexLoose(m.mask, m.path)
		}()
		switch {
		case w.Cfg.Flavour == "debug" && !panicked:
			w.Harness("debug-flavour-not-live", mon.D{"what": "malformed path raised no contract panic in the debug flavour", "case": m.name})
		case w.Cfg.Flavour == "debug":
			w.Bucket("liveness/debug-contract-fired")
		case panicked:
			w.Bucket("liveness/release-panicked-on-malformed")
		default:
			w.Bucket("liveness/release-silent-on-malformed")
		}
	}
}

type c03Ctx struct {
	w    *mon.W
	mask uint32
	h    int
	path uint64
	op   string
}

// c03Call runs both index functions on one node and compares with the expected rank.
func (c *c03Ctx) call(l int, prefix uint64, expIdx int64, expHas bool) bool {
	w := c.w
	p := bmPathWord(prefix, l, c.h)
	c.path = p
	c.op = "PathToIndexLoose"
	w.Op, w.A, w.B = c.op, int64(c.mask), int64(p)
	gi, gh := bmtree.PathToIndexLoose(int32(c.mask), p)
	d := func(extra mon.D) mon.D {
		extra["bitmapSize"] = fmt.Sprintf("%#b", c.mask)
		extra["height"] = c.h
		extra["path"] = fmt.Sprintf("%#016x", p)
		extra["path_len"] = l
		extra["path_bits"] = fmt.Sprintf("%0*b", l, prefix)
		extra["expected_index"] = expIdx
		extra["expected_has"] = expHas
		return extra
	}
	if int64(gi) != expIdx || (gh == 1) != expHas || (gh != 0 && gh != 1) {
		cls := "index"
		if int64(gi) == expIdx {
			cls = "has"
		}
		w.Fail("PathToIndexLoose/"+cls+"/"+c03MaskClass(c.mask, c.h), d(mon.D{"got_index": gi, "got_has": gh}))
		return false
	}
	w.Digest(gen.Hash64(uint64(c.mask), p, uint64(uint32(gi)), uint64(gh)))
	n := int64(1)
	if expHas {
		c.op = "PathToIndex"
		w.Op = c.op
		g := bmtree.PathToIndex(int32(c.mask), p)
		if int64(g) != expIdx {
			w.Fail("PathToIndex/index/"+c03MaskClass(c.mask, c.h), d(mon.D{"got_index": g}))
			return false
		}
		w.Digest(gen.Hash64(7, uint64(c.mask), p, uint64(uint32(g))))
		n++
	}
	w.Extra("index_results_digested", n)
	w.Eval(n)
	return true
}

func c03MaskClass(mask uint32, h int) string {
	switch {
	case mask == (uint32(1)<<uint(h+1))-1:
		return "full"
	case mask == uint32(1)<<uint(h):
		return "leaf-only"
	}
	return "partial"
}

// guard converts a contract panic (debug build) or any other panic inside the library calls of
// one case into a violation that names the call and the path.
func (c *c03Ctx) guard() {
	if r := recover(); r != nil {
		sig := "panic/" + c.op
		if c.w.Cfg.Flavour == "debug" {
			sig = "debug-contract-panic/" + c.op
		}
		c.w.Fail(sig+"/"+c03MaskClass(c.mask, c.h), mon.D{"bitmapSize": fmt.Sprintf("%#b", c.mask), "height": c.h, "path": fmt.Sprintf("%#016x", c.path),
			"panic": fmt.Sprintf("%.400v", r), "flavour": c.w.Cfg.Flavour})
	}
}

func c03AllSmall(w *mon.W, idx int) {
	mask := uint32(idx + 1) // every mask in [1, 2^(hmax+1))
	h := bmHeight(mask)
	c := &c03Ctx{w: w, mask: mask, h: h}
	defer c.guard()
	cls := c03MaskClass(mask, h)
	w.Bucket("mask/" + cls)
	pos := int64(0)
	ok := true
	var pairs int64
	bmPreorder(h, func(l int, prefix uint64) {
		if !ok {
			return
		}
		stored := bmStored(mask, l)
		// oracle (a): position in the literal pre-order list of stored nodes; (b): the walk. They must agree.
		wi, wh := bmWalkRank(mask, h, l, prefix)
		if wi != pos || wh != stored {
			w.Harness("c03/oracles-disagree", mon.D{"mask": mask, "l": l, "prefix": prefix, "literal": pos, "walk": wi})
			ok = false
			return
		}
		if !c.call(l, prefix, pos, stored) {
			ok = false
			return
		}
		pairs++
		if stored {
			pos++
		}
	})
	if !ok {
		return
	}
	if pos != int64(mask) {
		w.Harness("c03/stored-count", mon.D{"mask": mask, "stored_nodes": pos})
		return
	}
	w.BucketN("node/root", 1)
	w.BucketN("node/leaf", int64(1)<<uint(h))
	w.BucketN("node/stored-level", pos)
	w.BucketN("node/absent-level", pairs-pos)
	w.Bucket("path/all-left")
	w.Bucket("path/all-right")
	if cls == "partial" {
		w.DistinctExact(pairs)
	}
	w.Extra("mask_node_pairs_enumerated", pairs)
	w.Sample(func() interface{} {
		return mon.D{"bitmapSize": fmt.Sprintf("%#b", mask), "height": h, "nodes_checked": pairs, "stored_nodes": pos, "oracles": "literal pre-order + walk"}
	})
}

func c03Large(w *mon.W, idx int) {
	r := w.Rng
	h := 11 + idx%20
	full := (uint32(1) << uint(h+1)) - 1
	top := uint32(1) << uint(h)
	var mask uint32
	switch (idx / 20) % 8 {
	case 0:
		mask = full
	case 1:
		mask = top
	case 2:
		mask = full &^ (uint32(1) << uint(r.Intn(h))) // full minus one level
	case 3:
		mask = (0x55555555 & full) | top
	case 4:
		mask = (0xaaaaaaaa & full) | top
	case 5:
		k := 1 + r.Intn(h)
		mask = top | ((uint32(1) << uint(k)) - 1) // top-k: the levels nearest the root
	case 6:
		k := 1 + r.Intn(h)
		mask = full &^ ((uint32(1) << uint(h-k)) - 1) // bottom-k: the levels nearest the leaves
	default:
		mask = uint32(r.Uint64())&full | top
	}
	c := &c03Ctx{w: w, mask: mask, h: h}
	defer c.guard()
	w.Bucket("mask/" + c03MaskClass(mask, h))
	w.Bucket("h>=11")
	if h == 30 {
		w.Bucket("h=30")
	}
	for l := 0; l <= h; l++ {
		m := (uint64(1) << uint(l)) - 1
		for _, prefix := range []uint64{0, m, 0x5555555555555555 & m, 0xaaaaaaaaaaaaaaaa & m, r.Uint64() & m, r.Uint64() & m} {
			ei, eh := bmWalkRank(mask, h, l, prefix)
			if ei > int64(1<<31-1) {
				w.Harness("c03/expected-index-overflows-int32", mon.D{"mask": mask, "l": l})
				return
			}
			if !c.call(l, prefix, ei, eh) {
				return
			}
			if ei >= 1<<30 {
				w.Bucket("index>=2^30")
			}
			if eh {
				w.Bucket("node/stored-level")
			} else {
				w.Bucket("node/absent-level")
			}
			if c03MaskClass(mask, h) == "partial" {
				w.Distinct(gen.Hash64(uint64(mask), bmPathWord(prefix, l, h)))
			}
		}
	}
	w.Bucket("path/all-left")
	w.Bucket("path/all-right")
	w.Sample(func() interface{} {
		return mon.D{"bitmapSize": fmt.Sprintf("%#b", mask), "height": h, "path_lengths": "0..h", "paths_per_length": 6, "oracle": "walk"}
	})
}

// c03Sequences: consecutive calls alternate between RELATED level masks - X, and X with one more
// high level bit (in particular X + 2^30), X with its lowest bit flipped, the full and leaf-only mask
// of the same height - so that anything a call leaves behind for the next call (a memo keyed on a
// truncated size, a cached classification) is used with a different mask right away.
func c03Sequences(w *mon.W, idx int) {
	r := w.Rng
	hx := r.Intn(30)
	fullX := (uint32(1) << uint(hx+1)) - 1
	var x uint32
	switch idx % 3 {
	case 0:
		x = fullX
	case 1:
		x = uint32(1) << uint(hx)
	default:
		x = uint32(1)<<uint(hx) | uint32(r.Uint64())&fullX
	}
	hy := hx + 1 + r.Intn(30-hx)
	if idx%2 == 0 {
		hy = 30
	}
	masks := []uint32{x, x | uint32(1)<<uint(hy), x ^ 1 | uint32(1)<<uint(hx), (uint32(1) << uint(hy+1)) - 1, uint32(1) << uint(hy)}
	var ctxs []*c03Ctx
	for _, m := range masks {
		ctxs = append(ctxs, &c03Ctx{w: w, mask: m, h: bmHeight(m)})
	}
	cur := ctxs[0]
	defer func() { cur.guard() }()
	for step := 0; step < 40; step++ {
		// X, then the related mask, alternating; every few steps another member of the family
		cur = ctxs[0]
		if step&1 == 1 {
			cur = ctxs[1+(step/2)%4]
		}
		l := r.Intn(cur.h + 1)
		m := (uint64(1) << uint(l)) - 1
		prefix := []uint64{0, m, r.Uint64() & m}[r.Intn(3)]
		ei, eh := bmWalkRank(cur.mask, cur.h, l, prefix)
		if !cur.call(l, prefix, ei, eh) {
			return
		}
	}
	w.Bucket("sequence/related-masks-alternating")
	w.Distinct(gen.Hash64(0x5e9, uint64(masks[0]), uint64(masks[1])))
	w.Sample(func() interface{} {
		return mon.D{"masks_alternated": []string{fmt.Sprintf("%#b", masks[0]), fmt.Sprintf("%#b", masks[1])}, "calls": 40}
	})
}

// c03Cold: the first index calls of the process use the masks and paths that look like "nothing yet"
// values: mask 1 with the root, the full height-30 mask with the all-right leaf, zero-ish paths.
func c03Cold(w *mon.W, _ int) {
	cl := coldPick(coldPathCalls(), "PathToIndex", "PathToIndexLoose")
	if !coldFirst(w, cl) {
		return
	}
	defer coldLast(w, cl)
	cases := []struct {
		mask   uint32
		l      int
		prefix uint64
	}{{1<<31 - 1, 30, 1<<30 - 1}, {1, 0, 0}, {1<<31 - 1, 0, 0}, {1 << 30, 30, 0}, {1 << 30, 30, 1<<30 - 1}, {3, 1, 1}, {2, 1, 0}, {1<<30 | 1, 30, 1<<30 - 1}}
	for _, x := range cases {
		c := &c03Ctx{w: w, mask: x.mask, h: bmHeight(x.mask)}
		ok := func() bool {
			defer c.guard()
			ei, eh := bmWalkRank(x.mask, c.h, x.l, x.prefix)
			return c.call(x.l, x.prefix, ei, eh)
		}()
		if !ok || w.Failed() {
			return
		}
	}
	w.Bucket("cold-start")
}
