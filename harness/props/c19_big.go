package props

import (
	"fmt"
	"runtime"
	"sort"
	"sync"
	"sync/atomic"

	"github.com/openacid/low/bitmap"
	"github.com/openacid/low/bitstr"
	"github.com/openacid/low/bitword"
	"github.com/openacid/low/bmtree"
	"github.com/openacid/low/sigbits"

	"verif/internal/gen"
	"verif/internal/mon"
)

// Phase F of C19: "its result depends only on its arguments" on arguments large enough for an implementation to
// treat them differently (hundreds of thousands of keys, tens of thousands of words, trees of 17 levels), under
// every setting of the environment sweep (number of Ps, busy peers), sequentially and from several goroutines at
// once. The baseline is the same call under GOMAXPROCS=1 with nothing else running.

type c19BigCall struct {
	name string
	run  func() uint64
}

func hashStrs(ss []string) uint64 {
	h := uint64(len(ss))
	for _, s := range ss {
		h = gen.Hash64(h, gen.HashStr(s))
	}
	return h
}

func hashBB(bb [][]byte) uint64 {
	h := uint64(len(bb))
	for _, b := range bb {
		h = gen.Hash64(h, gen.HashBytes(b))
	}
	return h
}

func c19BigInputs(seed int64) (calls []c19BigCall, digest func() uint64, desc string, sortedKeys []string) {
	r := gen.NewRand(seed, "C19", "big", 0)
	// keys: sorted, unique, shared prefixes
	nk := 300007
	seen := map[string]struct{}{}
	keys := make([]string, 0, nk)
	defer func() { sortedKeys = keys }()
	for len(keys) < nk {
		b := make([]byte, 3+r.Intn(5))
		for i := range b {
			b[i] = "abcdefghijklmnop"[r.Intn(16)]
		}
		if _, ok := seen[string(b)]; !ok {
			seen[string(b)] = struct{}{}
			keys = append(keys, string(b))
		}
	}
	seen = nil
	sort.Strings(keys)
	// words: runs of empty, full, sparse and dense words
	nw := 20011
	words := make([]uint64, nw)
	for i := 0; i < nw; {
		run := 1 + r.Intn(40)
		kind := r.Intn(5)
		for j := 0; j < run && i < nw; j, i = j+1, i+1 {
			switch kind {
			case 0:
			case 1:
				words[i] = ^uint64(0)
			case 2:
				words[i] = 1 << uint(r.Intn(64))
			default:
				words[i] = r.Uint64()
			}
		}
	}
	words[nw-1] |= 1 << 63
	r64 := bitmap.IndexRank64(words)
	r128 := bitmap.IndexRank128(words)
	sidx := bitmap.IndexSelect32(words)
	sidx2, r64t := bitmap.IndexSelect32R64(words)
	ones := int(r64t[len(r64t)-1])
	// a tree of 17 levels
	const tall = int32(0x1ffff)
	tbm := make([]uint64, 2048)
	for i := range tbm {
		tbm[i] = r.Uint64() & r.Uint64()
	}
	tbm[2047] |= 1 << 62 // the last leaf of the full tree
	// positions and fixed-width values
	pos := make([]int32, 0, 100003)
	for p := 0; len(pos) < 100003; p += 1 + r.Intn(5) {
		pos = append(pos, int32(p))
	}
	vals := make([]uint64, 40001)
	for i := range vals {
		vals[i] = r.Uint64() & 15
	}
	long := gen.ZooBytes(r, 1<<20+1)
	longS := string(long)
	encA := bitstr.New(longS, 0, int32(8*len(longS)-3))
	encB := bitstr.New(longS, 0, int32(8*len(longS)-9))
	batch := keys[:65537]
	bw := bitword.BitWord[4]
	enc4 := bw.FromStrs(batch)

	digest = func() uint64 {
		return gen.Hash64(hashStrs(keys), gen.HashWords(words), hashI32(r64), hashI32(r128), hashI32(sidx), hashI32(sidx2), hashI32(r64t), gen.HashWords(tbm), hashI32(pos), gen.HashWords(vals),
			gen.HashBytes(long), gen.HashBytes(encA), gen.HashBytes(encB), hashBB(enc4))
	}
	desc = fmt.Sprintf("%d sorted keys, bitmap of %d words (%d ones) with its four indexes, %d-bit tree bitmap of 17 levels, %d positions, %d 4-bit values, 1 MiB strings, batch of %d strings", nk, nw, ones, tall, len(pos), len(vals), len(batch))
	calls = []c19BigCall{
		{"sigbits.FirstDiffBits", func() uint64 { return hashI32(sigbits.FirstDiffBits(keys)) }},
		{"sigbits.New+CountPrefixes", func() uint64 {
			sb := sigbits.New(keys)
			h := uint64(0)
			for _, q := range [][3]int32{{0, int32(nk), 12}, {1, 5000, 8}, {262100, 262200, 16}, {100000, 300000, 4}} {
				m0, cnt := sb.CountPrefixes(q[0], q[1], q[2])
				h = gen.Hash64(h, uint64(uint32(m0)), hashI32(cnt))
			}
			return h
		}},
		{"sigbits.ShardByPrefix", func() uint64 {
			a, b := sigbits.ShardByPrefix(keys, 1000)
			return gen.Hash64(hashI32(a), hashI32(b))
		}},
		{"bitmap.IndexRank64", func() uint64 {
			return gen.Hash64(hashI32(bitmap.IndexRank64(words)), hashI32(bitmap.IndexRank64(words, true)))
		}},
		{"bitmap.IndexRank128", func() uint64 { return hashI32(bitmap.IndexRank128(words)) }},
		{"bitmap.IndexSelect32", func() uint64 { return hashI32(bitmap.IndexSelect32(words)) }},
		{"bitmap.IndexSelect32R64", func() uint64 {
			a, b := bitmap.IndexSelect32R64(words)
			if a == nil || b == nil {
				return 1
			}
			return gen.Hash64(hashI32(a), hashI32(b))
		}},
		{"bitmap.Rank64/Rank128/Select32/Select32R64(sampled)", func() uint64 {
			h := uint64(0)
			for k := 0; k < 3000; k++ {
				i := int32((k * 427) % (64 * nw))
				a, b := bitmap.Rank64(words, r64, i)
				c, d := bitmap.Rank128(words, r128, i)
				j := int32((k * 311) % ones)
				e, f := bitmap.Select32(words, sidx, j)
				g, hh := bitmap.Select32R64(words, sidx2, r64t, j)
				h = gen.Hash64(h, uint64(uint32(a)), uint64(uint32(b)), uint64(uint32(c)), uint64(uint32(d)), uint64(uint32(e)), uint64(uint32(f)), uint64(uint32(g)), uint64(uint32(hh)))
			}
			return h
		}},
		{"bitmap.NextOne/PrevOne(long ranges)", func() uint64 {
			h := uint64(0)
			for k := 0; k < 400; k++ {
				i := int32((k * 3203) % (64 * nw))
				h = gen.Hash64(h, uint64(uint32(bitmap.NextOne(words, i, int32(64*nw)))), uint64(uint32(bitmap.PrevOne(words, 0, i+1))))
			}
			return h
		}},
		{"bitmap.ToArray", func() uint64 { return hashI32(bitmap.ToArray(words)) }},
		{"bitmap.Slice", func() uint64 { return gen.HashWords(bitmap.Slice(words, 77, int32(64*nw-131))) }},
		{"bitmap.Of", func() uint64 { return gen.HashWords(bitmap.Of(pos)) }},
		{"bitmap.Join+Getw", func() uint64 {
			j := bitmap.Join(vals, 4)
			h := gen.HashWords(j)
			for i := 0; i < len(vals); i += 97 {
				h = gen.Hash64(h, bitmap.Getw(j, int32(i), 4))
			}
			return h
		}},
		{"bmtree.Decode(17 levels)", func() uint64 { return gen.HashWords(bmtree.Decode(tall, tbm)) }},
		// bitmaps shorter than the tree: trailing empty words may be omitted (C04)
		{"bmtree.Decode(17 levels, bitmap of 700 of 2048 words)", func() uint64 { return gen.HashWords(bmtree.Decode(tall, tbm[:700])) }},
		{"bmtree.Decode(17 levels, bitmap of 1 word)", func() uint64 { return gen.HashWords(bmtree.Decode(tall, tbm[:1])) }},
		{"bmtree.AllPaths(17 levels)", func() uint64 { return gen.HashWords(bmtree.AllPaths(tall, 0, ^uint64(0))) }},
		{"bmtree.PathsOf", func() uint64 {
			return gen.Hash64(gen.HashWords(bmtree.PathsOf(keys[:100003], 3, 17, true)), gen.HashWords(bmtree.PathsOf(keys[:100003], 0, 9, false)))
		}},
		{"bitword.FromStrs/ToStrs", func() uint64 {
			e := bw.FromStrs(batch)
			return gen.Hash64(hashBB(e), hashStrs(bw.ToStrs(enc4)))
		}},
		{"bitstr.New/Cmp/CmpUpto/StrCmpUpto(1 MiB)", func() uint64 {
			n := bitstr.New(longS, 5, int32(8*len(longS)-1))
			return gen.Hash64(gen.HashBytes(n), uint64(uint32(bitstr.Cmp(encA, encB))), uint64(uint32(bitstr.Cmp(encB, encA))), uint64(uint32(bitstr.CmpUpto(long, encA))), uint64(uint32(bitstr.StrCmpUpto(longS, encB))))
		}},
	}
	return
}

func c19BigEnv(w *mon.W) {
	calls, digest, desc, keys := c19BigInputs(w.Cfg.Seed)
	d0 := digest()
	prev := runtime.GOMAXPROCS(1)
	base := make([]uint64, len(calls))
	for i, c := range calls {
		w.Op = "phase F baseline " + c.name
		base[i] = c.run()
		w.Tick()
	}
	runtime.GOMAXPROCS(prev)
	var ev int64
	// Repetition: the same call with the same arguments again and again must keep returning the same result - and must
	// keep returning at all (a helper slot, pool entry or lock that one call in some branch does not give back is used
	// up after a number of calls that depends on the machine: round 10 seeded a semaphore sized by GOMAXPROCS that lost
	// one slot per Decode of a bitmap shorter than its tree). A call that blocks is reported by the runtime (2.3).
	reps := w.Cfg.Pick(24, 80)
	for i, c := range calls {
		for k := 0; k < reps; k++ {
			w.Op = fmt.Sprintf("phase F repetition %d of %s", k+2, c.name)
			h := c.run()
			ev++
			if h != base[i] {
				w.Fail("result-depends-on-earlier-calls/"+c.name, mon.D{"function": c.name, "repetition": k + 2, "mode": "the same call with the same arguments repeated sequentially",
					"first_hash": fmt.Sprintf("%016x", base[i]), "hash": fmt.Sprintf("%016x", h), "arguments": desc})
				return
			}
			w.Tick()
		}
	}
	w.Bucket("big-args/repetition")
	// One long-lived, shared library-built object queried a great many times: "its result depends only on its arguments"
	// includes the receiver, not how often it has been asked (round 11 seeded a histogram inside SigBits that is cleared
	// by bumping a uint16 generation: exactly 65 536 queries after a slot was written it is live again).
	{
		sb := sigbits.New(keys[:4000])
		type q struct{ s, e, m int32 }
		qs := []q{{0, 4000, 16}, {0, 4000, 64}, {5, 7, 16}, {100, 103, 20}, {3990, 4000, 8}, {2000, 2002, 64}, {17, 19, 1}, {1000, 3000, 12}}
		firsts := make([]uint64, len(qs))
		ask := func(i int) uint64 {
			a, b := sb.CountPrefixes(qs[i].s, qs[i].e, qs[i].m)
			return gen.Hash64(uint64(uint32(a)), hashI32(b))
		}
		for i := range qs {
			firsts[i] = ask(i)
		}
		n := w.Cfg.Pick(140000, 400000)
		for k := 0; k < n; k++ {
			i := 2 + k%6 // the narrow ranges ...
			if k%70001 == 70000 {
				i = (k / 70001) % 2 // ... and, more than 2^16 queries apart, a wide one
			}
			if i == 7 && k%64 != 7 {
				i = 2
			}
			w.Op = "phase F long-lived SigBits.CountPrefixes"
			if h := ask(i); h != firsts[i] {
				w.Fail("result-depends-on-earlier-calls/SigBits.CountPrefixes(shared)", mon.D{"function": "SigBits.CountPrefixes", "query": fmt.Sprint(qs[i]), "queries_on_this_object_so_far": k + len(qs) + 1,
					"first_hash": fmt.Sprintf("%016x", firsts[i]), "hash": fmt.Sprintf("%016x", h), "what": "one SigBits over 4000 keys, the same few queries again and again"})
				return
			}
			if k&4095 == 0 {
				w.Tick()
			}
		}
		ev += int64(n)
		w.Bucket("big-args/long-lived-object")
	}
	// Crowd: 4 x GOMAXPROCS goroutines make the SAME call on the same shared arguments at once (C19's quantifier: any
	// number of goroutines, any schedule). Three callers never exhaust anything; as many callers as there are Ps, each
	// holding one unit of a bounded resource while waiting for more, do (round 10: ToArray on 8192+ words).
	crowd := 4 * runtime.GOMAXPROCS(0)
	for i, c := range calls {
		w.Op = fmt.Sprintf("phase F crowd: %d goroutines at once in %s", crowd, c.name)
		got := make([]uint64, crowd)
		var ready int32
		start := make(chan struct{})
		var wg sync.WaitGroup
		for g := 0; g < crowd; g++ {
			wg.Add(1)
			go func(g int) {
				defer wg.Done()
				if atomic.AddInt32(&ready, 1) == int32(crowd) {
					close(start)
				}
				<-start
				got[g] = c.run()
			}(g)
		}
		wg.Wait()
		ev += int64(crowd)
		for g := 0; g < crowd; g++ {
			if got[g] != base[i] {
				w.Fail("result-depends-on-environment/"+c.name, mon.D{"function": c.name, "mode": fmt.Sprintf("%d goroutines make the same call at once", crowd), "baseline": "GOMAXPROCS=1, nothing else running",
					"baseline_hash": fmt.Sprintf("%016x", base[i]), "hash": fmt.Sprintf("%016x", got[g]), "arguments": desc})
				return
			}
		}
		w.Tick()
	}
	w.Bucket("big-args/crowd")
	for _, s := range mon.EnvSettings(w.Cfg.Tier) {
		restore := s.Apply()
		// sequential
		for i, c := range calls {
			w.Op = "phase F " + s.Name + " " + c.name
			h := c.run()
			ev++
			if h != base[i] {
				restore()
				w.Fail("result-depends-on-environment/"+c.name, mon.D{"function": c.name, "setting": s.Name, "mode": "sequential", "baseline": "GOMAXPROCS=1, nothing else running",
					"baseline_hash": fmt.Sprintf("%016x", base[i]), "hash": fmt.Sprintf("%016x", h), "arguments": desc})
				return
			}
			w.Tick()
		}
		// three goroutines run the whole list at once, each starting at another call
		const G = 3
		bad := make([]int, G)
		got := make([]uint64, G)
		var wg sync.WaitGroup
		for g := 0; g < G; g++ {
			bad[g] = -1
			wg.Add(1)
			go func(g int) {
				defer wg.Done()
				for k := range calls {
					i := (k + g*len(calls)/G) % len(calls)
					if h := calls[i].run(); h != base[i] && bad[g] < 0 {
						bad[g], got[g] = i, h
					}
				}
			}(g)
		}
		wg.Wait()
		restore()
		ev += int64(G * len(calls))
		for g := 0; g < G; g++ {
			if i := bad[g]; i >= 0 {
				w.Fail("result-depends-on-environment/"+calls[i].name, mon.D{"function": calls[i].name, "setting": s.Name, "mode": "3 goroutines at once", "baseline": "GOMAXPROCS=1, nothing else running",
					"baseline_hash": fmt.Sprintf("%016x", base[i]), "hash": fmt.Sprintf("%016x", got[g]), "arguments": desc})
				return
			}
		}
		w.Bucket("big-args/" + s.Name)
		w.Tick()
	}
	if digest() != d0 {
		w.Fail("corpus/big-arguments-modified", mon.D{"arguments": desc})
		return
	}
	w.Eval(ev)
	w.Extra("big_argument_calls", ev)
	w.Bucket("phase/big-arguments-x-environment")
}
