package props

import (
	"fmt"
	"syscall"
	"unsafe"

	"verif/internal/gen"
)

// ---- arena: where the shared corpus lives --------------------------------------------------------
//
// heap mode  : ordinary Go allocations (race / noopt / asan flavours: the race detector and ASan
//              only watch the Go heap).
// mmap mode  : one anonymous mapping that is mprotect(PROT_READ)ed once the corpus is built
//              ("rodata" observer): any store into an argument faults at the store, even one that
//              would be undone before the call returns.

type c19Arena struct {
	mmap bool
	mem  []byte
	off  int
	ro   bool
}

func c19NewArena(mmap bool, size int) (*c19Arena, error) {
	a := &c19Arena{mmap: mmap}
	if mmap {
		m, err := syscall.Mmap(-1, 0, size, syscall.PROT_READ|syscall.PROT_WRITE, syscall.MAP_ANON|syscall.MAP_PRIVATE)
		if err != nil {
			return nil, err
		}
		a.mem = m
	}
	return a, nil
}

func (a *c19Arena) alloc(n, align int) unsafe.Pointer {
	a.off = (a.off + align - 1) &^ (align - 1)
	if a.off+n+64 > len(a.mem) {
		panic("c19: arena exhausted")
	}
	p := unsafe.Pointer(&a.mem[a.off])
	a.off += n
	if n == 0 {
		a.off += 8
	}
	return p
}

func (a *c19Arena) words(src []uint64) []uint64 {
	if !a.mmap {
		return append(make([]uint64, 0, len(src)), src...)
	}
	out := unsafe.Slice((*uint64)(a.alloc(8*len(src), 8)), len(src))
	copy(out, src)
	return out
}

func (a *c19Arena) i32(src []int32) []int32 {
	if !a.mmap {
		return append(make([]int32, 0, len(src)), src...)
	}
	out := unsafe.Slice((*int32)(a.alloc(4*len(src), 8)), len(src))
	copy(out, src)
	return out
}

func (a *c19Arena) bytes(src []byte) []byte {
	if !a.mmap {
		return append(make([]byte, 0, len(src)), src...)
	}
	out := unsafe.Slice((*byte)(a.alloc(len(src), 1)), len(src))
	copy(out, src)
	return out
}

func (a *c19Arena) str(s string) string {
	if !a.mmap {
		return string(append([]byte(nil), s...))
	}
	b := a.bytes([]byte(s))
	return unsafe.String(unsafe.SliceData(b), len(b))
}

func (a *c19Arena) strs(src []string) []string {
	if !a.mmap {
		out := make([]string, len(src))
		for i, s := range src {
			out[i] = a.str(s)
		}
		return out
	}
	out := unsafe.Slice((*string)(a.alloc(16*len(src), 8)), len(src))
	for i, s := range src {
		out[i] = a.str(s)
	}
	return out
}

func (a *c19Arena) protect() error {
	if !a.mmap || a.ro {
		return nil
	}
	a.ro = true
	return syscall.Mprotect(a.mem, syscall.PROT_READ)
}

func (a *c19Arena) unprotect() {
	if a.mmap && a.ro {
		syscall.Mprotect(a.mem, syscall.PROT_READ|syscall.PROT_WRITE)
		a.ro = false
	}
}

func (a *c19Arena) contains(addr uintptr) bool {
	if !a.mmap || len(a.mem) == 0 {
		return false
	}
	base := uintptr(unsafe.Pointer(&a.mem[0]))
	return addr >= base && addr < base+uintptr(len(a.mem))
}

// ---- corpus ----------------------------------------------------------------------------------------

type c19Bitmap struct {
	words           []uint64
	r64, r64t, r128 []int32
	sidx            []int32
	pos             []int32
	posShuf         []int32 // the same positions in shuffled order (Of with an explicit size accepts any order)
	ones            int
}

type c19Enc struct {
	enc []byte
}

type c19Corpus struct {
	bms      []c19Bitmap
	sel      []int // indexes of bitmaps with at least one 1-bit
	keyLists [][]string
	strs     []string // general strings
	plainB   [][]byte // plain byte strings (CmpUpto)
	plainS   []string // the same as strings (StrCmpUpto)
	encs     [][]byte
	encSrc   [][3]int // (string index in strs, from, to) of each encoding, for bitstr.New
	masks    []uint32 // level masks of height <= 8 (AllPaths / Decode)
	decBms   [][]uint64
	bigMasks []uint32 // heights up to 30 (PathToIndex)
	vals     [][]uint64
	bwWords  [4][][]byte // in-range words per width
	bigStrs  []string    // a batch of 5000 short strings (FromStrs/ToStrs beyond 2^12 elements)
}

func c19EncModel(s string, from, to int) []byte {
	if from == to && from&7 == 0 {
		return []byte{0xff}
	}
	fb, tb := from>>3, (to+7)>>3
	out := make([]byte, tb-fb+1)
	copy(out, s[fb:tb])
	mask := byte(0xff)
	if k := to & 7; k != 0 {
		mask = byte(0xff << uint(8-k))
	}
	out[tb-fb-1] &= mask
	out[tb-fb] = mask
	return out
}

func c19Build(seed int64, a *c19Arena) *c19Corpus {
	r := gen.NewRand(seed, "C19", "corpus", 0)
	c := &c19Corpus{}
	for i := 0; i < 160; i++ {
		n := 1 + i%40
		ws := gen.ZooBitmap(r, n)
		if i%5 == 0 {
			ws[r.Intn(n)] |= 1 << uint(r.Intn(64))
		}
		var b c19Bitmap
		var r64, r64t, r128, sidx, pos []int32
		var cnt int32
		for k := 0; k < n; k++ {
			r64 = append(r64, cnt)
			if k%2 == 0 {
				r128 = append(r128, cnt)
			}
			for j := 0; j < 64; j++ {
				if (ws[k]>>uint(j))&1 == 1 {
					if cnt%32 == 0 {
						sidx = append(sidx, int32(64*k+j))
					}
					pos = append(pos, int32(64*k+j))
					cnt++
				}
			}
		}
		r64t = append(append(r64t, r64...), cnt)
		if n%2 == 0 {
			r128 = append(r128, cnt)
		}
		b.words, b.r64, b.r64t, b.r128, b.sidx, b.pos, b.ones = a.words(ws), a.i32(r64), a.i32(r64t), a.i32(r128), a.i32(sidx), a.i32(pos), int(cnt)
		shuf := append([]int32(nil), pos...)
		for k := len(shuf) - 1; k > 0; k-- {
			j := r.Intn(k + 1)
			shuf[k], shuf[j] = shuf[j], shuf[k]
		}
		b.posShuf = a.i32(shuf)
		if b.ones > 0 {
			c.sel = append(c.sel, len(c.bms))
		}
		c.bms = append(c.bms, b)
	}
	var allKeys []string
	for i := 0; i < 60; i++ {
		var ks []string
		for len(ks) < 2 {
			ks = gen.SortedUnique(gen.KeyZoo(r, 2+r.Intn(38), r.Pick(2, 5, 9, 17, 26)))
		}
		c.keyLists = append(c.keyLists, a.strs(ks))
		allKeys = append(allKeys, ks...)
	}
	for i := 0; i < 300; i++ {
		s := allKeys[r.Intn(len(allKeys))]
		if i%7 == 0 {
			s = string(gen.ZooBytes(r, r.Intn(30)))
		}
		c.strs = append(c.strs, a.str(s))
	}
	for i := 0; i < 200; i++ {
		si := r.Intn(len(c.strs))
		src := c.strs[si]
		// plain string i is related to encoding i: a byte prefix of its source, the source itself, an
		// extension, or (one in four) unrelated
		s := src
		switch r.Intn(4) {
		case 0:
			s = src[:r.Intn(len(src)+1)]
		case 1:
			s = src + string(gen.ZooBytes(r, 1+r.Intn(3)))
		case 2:
			s = c.strs[r.Intn(len(c.strs))]
		}
		c.plainB = append(c.plainB, a.bytes([]byte(s)))
		c.plainS = append(c.plainS, a.str(s))
		n := 8 * len(src)
		from := r.Intn(n + 1)
		to := from + r.Intn(n-from+1)
		if i%3 == 0 {
			from = 0
		}
		c.encs = append(c.encs, a.bytes(c19EncModel(src, from, to)))
		c.encSrc = append(c.encSrc, [3]int{si, from, to})
	}
	for i := 0; i < 240; i++ {
		h := i % 9
		full := (uint32(1) << uint(h+1)) - 1
		m := uint32(1)<<uint(h) | uint32(r.Uint64())&full
		if i%4 == 0 {
			m = full
		}
		c.masks = append(c.masks, m)
		need := (int(m) + 63) / 64
		// zoo words: empty, full, single-bit, sparse and dense words all occur, in bitmaps shorter,
		// equal and longer than the mask needs
		bm := gen.ZooBitmap(r, need+r.Intn(3))
		if i%6 == 5 && len(bm) > 0 {
			bm = bm[:len(bm)-1]
		}
		c.decBms = append(c.decBms, a.words(bm))
	}
	for i := 0; i < 60; i++ {
		h := 9 + i%22
		full := (uint32(1) << uint(h+1)) - 1
		m := uint32(1)<<uint(h) | uint32(r.Uint64())&full
		switch i % 3 {
		case 0:
			m = full
		case 1:
			m = uint32(1) << uint(h)
		}
		c.bigMasks = append(c.bigMasks, m)
	}
	{
		big := make([]string, 5000)
		for i := range big {
			big[i] = string(gen.ZooBytes(r, r.Intn(5)))
		}
		c.bigStrs = a.strs(big)
	}
	for i := 0; i < 40; i++ {
		v := make([]uint64, r.Intn(60))
		for k := range v {
			v[k] = r.Uint64()
		}
		c.vals = append(c.vals, a.words(v))
	}
	for wi, n := range []int{1, 2, 4, 8} {
		for i := 0; i < 30; i++ {
			ln := r.Intn(40)
			if i >= 26 {
				ln = (8192/n)*[]int{1, 2, 5, 1}[i-26] + r.Intn(64) // packed result of 1 KiB and more
			}
			b := make([]byte, ln)
			for k := range b {
				b[k] = byte(r.Intn(1 << uint(n)))
			}
			c.bwWords[wi] = append(c.bwWords[wi], a.bytes(b))
		}
	}
	return c
}

// digest hashes the complete content of the corpus (what a write anywhere would change).
func (c *c19Corpus) digest() uint64 {
	h := uint64(0x19)
	hi := func(v []int32) {
		for _, x := range v {
			h = gen.Hash64(h, uint64(uint32(x)))
		}
		h = gen.Hash64(h, uint64(len(v)))
	}
	for i := range c.bms {
		b := &c.bms[i]
		h = gen.Hash64(h, gen.HashWords(b.words))
		hi(b.r64)
		hi(b.r64t)
		hi(b.r128)
		hi(b.sidx)
		hi(b.pos)
		hi(b.posShuf)
	}
	for _, l := range c.keyLists {
		for _, s := range l {
			h = gen.Hash64(h, gen.HashStr(s))
		}
		h = gen.Hash64(h, uint64(len(l)))
	}
	for _, s := range c.strs {
		h = gen.Hash64(h, gen.HashStr(s))
	}
	for i := range c.plainB {
		h = gen.Hash64(h, gen.HashBytes(c.plainB[i]), gen.HashStr(c.plainS[i]), gen.HashBytes(c.encs[i]))
	}
	for _, b := range c.decBms {
		h = gen.Hash64(h, gen.HashWords(b))
	}
	for _, v := range c.vals {
		h = gen.Hash64(h, gen.HashWords(v))
	}
	for wi := range c.bwWords {
		for _, b := range c.bwWords[wi] {
			h = gen.Hash64(h, gen.HashBytes(b))
		}
	}
	return h
}

func (c *c19Corpus) String() string {
	return fmt.Sprintf("%d bitmaps, %d key lists, %d strings, %d encodings, %d+%d level masks", len(c.bms), len(c.keyLists), len(c.strs), len(c.encs), len(c.masks), len(c.bigMasks))
}

// ---- alternate memory contexts for the same logical argument -----------------------------------
//
// Each helper copies an argument into a larger, poisoned allocation (other capacity, alignment and
// neighbouring bytes) and registers a guard that verifies afterwards that nothing outside the
// argument's len was written.

type c19Guards struct {
	fs    []func() bool
	alias bool // a result of the call shares memory with one of its arguments (within their capacities)
}

func (g *c19Guards) ok() bool {
	for _, f := range g.fs {
		if !f() {
			return false
		}
	}
	return true
}

const c19PoisonW = 0xdeadbeefdeadbeef

func (g *c19Guards) words(w []uint64) []uint64 {
	big := make([]uint64, len(w)+5)
	for i := range big {
		big[i] = c19PoisonW
	}
	copy(big[2:], w)
	n := len(w)
	g.fs = append(g.fs, func() bool {
		return big[0] == c19PoisonW && big[1] == c19PoisonW && big[2+n] == c19PoisonW && big[3+n] == c19PoisonW && big[4+n] == c19PoisonW
	})
	return big[2 : 2+n : n+4]
}

func (g *c19Guards) i32(w []int32) []int32 {
	big := make([]int32, len(w)+7)
	for i := range big {
		big[i] = 0x5a5a5a5a
	}
	copy(big[3:], w)
	n := len(w)
	g.fs = append(g.fs, func() bool {
		for i, x := range big {
			if (i < 3 || i >= 3+n) && x != 0x5a5a5a5a {
				return false
			}
		}
		return true
	})
	return big[3 : 3+n : n+5]
}

func (g *c19Guards) bytes(b []byte) []byte {
	big := make([]byte, len(b)+17)
	for i := range big {
		big[i] = 0xa5
	}
	copy(big[5:], b)
	n := len(b)
	g.fs = append(g.fs, func() bool {
		for i, x := range big {
			if (i < 5 || i >= 5+n) && x != 0xa5 {
				return false
			}
		}
		return true
	})
	return big[5 : 5+n : n+16]
}

func (g *c19Guards) str(s string) string {
	big := "\xaa\xaa\xaa" + s + "\x55\x55\x55\x55\x55"
	h := gen.HashStr(big)
	g.fs = append(g.fs, func() bool { return gen.HashStr(big) == h })
	return big[3 : 3+len(s)]
}

func (g *c19Guards) strs(l []string) []string {
	out := make([]string, len(l), len(l)+3)
	for i, s := range l {
		out[i] = g.str(s)
	}
	return out
}
