package props

import (
	"fmt"
	"runtime"
	"runtime/debug"
	"sort"
	"strings"
	"sync"
	"time"

	"github.com/openacid/low/bitmap"
	"github.com/openacid/low/bitstr"
	"github.com/openacid/low/bitword"
	"github.com/openacid/low/bmtree"
	"github.com/openacid/low/sigbits"

	"verif/internal/gen"
	"verif/internal/mon"
)

// C19 — query and codec functions are pure and safe for concurrent readers.
//
// One process = one run of c19Process:
//   phase A "cold":  the FIRST library calls of the process are made concurrently by G goroutines
//                    on a shared, harness-built corpus (so an unsynchronised lazy initialisation
//                    or cache races on its first use);
//   phase B "warm-up": every function once, sequentially; table digest baseline; library-built
//                    shared objects (SigBits) are created and the harness-built indexes/encodings
//                    are compared with the library's;
//   phase C "warm":  concurrent again, now including calls on the shared library-built objects;
//   phase D "replay": every logged call is recomputed sequentially (every schedule = sequential
//                    execution) and once more with each argument in a different memory context.
// Observers: race detector (race flavours), mprotect(PROT_READ) write trap on the whole corpus
// (release flavour), corpus digests, table digests via the verif hooks.

type c19Rec struct {
	call   c19Call
	hash   uint64
	t0, t1 int64
}

type c19Worker struct {
	keptChanged int // long strings returned earlier that no longer read the same
	recs        []c19Rec
	panicMsg    string
	panicFn     int
	origin      string
	fault       uintptr
	isFault     bool
}

func init() {
	req := []string{"phase/cold-concurrent", "phase/warm-concurrent", "phase/sequential-replay", "phase/alt-memory-context", "rodata/protected", "tables/digest-stable", "corpus/digest-stable", "arg/prefix-view(len<cap)"}
	for _, n := range c19FnNames {
		req = append(req, "overlapped/"+n)
	}
	register(&mon.Prop{
		ID:    "C19",
		Level: "exploration",
		Rule: "call universe = 32 entries covering every function named in the quantifier plus index builders and path helpers; shared corpus of 160 zoo bitmaps with all their indexes, 60 sorted key lists with SigBits, 300 strings, 200 bitstr encodings / plain strings, " +
			"140 level masks. Per process: cold concurrent phase as the first library use, sequential warm-up, warm concurrent phase, sequential replay of every logged call + replay in alternate memory contexts. " +
			"Processes: release with the corpus in mprotect(PROT_READ) pages (G=16), race detector G=16/GOMAXPROCS=16 and G=64/GOMAXPROCS=2 (thorough: + G=4, ASan, -N), -N build. " +
			"Non-trivial+distinct = distinct (function, arguments) calls that were executed concurrently AND overlapped in time with a call of another goroutine (release flavour, from per-goroutine monotonic timestamps).",
		Assumptions: []string{"mutating APIs (Builder, TailBitmap, SectionWriter) are not part of the concurrent universe (the property does not claim them)",
			"race reports count only with a library frame in one of the two access stacks; harness-only reports make the run inconclusive",
			"the race detector and ASan see only executed accesses on the Go heap / data segments; the rodata write trap sees any store into corpus memory"},
		Flavours: func(tier string) []string {
			if tier == "thorough" {
				return []string{"release", "release#order", "race", "race#2", "race#3", "noopt", "nooptl", "asan", "go126", "debug"}
			}
			return []string{"release", "release#order", "race", "race#2", "noopt", "go126", "debug"}
		},
		Required: req,
		// "its result depends only on its arguments": the calls of the cold phase of the release process, made again by a
		// fresh process sequentially and in REVERSE order, must give the same results call by call (a memo filled by
		// whichever call comes first - a truncated enumeration remembered as the complete one was seeded in round 11 -
		// gives two different answers to the same call in two processes that differ only in the order of their calls)
		Merge: func(tier string, rs map[string]*mon.Result) []mon.Violation {
			rel, ord := rs["release"], rs["release#order"]
			if rel == nil || ord == nil || !rel.Complete || !ord.Complete || len(rel.Violations) > 0 || len(ord.Violations) > 0 {
				return nil
			}
			var out []mon.Violation
			for _, n := range c19FnNames {
				if n == c19FnNames[fSharedSigCountPrefixes] {
					continue // needs objects built in the warm-up: not part of the cold phase
				}
				a, b := rel.Extra["orderdigest/"+n], ord.Extra["orderdigest/"+n]
				ca, cb := rel.Extra["ordercalls/"+n], ord.Extra["ordercalls/"+n]
				if ca != cb {
					out = append(out, mon.Violation{Sig: "c19/order-process-made-other-calls/" + n, Flavour: "release#order", Detail: []byte(fmt.Sprintf(`{"release_calls":%d,"order_calls":%d}`, ca, cb)), Count: 1, Inconclusive: true})
					continue
				}
				if a != b {
					out = append(out, mon.Violation{Sig: "result-depends-on-call-order/" + n, Flavour: "release#order", Count: 1,
						Detail: []byte(fmt.Sprintf(`{"function":%q,"calls":%d,"digest_concurrent_cold_phase":"%016x","digest_same_calls_sequentially_in_reverse_order_in_a_fresh_process":"%016x","what":"the same calls with the same arguments returned different results in two processes that differ only in the order in which the calls were made"}`, n, ca, uint64(a), uint64(b)))})
				}
			}
			return out
		},
		Families: func(c *mon.Config) []mon.Family {
			return []mon.Family{{Name: "process", N: 1, Serial: true, Run: c19Process}}
		},
	})
}

type c19Params struct {
	G, procs, N int
	rodata      bool
	timing      bool
}

func c19ParamsFor(c *mon.Config) c19Params {
	p := c19Params{G: 16, procs: 16, N: c.Pick(20000, 200000)}
	switch c.Flavour {
	case "release", "go126":
		p.rodata, p.timing = true, true
	case "race":
		p.N = c.Pick(12000, 100000)
	case "race#2":
		p.G, p.procs, p.N = 64, 2, c.Pick(3000, 25000)
	case "race#3":
		p.G, p.procs, p.N = 4, 16, c.Pick(30000, 250000)
	case "noopt", "nooptl":
		p.G, p.N = 8, c.Pick(15000, 120000)
	case "asan":
		p.G, p.N = 8, c.Pick(8000, 60000)
	}
	if nc := runtime.NumCPU(); p.procs > nc {
		p.procs = nc
	}
	return p
}

// c19Concurrent runs one concurrent phase and returns the per-goroutine logs.
func c19Concurrent(w *mon.W, cp *c19Corpus, sigs []*sigbits.SigBits, ar *c19Arena, pr c19Params, phase int, base time.Time) []*c19Worker {
	workers := make([]*c19Worker, pr.G)
	start := make(chan struct{})
	var wg sync.WaitGroup
	for g := 0; g < pr.G; g++ {
		wk := &c19Worker{recs: make([]c19Rec, 0, pr.N)}
		workers[g] = wk
		wg.Add(1)
		go func(g int, wk *c19Worker) {
			defer wg.Done()
			r := gen.NewRand(w.Cfg.Seed, "C19", fmt.Sprintf("worker/%s/%d", w.Cfg.Flavour, phase), g)
			var cur c19Call
			var kept []c19Kept
			defer func() {
				if x := recover(); x != nil {
					wk.panicMsg = fmt.Sprint(x)
					wk.panicFn = int(cur.fn)
					wk.origin = mon.PanicOrigin(string(debug.Stack()))
					if ae, ok := x.(interface{ Addr() uintptr }); ok {
						wk.fault, wk.isFault = ae.Addr(), true
					}
				}
			}()
			if pr.rodata {
				debug.SetPanicOnFault(true)
			}
			<-start
			for k := 0; k < pr.N; k++ {
				cur = c19Gen(r, cp, sigs != nil)
				var t0, t1 int64
				if pr.timing {
					t0 = int64(time.Since(base))
				}
				h := c19Exec(cp, sigs, cur, nil)
				if pr.timing {
					t1 = int64(time.Since(base))
				}
				wk.recs = append(wk.recs, c19Rec{cur, h, t0, t1})
				if int(cur.fn) == fBitwordToStr {
					// keep long ToStr results: a string must keep its content whatever is called later
					if str := bitword.BitWord[c19BWWidths[cur.a]].ToStr(cp.bwWords[cur.a][cur.b]); len(str) >= 512 {
						if len(kept) >= 6 {
							kept = kept[1:]
						}
						kept = append(kept, c19Kept{str, gen.HashStr(str)})
					}
				}
				if k&63 == 0 {
					for _, x := range kept {
						if gen.HashStr(x.s) != x.h {
							wk.keptChanged++
						}
					}
					if r.Intn(4) == 0 {
						runtime.Gosched()
					}
				}
			}
		}(g, wk)
	}
	close(start)
	wg.Wait()
	w.Tick()
	// worker panics -> violations (decided on the main goroutine, after the join)
	for g, wk := range workers {
		if wk.keptChanged > 0 {
			w.Fail("returned-string-changed-by-later-call/bitword.ToStr", mon.D{"goroutine": g, "phase": phase, "times": wk.keptChanged,
				"what": "a long string returned by ToStr no longer had its content when re-read after later calls"})
		}
		if wk.panicMsg == "" {
			continue
		}
		fn := c19FnNames[wk.panicFn]
		d := mon.D{"goroutine": g, "phase": phase, "function": fn, "panic": wk.panicMsg, "origin": wk.origin, "calls_before": len(wk.recs)}
		switch {
		case wk.isFault && ar.contains(wk.fault):
			d["fault_address_in_protected_corpus"] = fmt.Sprintf("%#x", wk.fault)
			w.Fail("rodata/store-into-argument/"+fn, d)
		case mon.IsLibraryFrame(wk.origin):
			w.Fail("panic-under-concurrency/"+fn, d)
		default:
			w.Harness("c19/worker-panic/"+fn, d)
		}
	}
	return workers
}

// c19Tables digests every package-level table (exported ones directly and through the hooks,
// unexported ones through the hooks, the BitWord map by printing its entries).
func c19Tables() (uint64, string) {
	h := uint64(0x7ab1e5)
	for _, t := range bitmap.VerifTables() {
		h = gen.Hash64(h, gen.HashWords(t))
	}
	for _, t := range bmtree.VerifTables() {
		h = gen.Hash64(h, gen.HashWords(t))
	}
	h = gen.Hash64(h, gen.HashWords(bitmap.Mask[:]), gen.HashWords(bitmap.RMask[:]), gen.HashWords(bitmap.MaskUpto[:]), gen.HashWords(bitmap.RMaskUpto[:]),
		gen.HashWords(bitmap.Bit[:]), gen.HashWords(bitmap.RBit[:]))
	keys := make([]int, 0, len(bitword.BitWord))
	for k := range bitword.BitWord {
		keys = append(keys, k)
	}
	sort.Ints(keys)
	var sb strings.Builder
	for _, k := range keys {
		fmt.Fprintf(&sb, "%d:%+v@%p;", k, bitword.BitWord[k], bitword.BitWord[k])
	}
	h = gen.Hash64(h, gen.HashStr(sb.String()))
	return h, sb.String()
}

// c19TablesMatchDefinition checks the exported mask tables against their documented meaning
// (a table overwritten before our first look would otherwise go unnoticed).
func c19TablesMatchDefinition() string {
	for i := 0; i < 65; i++ {
		m := uint64(0)
		if i == 64 {
			m = ^uint64(0)
		} else {
			m = (uint64(1) << uint(i)) - 1
		}
		if bitmap.Mask[i] != m || bitmap.RMask[i] != ^m {
			return fmt.Sprintf("Mask/RMask[%d]", i)
		}
	}
	for i := 0; i < 64; i++ {
		m := uint64(1) << uint(i)
		if bitmap.Bit[i] != m || bitmap.RBit[i] != ^m || bitmap.MaskUpto[i] != m|(m-1) || bitmap.RMaskUpto[i] != ^(m|(m-1)) {
			return fmt.Sprintf("Bit/RBit/MaskUpto/RMaskUpto[%d]", i)
		}
	}
	return ""
}

func c19Process(w *mon.W, _ int) {
	pr := c19ParamsFor(w.Cfg)
	prev := runtime.GOMAXPROCS(pr.procs)
	defer runtime.GOMAXPROCS(prev)
	ar, err := c19NewArena(pr.rodata, 64<<20)
	if err != nil {
		w.Harness("c19/mmap", mon.D{"err": err.Error()})
		return
	}
	cp := c19Build(w.Cfg.Seed, ar)
	d0 := cp.digest()
	if err := ar.protect(); err != nil {
		w.Harness("c19/mprotect", mon.D{"err": err.Error()})
		return
	}
	if pr.rodata {
		w.Bucket("rodata/protected")
		w.Extra("rodata_protected_bytes", int64(ar.off))
	}
	t0digest, _ := c19Tables() // reads only; no query function has run yet in this process
	if bad := c19TablesMatchDefinition(); bad != "" {
		w.Fail("tables/differ-from-definition-after-init", mon.D{"table": bad})
		return
	}
	if w.Cfg.Variant() == "order" {
		c19OrderProcess(w, cp, pr)
		return
	}
	base := time.Now()
	w.Op = "phase A (cold concurrent)"

	// ---- phase A: cold concurrent --------------------------------------------------------------
	wa := c19Concurrent(w, cp, nil, ar, pr, 0, base)
	w.Bucket("phase/cold-concurrent")
	if w.Cfg.Flavour == "release" {
		// per-function digests of (goroutine, call number, result) for the process "release#order", which makes the same
		// calls sequentially in reverse order as ITS first library calls
		var dg, cnt [fNFuncs]uint64
		for g, wk := range wa {
			for k, rec := range wk.recs {
				dg[rec.call.fn] += gen.Hash64(uint64(g), uint64(k), rec.hash)
				cnt[rec.call.fn]++
			}
		}
		for fn := 0; fn < fNFuncs; fn++ {
			w.Extra("orderdigest/"+c19FnNames[fn], int64(dg[fn]))
			w.Extra("ordercalls/"+c19FnNames[fn], int64(cnt[fn]))
		}
	}
	if cp.digest() != d0 {
		w.Fail("corpus/modified-in-cold-phase", mon.D{"what": "a shared argument slice/string changed during the concurrent phase"})
		return
	}
	if w.Failed() {
		return
	}

	// ---- phase B: sequential warm-up -----------------------------------------------------------
	w.Op = "phase B (warm-up)"
	wr := gen.NewRand(w.Cfg.Seed, "C19", "warmup", 0)
	seen := [fNFuncs]bool{}
	for n := 0; n < 4000; n++ {
		call := c19Gen(wr, cp, false)
		c19Exec(cp, nil, call, nil)
		seen[call.fn] = true
	}
	sigs := make([]*sigbits.SigBits, len(cp.keyLists))
	for i, l := range cp.keyLists {
		sigs[i] = sigbits.New(l)
	}
	// harness-built indexes / encodings are what the library builds (else the corpus is wrong)
	for i := range cp.bms {
		b := &cp.bms[i]
		s2, r2 := bitmap.IndexSelect32R64(b.words)
		if !eqI32(bitmap.IndexRank64(b.words), b.r64) || !eqI32(bitmap.IndexRank64(b.words, true), b.r64t) || !eqI32(bitmap.IndexRank128(b.words), b.r128) ||
			!eqI32(bitmap.IndexSelect32(b.words), b.sidx) || !eqI32(s2, b.sidx) || !eqI32(r2, b.r64t) {
			w.Harness("c19/corpus-index-differs-from-library", mon.D{"bitmap": i})
			return
		}
	}
	for i, src := range cp.encSrc {
		if string(bitstr.New(cp.strs[src[0]], int32(src[1]), int32(src[2]))) != string(cp.encs[i]) {
			w.Harness("c19/corpus-encoding-differs-from-library", mon.D{"encoding": i})
			return
		}
	}
	t1digest, t1text := c19Tables()
	w.Tick()

	// ---- phase C: warm concurrent --------------------------------------------------------------
	w.Op = "phase C (warm concurrent)"
	wc := c19Concurrent(w, cp, sigs, ar, pr, 1, base)
	w.Bucket("phase/warm-concurrent")
	if cp.digest() != d0 {
		w.Fail("corpus/modified-in-warm-phase", mon.D{"what": "a shared argument slice/string changed during the concurrent phase"})
		return
	}
	if w.Failed() {
		return
	}

	// ---- phase D: sequential replay ------------------------------------------------------------
	w.Op = "phase D (sequential replay)"
	if pr.rodata {
		debug.SetPanicOnFault(true)
	}
	var calls, altCalls, prefixCalls int64
	perFn := [fNFuncs]int64{}
	for phase, ws := range [][]*c19Worker{wa, wc} {
		for g, wk := range ws {
			for k, rec := range wk.recs {
				w.A, w.B, w.C = int64(rec.call.fn), int64(g), int64(k)
				var ss []*sigbits.SigBits
				if phase == 1 {
					ss = sigs
				}
				if int(rec.call.fn) == fSharedSigCountPrefixes {
					ss = sigs
				}
				h := c19Exec(cp, ss, rec.call, nil)
				calls++
				perFn[rec.call.fn]++
				if rec.call.m > 0 {
					prefixCalls++
				}
				if h != rec.hash {
					w.Fail("concurrent-result-differs-from-sequential/"+c19FnNames[rec.call.fn], mon.D{"function": c19FnNames[rec.call.fn], "args": []int32{rec.call.a, rec.call.b, rec.call.c, rec.call.m},
						"phase": phase, "goroutine": g, "call_no": k, "concurrent_hash": fmt.Sprintf("%016x", rec.hash), "sequential_hash": fmt.Sprintf("%016x", h)})
					return
				}
				if k%3 == 0 {
					var guards c19Guards
					ha := c19Exec(cp, ss, rec.call, &guards)
					altCalls++
					if guards.alias {
						w.Fail("result-shares-memory-with-an-argument-or-another-result/"+c19FnNames[rec.call.fn], mon.D{"function": c19FnNames[rec.call.fn], "args": []int32{rec.call.a, rec.call.b, rec.call.c, rec.call.m},
							"what": "the returned slice shares memory (within capacities) with the slice passed in, or with the slice a second identical call returned: a caller who appends to or overwrites its result writes into shared memory"})
						return
					}
					if !guards.ok() {
						w.Fail("store-outside-len-of-argument/"+c19FnNames[rec.call.fn], mon.D{"function": c19FnNames[rec.call.fn], "args": []int32{rec.call.a, rec.call.b, rec.call.c, rec.call.m},
							"what": "the poison placed before the argument or between its len and cap (or after it) was overwritten during the call"})
						return
					}
					if ha != rec.hash {
						w.Fail("result-depends-on-memory-context/"+c19FnNames[rec.call.fn], mon.D{"function": c19FnNames[rec.call.fn], "args": []int32{rec.call.a, rec.call.b, rec.call.c, rec.call.m},
							"what": "same logical arguments in a copy with other capacity/alignment/neighbouring bytes gave a different result",
							"hash": fmt.Sprintf("%016x", rec.hash), "alt_hash": fmt.Sprintf("%016x", ha)})
						return
					}
				}
				if k&4095 == 0 {
					w.Tick()
				}
			}
		}
	}
	w.Bucket("phase/sequential-replay")
	w.Bucket("phase/alt-memory-context")
	w.Eval(2*calls + altCalls) // concurrent execution + sequential replay + alternate context
	w.Extra("concurrent_calls", calls)
	w.Extra("alt_context_calls", altCalls)
	w.Extra("calls_on_prefix_views_len_lt_cap", prefixCalls)
	w.BucketN("arg/prefix-view(len<cap)", prefixCalls)
	w.Extra("goroutines", int64(pr.G))
	w.Extra("gomaxprocs", int64(pr.procs))

	// ---- phase E: dense sweep ---------------------------------------------------------------------
	// The enumerated small-domain workloads of the other properties are executed (their verdicts are
	// discarded here) so that a table write hidden behind one particular input or branch is reached
	// before the final table digest is taken.
	if w.Cfg.Base() != "race" && w.Cfg.Base() != "asan" || w.Cfg.Thorough() {
		w.Op = "phase E (dense sweep)"
		n, other := c19DenseSweep(w)
		w.Extra("dense_sweep_cases", n)
		w.Extra("dense_sweep_evaluations", other)
		w.Bucket("phase/dense-sweep")
	}

	// ---- phase F: big arguments x environment ---------------------------------------------------------
	if w.Cfg.Base() != "race" && w.Cfg.Base() != "asan" || w.Cfg.Thorough() {
		c19BigEnv(w)
		if w.Failed() {
			return
		}
	}

	// ---- digests ----------------------------------------------------------------------------------
	t2digest, t2text := c19Tables()
	if t2digest != t1digest {
		w.Fail("tables/modified-after-initialisation", mon.D{"after_warmup": t1text, "after_all_phases": t2text, "note": "digest over Mask,RMask,MaskUpto,RMaskUpto,Bit,RBit,select8Lookup,idxToPath,BitWord"})
		return
	}
	if bad := c19TablesMatchDefinition(); bad != "" {
		w.Fail("tables/differ-from-definition", mon.D{"table": bad})
		return
	}
	w.Bucket("tables/digest-stable")
	if t0digest != t1digest {
		w.Bucket("tables/changed-between-init-and-warmup(lazy-init?)")
	}
	if cp.digest() != d0 {
		w.Fail("corpus/modified", mon.D{})
		return
	}
	w.Bucket("corpus/digest-stable")

	// ---- what was actually concurrent (release flavour: timestamps were taken) --------------------
	if pr.timing && pr.procs < 2 {
		// a single CPU cannot run two calls at the same instant; overlap in time is then not a
		// meaningful requirement (interleaving still happens at preemption points)
		pr.timing = false
		w.Bucket("single-cpu/no-overlap-accounting")
	}
	if pr.timing {
		type iv struct {
			t0, t1 int64
			g      int
			call   c19Call
		}
		var overlapPairs int64
		overlappedFn := [fNFuncs]int64{}
		for _, ws := range [][]*c19Worker{wa, wc} {
			var all []iv
			for g, wk := range ws {
				for _, rec := range wk.recs {
					all = append(all, iv{rec.t0, rec.t1, g, rec.call})
				}
			}
			sort.Slice(all, func(i, j int) bool { return all[i].t0 < all[j].t0 })
			var active []iv
			for _, x := range all {
				k := 0
				ov := false
				for _, a := range active {
					if a.t1 >= x.t0 {
						active[k] = a
						k++
						if a.g != x.g {
							overlapPairs++
							ov = true
							if overlappedFn[a.call.fn] >= 0 {
								overlappedFn[a.call.fn]++
							}
						}
					}
				}
				active = append(active[:k], x)
				if ov {
					overlappedFn[x.call.fn]++
					w.Distinct(gen.Hash64(uint64(x.call.fn), uint64(uint32(x.call.a)), uint64(uint32(x.call.b)), uint64(uint32(x.call.c)), uint64(uint32(x.call.m))))
				}
			}
			w.Tick()
		}
		w.Extra("overlapping_call_pairs_from_different_goroutines", overlapPairs)
		for fn, n := range overlappedFn {
			w.BucketN("overlapped/"+c19FnNames[fn], n)
		}
	} else {
		// instrumented flavours take no timestamps (a shared clock read adds no happens-before edge,
		// but we keep the hot loop identical to what the race detector should see)
		for fn, n := range perFn {
			w.BucketN("overlapped/"+c19FnNames[fn], n)
		}
	}
	for fn, n := range perFn {
		w.BucketN("calls/"+c19FnNames[fn], n)
		if n == 0 || !seen[fn] && fn != fSharedSigCountPrefixes {
			w.Harness("c19/function-never-called", mon.D{"function": c19FnNames[fn]})
		}
	}
	ar.unprotect()
	w.Sample(func() interface{} {
		var ex []mon.D
		for _, rec := range wc[0].recs[:min(6, len(wc[0].recs))] {
			ex = append(ex, mon.D{"function": c19FnNames[rec.call.fn], "args": []int32{rec.call.a, rec.call.b, rec.call.c, rec.call.m}, "result_hash": fmt.Sprintf("%016x", rec.hash)})
		}
		return mon.D{"flavour": w.Cfg.Flavour, "goroutines": pr.G, "GOMAXPROCS": pr.procs, "calls_per_goroutine_per_phase": pr.N, "corpus": cp.String(),
			"first_calls_of_goroutine_0_in_warm_phase": ex}
	})
}

// c19Sweep lists (property, family, number of cases, stride) executed by the dense sweep.
var c19Sweep = []struct {
	prop, fam string
	n, stride int
}{
	{"C13", "all-ranges-structured", 144, 1}, {"C13", "all-ranges-zoo", 30, 1},
	{"C11", "small-all", 31, 1}, {"C11", "pathsof-structured", 132, 1},
	{"C01", "extreme-product", 259, 1}, {"C01", "byte-lanes", 24, 1},
	{"C02", "lanes16", 64, 8}, {"C02", "two-bit-words", 64, 1}, {"C02", "gaps", 64, 1},
	{"C14", "join", 917, 1}, {"C14", "slice-all", 12, 1},
	{"C08", "one-two-byte", 65, 16}, {"C08", "firstdiff", 100, 1}, {"C08", "tostr-lengths", 72, 1},
	{"C10", "fields-small", 13, 1}, {"C10", "order-all-pairs", 200, 1},
	{"C16", "fd-small-universe", 40, 1}, {"C16", "countprefixes", 100, 1},
	{"C17", "universe-subsets", 512, 8},
	{"C03", "all-masks-all-nodes", 255, 1}, {"C03", "large-heights", 40, 1},
	{"C04", "allpaths-small", 63, 1}, {"C04", "decode", 200, 1}, {"C04", "allpaths-windows", 100, 1},
	{"C05", "all-indexes", 40, 1},
	{"C09", "universe-rows", 40, 100}, {"C09", "keyzoo", 100, 1},
	{"C12", "of", 200, 1}, {"C12", "ofmany", 100, 1}, {"C12", "roundtrip-zoo", 100, 1},
}

func c19DenseSweep(w *mon.W) (int64, int64) {
	type job struct {
		fam *mon.Family
		cfg *mon.Config
		idx int
	}
	var jobs []job
	for _, s := range c19Sweep {
		p := All[s.prop]
		if p == nil {
			continue
		}
		cfg := &mon.Config{Prop: s.prop, Tier: "quick", Seed: w.Cfg.Seed, Flavour: w.Cfg.Flavour, Workers: 1}
		fams := p.Families(cfg)
		for fi := range fams {
			if fams[fi].Name != s.fam {
				continue
			}
			for k := 0; k < s.n; k++ {
				if idx := k * s.stride; idx < fams[fi].N {
					jobs = append(jobs, job{&fams[fi], cfg, idx})
				}
			}
		}
	}
	var wg sync.WaitGroup
	var mu sync.Mutex
	var evals int64
	next := 0
	G := 8
	for g := 0; g < G; g++ {
		wg.Add(1)
		go func() {
			defer wg.Done()
			var sw *mon.W
			var cur *mon.Config
			var ev int64
			for {
				mu.Lock()
				j := next
				next++
				mu.Unlock()
				if j >= len(jobs) {
					break
				}
				if cur != jobs[j].cfg {
					if sw != nil {
						ev += sw.Evals()
					}
					cur = jobs[j].cfg
					sw = mon.NewScratchW(cur)
				}
				sw.RunScratch(jobs[j].fam, jobs[j].idx)
			}
			if sw != nil {
				ev += sw.Evals()
			}
			mu.Lock()
			evals += ev
			mu.Unlock()
		}()
	}
	wg.Wait()
	w.Tick()
	return int64(len(jobs)), evals
}

type c19Kept struct {
	s string
	h uint64
}

// c19OrderProcess: the variant "release#order". It regenerates the call lists of the cold concurrent phase of the
// release process (same seed, same PRNG keys, same consumption) and executes them on one goroutine, last call first, as
// the first library calls of this process. The parent compares the per-function digests (Merge).
func c19OrderProcess(w *mon.W, cp *c19Corpus, pr c19Params) {
	d0 := cp.digest()
	calls := make([][]c19Call, pr.G)
	for g := 0; g < pr.G; g++ {
		r := gen.NewRand(w.Cfg.Seed, "C19", "worker/release/0", g)
		for k := 0; k < pr.N; k++ {
			calls[g] = append(calls[g], c19Gen(r, cp, false))
			if k&63 == 0 {
				r.Intn(4) // the concurrent worker draws its Gosched decision here
			}
		}
	}
	var dg, cnt [fNFuncs]uint64
	var ev int64
	for g := pr.G - 1; g >= 0; g-- {
		for k := pr.N - 1; k >= 0; k-- {
			c := calls[g][k]
			w.Op = "reverse-order process: " + c19FnNames[c.fn]
			dg[c.fn] += gen.Hash64(uint64(g), uint64(k), c19Exec(cp, nil, c, nil))
			cnt[c.fn]++
			ev++
			if ev&4095 == 0 {
				w.Tick()
			}
		}
	}
	for fn := 0; fn < fNFuncs; fn++ {
		w.Extra("orderdigest/"+c19FnNames[fn], int64(dg[fn]))
		w.Extra("ordercalls/"+c19FnNames[fn], int64(cnt[fn]))
	}
	if cp.digest() != d0 {
		w.Fail("corpus/modified-in-reverse-order-process", mon.D{})
		return
	}
	w.Eval(ev)
	w.Bucket("phase/same-calls-in-reverse-order-in-a-fresh-process")
}
