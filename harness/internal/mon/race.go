package mon

import (
	"encoding/json"
	"os"
	"path/filepath"
	"sort"
	"strings"
)

const libPrefix = "github.com/openacid/low/"

// scanRaceLogs parses the race detector's log files of one flavour. Reports are de-duplicated by
// the pair of innermost library functions of the two conflicting accesses. A report with no
// library frame in either access stack is a harness problem (inconclusive), never a verdict.
func scanRaceLogs(workDir, flavour string) (int, []Violation) {
	files, _ := filepath.Glob(filepath.Join(workDir, "racelog."+strings.ReplaceAll(flavour, "#", "_")+".*"))
	sort.Strings(files)
	total := 0
	bySig := map[string]*Violation{}
	var order []string
	for _, f := range files {
		b, err := os.ReadFile(f)
		if err != nil {
			continue
		}
		for _, blk := range strings.Split(string(b), "==================") {
			if !strings.Contains(blk, "WARNING: DATA RACE") {
				continue
			}
			total++
			stacks := accessStacks(blk)
			var parts []string
			lib := false
			for _, st := range stacks {
				name := ""
				for _, fn := range st {
					if strings.Contains(fn, libPrefix) {
						name = strings.TrimPrefix(fn, libPrefix)
						lib = true
						break
					}
				}
				if name == "" {
					if len(st) > 0 {
						name = "harness:" + st[0]
					} else {
						name = "harness:?"
					}
				}
				parts = append(parts, name)
			}
			sort.Strings(parts)
			sig := "race/" + strings.Join(parts, "~")
			if v, ok := bySig[sig]; ok {
				v.Count++
				continue
			}
			if len(blk) > 3500 {
				blk = blk[:3500] + "…"
			}
			d, _ := json.Marshal(D{"report": blk, "log": f})
			bySig[sig] = &Violation{Sig: sig, Family: "", Idx: 0, Flavour: flavour, Detail: d, Count: 1, Inconclusive: !lib}
			order = append(order, sig)
		}
	}
	var out []Violation
	for _, s := range order {
		out = append(out, *bySig[s])
	}
	return total, out
}

// accessStacks returns the function names of the two access stacks of one report.
func accessStacks(blk string) [][]string {
	var out [][]string
	var cur []string
	in := false
	for _, l := range strings.Split(blk, "\n") {
		t := strings.TrimSpace(l)
		isHdr := strings.HasPrefix(t, "Write at") || strings.HasPrefix(t, "Read at") ||
			strings.HasPrefix(t, "Previous write at") || strings.HasPrefix(t, "Previous read at") ||
			strings.HasPrefix(t, "Atomic") || strings.HasPrefix(t, "Previous atomic")
		if isHdr {
			if in {
				out = append(out, cur)
			}
			cur, in = nil, true
			continue
		}
		if !in {
			continue
		}
		if t == "" || strings.HasPrefix(t, "Goroutine ") {
			out = append(out, cur)
			cur, in = nil, false
			continue
		}
		if strings.HasSuffix(t, ")") && !strings.HasPrefix(t, "/") && strings.HasPrefix(l, "  ") && !strings.HasPrefix(l, "      ") {
			if i := strings.LastIndexByte(t, '('); i > 0 {
				cur = append(cur, t[:i])
			}
		}
	}
	if in {
		out = append(out, cur)
	}
	if len(out) > 2 {
		out = out[:2]
	}
	return out
}
