package mon

import (
	"encoding/binary"
	"encoding/json"
	"fmt"
	"os"
	"path/filepath"
	"runtime"
	"sort"
	"strconv"
	"strings"
	"sync"
	"sync/atomic"
	"syscall"
	"time"
)

// StallCPUSeconds is the CPU time one worker thread may spend inside a single case before the
// case is declared stalled. Cases are sized to take well under a second, so this is a margin of
// more than 60x and, being the thread's own CPU time, independent of machine load.
const StallCPUSeconds = 60.0

const (
	slotSize = 32
	maxSlots = 64
)

// progress is a MAP_SHARED file with one slot per worker holding the case it is executing. The
// page cache keeps it whatever way the process dies, so the parent can attribute a fatal error
// (OOM, checkptr, sanitizer abort, stack overflow) to the cases that were in flight.
type progress struct{ mem []byte }

func openProgress(path string) (*progress, error) {
	f, err := os.OpenFile(path, os.O_RDWR|os.O_CREATE|os.O_TRUNC, 0o644)
	if err != nil {
		return nil, err
	}
	defer f.Close()
	if err := f.Truncate(slotSize * maxSlots); err != nil {
		return nil, err
	}
	mem, err := syscall.Mmap(int(f.Fd()), 0, slotSize*maxSlots, syscall.PROT_READ|syscall.PROT_WRITE, syscall.MAP_SHARED)
	if err != nil {
		return nil, err
	}
	return &progress{mem}, nil
}

func (p *progress) set(worker, fam, idx int, running bool) {
	if p == nil || worker >= maxSlots {
		return
	}
	s := p.mem[worker*slotSize:]
	binary.LittleEndian.PutUint32(s[0:], 0)
	binary.LittleEndian.PutUint32(s[4:], uint32(fam))
	binary.LittleEndian.PutUint64(s[8:], uint64(idx))
	if running {
		binary.LittleEndian.PutUint32(s[0:], 1)
	}
}

func readProgress(path string, fams []Family) []CaseRef {
	b, err := os.ReadFile(path)
	if err != nil {
		return nil
	}
	var out []CaseRef
	for w := 0; w+1 <= len(b)/slotSize; w++ {
		s := b[w*slotSize:]
		if binary.LittleEndian.Uint32(s[0:]) != 1 {
			continue
		}
		fi := int(binary.LittleEndian.Uint32(s[4:]))
		idx := int(binary.LittleEndian.Uint64(s[8:]))
		if fi < len(fams) {
			out = append(out, CaseRef{fams[fi].Name, idx})
		}
	}
	return out
}

// RepeatMany is the number of immediate re-executions of every 256th case; every 16th case is re-executed once.
const RepeatMany = 12

// runCaseRep executes a case and, for a fixed share of the cases, executes the SAME case again right away (same
// generated inputs, same calls, same oracle). Random workloads almost never present the same input twice, so the hit
// path of any memo, the second use of a pooled buffer for the same size, a per-key counter - whatever a library keeps
// about an input between calls - would otherwise only ever be exercised by the structured families that happen to
// repeat inputs. Every 16th case runs twice; every 256th runs 1+RepeatMany times. Repetitions are ordinary monitored
// executions (their evaluations count); exact enumeration counters are not advanced twice (DistinctExact).
func (w *W) runCaseRep(f *Family, idx int) {
	w.rep = 0
	w.runCase(f, idx)
	n := 0
	switch {
	case f.NoRepeat || f.N < 32 || f.Name == "env-sweep":
		// small families are the hand-made heavy ones (2^31-bit bitmaps, 2^18 keys, long runs); the env-sweep is a
		// repetition already
	case idx%256 == 37:
		n = RepeatMany
	case idx%16 == 5:
		n = 1
	}
	before := len(w.viols)
	for k := 1; k <= n && len(w.viols) == before; k++ {
		w.rep = k
		w.runCase(f, idx)
	}
	if n > 0 && w.id >= 0 {
		w.buckets["cases-repeated-immediately"] += int64(n)
	}
	w.rep = 0
}

// BlockedTicks is the number of consecutive idle watchdog ticks after which an in-flight case counts as blocked.
const BlockedTicks = 120

func threadCPU(tid int64) float64 {
	return threadCPUFile("/proc/self/task/" + strconv.FormatInt(tid, 10) + "/stat")
}

func threadCPUFile(path string) float64 {
	b, err := os.ReadFile(path)
	if err != nil {
		return -1
	}
	s := string(b)
	i := strings.LastIndexByte(s, ')')
	if i < 0 {
		return -1
	}
	f := strings.Fields(s[i+1:])
	if len(f) < 13 {
		return -1
	}
	ut, _ := strconv.ParseFloat(f[11], 64)
	st, _ := strconv.ParseFloat(f[12], 64)
	return (ut + st) / 100.0
}

// coldVariant returns N for the flavour variants "coldconc" (0), "coldconc2" (1), ... and -1 otherwise.
func coldVariant(cfg *Config) int {
	v := cfg.Variant()
	if !strings.HasPrefix(v, "coldconc") {
		return -1
	}
	n, _ := strconv.Atoi(v[len("coldconc"):])
	if n < 1 {
		n = 1
	}
	return n - 1
}

// ColdRotation is 0 in the primary process and N in the process variant "#coldconcN": cold-start families use it
// to rotate which function, or which input, makes the first library call of the process.
func (c *Config) ColdRotation() int {
	v := coldVariant(c)
	if half := ColdVariants(c.Tier) / 2; v >= half {
		return v - half + 1
	}
	return 0
}

// ColdVariants is the number of "#coldconcN" process variants of a tier. The first half are purely concurrent
// first-use processes; the second half first run the Serial "cold-start" family with rotation 1, 2, ...
func ColdVariants(tier string) int {
	if tier == "thorough" {
		return 20
	}
	return 10
}

// RunChild executes the property's families in this process and writes the result file.
func RunChild(p *Prop, cfg *Config) int {
	start := time.Now()
	os.MkdirAll(cfg.WorkDir, 0o755)
	fams := withEnvSweep(cfg, p.Families(cfg))
	res := &Result{Prop: p.ID, Flavour: cfg.Flavour, Tier: cfg.Tier, Seed: cfg.Seed,
		Buckets: map[string]int64{}, Extra: map[string]int64{}, Info: map[string]string{}, GoVersion: runtime.Version()}
	resPath := filepath.Join(cfg.WorkDir, cfg.Flavour+".result.json")
	if cfg.Only != nil {
		resPath = filepath.Join(cfg.WorkDir, cfg.Flavour+".only.result.json")
	}
	os.Remove(resPath)

	var prog *progress
	if cfg.Only == nil {
		prog, _ = openProgress(filepath.Join(cfg.WorkDir, cfg.Flavour+".progress"))
	}

	nw := cfg.Workers
	if nw < 1 {
		nw = 1
	}
	workers := make([]*W, nw+1) // last one is the serial worker (main goroutine)
	for i := range workers {
		workers[i] = newW(i, cfg)
	}
	serialW := workers[nw]

	// stall detector
	stop := make(chan struct{})
	var wdWG sync.WaitGroup
	wdWG.Add(1)
	go func() {
		defer wdWG.Done()
		last := make([]uint64, len(workers))
		cpu0 := make([]float64, len(workers))
		t := time.NewTicker(time.Second)
		defer t.Stop()
		// blocked-process detector: the unit is one tick of THIS goroutine (at least a second apart, and only counted
		// when this goroutine was actually scheduled). If the whole process consumes no CPU for BlockedTicks consecutive
		// ticks while a case is in flight, every goroutine that matters is waiting for something that does not come
		// (a semaphore slot that was leaked, a lock, a channel): the call does not return. A frozen or starved machine
		// does not advance the count, because then this goroutine does not tick either.
		procCPU := threadCPUFile("/proc/self/stat")
		idleTicks := 0
		for {
			select {
			case <-stop:
				return
			case <-t.C:
				if c := threadCPUFile("/proc/self/stat"); c >= 0 {
					if c-procCPU < 0.05 {
						idleTicks++
					} else {
						idleTicks = 0
					}
					procCPU = c
				}
				if idleTicks >= BlockedTicks {
					for _, w := range workers {
						if w.tid.Load() == 0 || w.fam == nil {
							continue
						}
						d, _ := json.Marshal(D{"blocked_ticks": idleTicks, "op": w.Op, "a": w.A, "b": w.B, "c": w.C,
							"note": "the process consumed no CPU for this many consecutive watchdog ticks (>= 1 s each) while this case was in flight: the call is blocked and does not return"})
						res.Violations = append(res.Violations, Violation{Sig: "blocked/" + w.fam.Name + "/" + w.Op, Family: w.fam.Name, Idx: w.idx,
							Flavour: cfg.Flavour, Detail: d, Count: 1})
						res.Complete = false
						res.WallS = time.Since(start).Seconds()
						writeJSON(resPath, res)
						fmt.Fprintf(os.Stderr, "BLOCKED family=%s idx=%d op=%s\n", w.fam.Name, w.idx, w.Op)
						os.Exit(7)
					}
					idleTicks = 0
				}
			}
			for i, w := range workers {
				tid := w.tid.Load()
				if tid == 0 {
					continue
				}
				hb := w.heartbeat.Load()
				c := threadCPU(tid)
				if c < 0 {
					continue
				}
				if hb != last[i] || cpu0[i] == 0 {
					last[i], cpu0[i] = hb, c
					if cpu0[i] == 0 {
						cpu0[i] = 1e-9
					}
					continue
				}
				if c-cpu0[i] > StallCPUSeconds {
					// The worker is spinning inside one case. Its fields are read racily on
					// purpose: the goroutine will never return to synchronise with us.
					fam, idx := "?", 0
					if w.fam != nil {
						fam, idx = w.fam.Name, w.idx
					}
					d, _ := json.Marshal(D{"stalled_cpu_s": c - cpu0[i], "op": w.Op, "a": w.A, "b": w.B, "c": w.C,
						"note": "a single case consumed this much CPU time on its own thread without returning"})
					res.Violations = append(res.Violations, Violation{Sig: "stall/" + fam + "/" + w.Op, Family: fam, Idx: idx,
						Flavour: cfg.Flavour, Detail: d, Count: 1})
					res.Complete = false
					res.WallS = time.Since(start).Seconds()
					writeJSON(resPath, res)
					fmt.Fprintf(os.Stderr, "STALL family=%s idx=%d op=%s\n", fam, idx, w.Op)
					os.Exit(7)
				}
			}
		}
	}()

	type job struct{ fi, idx int }
	runParallel := func(fis []int) {
		// flatten into a single index space
		total := 0
		offs := make([]int, len(fis)+1)
		for k, fi := range fis {
			offs[k] = total
			total += fams[fi].N
		}
		offs[len(fis)] = total
		var next atomic.Int64
		var wg sync.WaitGroup
		for wi := 0; wi < nw; wi++ {
			wg.Add(1)
			go func(w *W) {
				defer wg.Done()
				runtime.LockOSThread()
				defer runtime.UnlockOSThread()
				w.tid.Store(int64(syscall.Gettid()))
				defer w.tid.Store(0)
				for {
					j := int(next.Add(1)) - 1
					if j >= total {
						return
					}
					k := sort.Search(len(fis), func(k int) bool { return offs[k+1] > j })
					fi := fis[k]
					idx := j - offs[k]
					prog.set(w.id, fi, idx, true)
					w.runCaseRep(&fams[fi], idx)
					prog.set(w.id, fi, idx, false)
				}
			}(workers[wi])
		}
		wg.Wait()
	}

	// runJobs: an explicit job list; all workers leave a start barrier together, so that their first calls into
	// the library are as simultaneous as the harness can make them.
	runJobs := func(jobs []job) {
		var next, ready atomic.Int64
		var wg sync.WaitGroup
		for wi := 0; wi < nw; wi++ {
			wg.Add(1)
			go func(w *W) {
				defer wg.Done()
				runtime.LockOSThread()
				defer runtime.UnlockOSThread()
				w.tid.Store(int64(syscall.Gettid()))
				defer w.tid.Store(0)
				ready.Add(1)
				for ready.Load() < int64(nw) {
				}
				for {
					j := int(next.Add(1)) - 1
					if j >= len(jobs) {
						return
					}
					if prog != nil {
						prog.set(w.id, jobs[j].fi, jobs[j].idx, true)
					}
					w.runCaseRep(&fams[jobs[j].fi], jobs[j].idx)
					if prog != nil {
						prog.set(w.id, jobs[j].fi, jobs[j].idx, false)
					}
				}
			}(workers[wi])
		}
		wg.Wait()
	}

	if cold := coldVariant(cfg); cold >= 0 {
		// "#coldconc[N]": a fresh process whose FIRST calls into the library come from all workers at once (no
		// serial family runs before them): a few cases of every family, interleaved. A replay repeats the whole
		// schedule (one case alone cannot reproduce a first-use interleaving).
		var par []int
		for fi := range fams {
			if !fams[fi].Serial && fams[fi].N > 0 && !fams[fi].NoCold {
				par = append(par, fi)
			}
		}
		var jobs []job
		if len(par) > 0 {
			// every worker's first case comes from the SAME family (another one in each variant), so that all of
			// them enter the same functions for the first time together
			first := par[cold%len(par)]
			// (never the same case twice: a family of one 1 GiB case must not run 16 times at once)
			for i := 0; i < nw && i < fams[first].N; i++ {
				jobs = append(jobs, job{first, ((cold/len(par))*nw + i) % fams[first].N})
			}
			rounds := 3*nw/len(par) + 2
			for r := 0; r < rounds; r++ {
				for k := range par {
					fi := par[(k+cold)%len(par)]
					if idx := r + cold*rounds; idx < fams[fi].N {
						jobs = append(jobs, job{fi, idx})
					}
				}
			}
		}
		// the second half of the variants first run the property's Serial "cold-start" family, which rotates WHICH
		// function (or which input) makes the first call of the process by Config.ColdRotation(); the first half are
		// purely concurrent
		if cfg.ColdRotation() > 0 {
			for fi := range fams {
				if fams[fi].Serial && fams[fi].Name == "cold-start" {
					runtime.LockOSThread()
					serialW.tid.Store(int64(syscall.Gettid()))
					for idx := 0; idx < fams[fi].N; idx++ {
						serialW.runCase(&fams[fi], idx)
					}
					serialW.tid.Store(0)
					runtime.UnlockOSThread()
				}
			}
		}
		runJobs(jobs)
		serialW.buckets["cold-concurrent-first-use/cases"] += int64(len(jobs))
	} else if cfg.Only != nil {
		found := false
		for fi := range fams {
			if fams[fi].Name == cfg.Only.Family && cfg.Only.Idx < fams[fi].N {
				found = true
				runtime.LockOSThread()
				serialW.tid.Store(int64(syscall.Gettid()))
				// a replayed case is repeated like the most-repeated cases of a run (runCaseRep): a witness that needs the
				// same calls several times in a row reproduces
				reps := RepeatMany
				if fams[fi].NoRepeat || fams[fi].N < 32 || fams[fi].Name == "env-sweep" {
					reps = 0
				}
				for k := 0; k <= reps && !serialW.Failed(); k++ {
					serialW.rep = k
					serialW.runCase(&fams[fi], cfg.Only.Idx)
				}
				serialW.rep = 0
				serialW.tid.Store(0)
				runtime.UnlockOSThread()
			}
		}
		if !found {
			serialW.fam = nil
			serialW.Harness("replay/no-such-case", D{"family": cfg.Only.Family, "idx": cfg.Only.Idx})
		}
	} else {
		var batch []int
		flush := func() {
			if len(batch) > 0 {
				runParallel(batch)
				batch = nil
			}
		}
		for fi := range fams {
			if fams[fi].Serial {
				flush()
				runtime.LockOSThread()
				serialW.tid.Store(int64(syscall.Gettid()))
				for idx := 0; idx < fams[fi].N; idx++ {
					prog.set(serialW.id, fi, idx, true)
					serialW.runCaseRep(&fams[fi], idx)
					prog.set(serialW.id, fi, idx, false)
				}
				serialW.tid.Store(0)
				runtime.UnlockOSThread()
			} else {
				batch = append(batch, fi)
			}
		}
		flush()
	}
	close(stop)
	wdWG.Wait()

	// merge
	all := map[uint64]struct{}{}
	if sketchUsed.Load() {
		for _, w := range workers {
			w.spillDistinct()
		}
		res.Distinct += sketchCount()
		if res.Info == nil {
			res.Info = map[string]string{}
		}
		res.Info["distinct_counting"] = "lower bound: set bits of a 2^30-bit bitmap indexed by the top 30 bits of each case hash (exact per-worker sets spilled at 2^18 entries)"
	}
	sig := map[string]int{}
	for _, w := range workers {
		res.Evaluations += w.evals
		res.Distinct += w.exact
		res.Digest += w.digest
		for k, v := range w.buckets {
			res.Buckets[k] += v
		}
		for k, v := range w.extra {
			res.Extra[k] += v
		}
		for h := range w.distinct {
			all[h] = struct{}{}
		}
		for _, v := range w.viols {
			if i, ok := sig[v.Sig]; ok {
				res.Violations[i].Count += v.Count
				// keep the lowest (family, idx) as the witness so the report is reproducible
				o := &res.Violations[i]
				if v.Family < o.Family || (v.Family == o.Family && v.Idx < o.Idx) {
					c := o.Count
					*o = v
					o.Count = c
				}
				continue
			}
			sig[v.Sig] = len(res.Violations)
			res.Violations = append(res.Violations, v)
		}
	}
	res.Distinct += int64(len(all))
	// samples: one per family in family order
	for fi := range fams {
		res.Families = append(res.Families, FamilyStat{fams[fi].Name, fams[fi].N})
		for _, w := range workers {
			if s := w.samples[fams[fi].Name]; len(s) > 0 {
				res.Samples = append(res.Samples, s[0])
				break
			}
		}
	}
	sort.Slice(res.Violations, func(i, j int) bool { return res.Violations[i].Sig < res.Violations[j].Sig })
	if p.Finish != nil {
		p.Finish(cfg, res)
	}
	res.Complete = true
	res.WallS = time.Since(start).Seconds()
	if err := writeJSON(resPath, res); err != nil {
		fmt.Fprintln(os.Stderr, "cannot write result:", err)
		return 4
	}
	return 0
}

func writeJSON(path string, v interface{}) error {
	b, err := json.MarshalIndent(v, "", " ")
	if err != nil {
		return err
	}
	tmp := path + ".tmp"
	if err := os.WriteFile(tmp, b, 0o644); err != nil {
		return err
	}
	return os.Rename(tmp, path)
}
