package mon

import (
	"bufio"
	"bytes"
	"context"
	"encoding/json"
	"fmt"
	"os"
	"os/exec"
	"path/filepath"
	"regexp"
	"sort"
	"strings"
	"time"
)

// Evidence mirrors EVIDENCE.schema.json.
type Evidence struct {
	PropertyID  string                 `json:"property_id"`
	Tier        string                 `json:"tier"`
	Seed        int64                  `json:"seed"`
	Level       string                 `json:"level"`
	Coverage    map[string]interface{} `json:"coverage"`
	Assumptions []string               `json:"assumptions"`
	WallS       float64                `json:"wall_s"`
	Violations  int                    `json:"violations"`
	Verdict     string                 `json:"verdict"`
}

type Replay struct {
	Property string          `json:"property"`
	Flavour  string          `json:"flavour"`
	Tier     string          `json:"tier"`
	Seed     int64           `json:"seed"`
	Family   string          `json:"family"`
	Idx      int             `json:"idx"`
	Sig      string          `json:"sig"`
	Count    int64           `json:"count"`
	Detail   json.RawMessage `json:"detail"`
	Note     string          `json:"note"`
}

type known struct {
	prop, key, text string
}

func loadKnown(path string) []known {
	f, err := os.Open(path)
	if err != nil {
		return nil
	}
	defer f.Close()
	var out []known
	sc := bufio.NewScanner(f)
	for sc.Scan() {
		l := strings.TrimSpace(sc.Text())
		if !strings.HasPrefix(l, "known:") {
			continue
		}
		k := known{}
		rest := strings.TrimSpace(strings.TrimPrefix(l, "known:"))
		fs := strings.Fields(rest)
		var text []string
		for _, f := range fs {
			switch {
			case strings.HasPrefix(f, "property=") && k.prop == "":
				k.prop = strings.TrimPrefix(f, "property=")
			case strings.HasPrefix(f, "key=") && k.key == "":
				k.key = strings.TrimPrefix(f, "key=")
			default:
				text = append(text, f)
			}
		}
		k.text = strings.Join(text, " ")
		if k.prop != "" && k.key != "" {
			out = append(out, k)
		}
	}
	return out
}

var sanRe = regexp.MustCompile(`[^A-Za-z0-9_.-]+`)

func sanitize(s string) string {
	s = sanRe.ReplaceAllString(s, "_")
	if len(s) > 80 {
		s = s[:80]
	}
	return s
}

type parentCtx struct {
	p        *Prop
	tier     string
	seed     int64
	verifDir string
	workDir  string
	workers  int
}

func (pc *parentCtx) binFor(flavour string) string {
	return filepath.Join(pc.verifDir, "bin", "vcheck_"+BaseFlavour(flavour))
}

// spawn runs one child; returns exit code (-1 for signal/timeout), timedOut.
func (pc *parentCtx) spawn(flavour string, only *CaseRef, logPath string, limit time.Duration) (int, bool) {
	args := []string{"-child", "-prop", pc.p.ID, "-tier", pc.tier, "-seed", fmt.Sprint(pc.seed),
		"-flavour", flavour, "-workdir", pc.workDir, "-workers", fmt.Sprint(pc.workers)}
	if only != nil {
		args = append(args, "-only", fmt.Sprintf("%s:%d", only.Family, only.Idx))
	}
	ctx, cancel := context.WithTimeout(context.Background(), limit)
	defer cancel()
	cmd := exec.CommandContext(ctx, pc.binFor(flavour), args...)
	lf, err := os.Create(logPath)
	if err != nil {
		return -1, false
	}
	defer lf.Close()
	cmd.Stdout, cmd.Stderr = lf, lf
	env := os.Environ()
	if strings.HasPrefix(flavour, "race") {
		env = append(env, "GORACE=halt_on_error=0 history_size=3 log_path="+filepath.Join(pc.workDir, "racelog."+strings.ReplaceAll(flavour, "#", "_")))
	}
	if BaseFlavour(flavour) == "asan" {
		env = append(env, "ASAN_OPTIONS=detect_leaks=0")
	}
	env = append(env, "GOTRACEBACK=all")
	cmd.Env = env
	err = cmd.Run()
	if ctx.Err() == context.DeadlineExceeded {
		return -1, true
	}
	if err == nil {
		return 0, false
	}
	if ee, ok := err.(*exec.ExitError); ok {
		return ee.ExitCode(), false
	}
	return -1, false
}

func readResult(path string) *Result {
	b, err := os.ReadFile(path)
	if err != nil {
		return nil
	}
	r := &Result{}
	if json.Unmarshal(b, r) != nil {
		return nil
	}
	return r
}

func compact(b []byte) string {
	var out bytes.Buffer
	if json.Compact(&out, b) != nil {
		return string(b)
	}
	return out.String()
}

func tail(path string, n int) string {
	b, err := os.ReadFile(path)
	if err != nil {
		return ""
	}
	if len(b) > n {
		b = b[:n]
	}
	return string(b)
}

// crashKind classifies a dead child's log. The head of the log is what matters: Go prints the
// reason first and the goroutine dump after it.
func crashKind(log string) string {
	switch {
	case strings.Contains(log, "AddressSanitizer"):
		return "asan"
	case strings.Contains(log, "fatal error: checkptr"):
		return "checkptr"
	case strings.Contains(log, "out of memory") || strings.Contains(log, "cannot allocate memory"):
		return "oom"
	case strings.Contains(log, "stack overflow") || strings.Contains(log, "goroutine stack exceeds"):
		return "stackoverflow"
	case strings.Contains(log, "concurrent map"):
		return "concurrent-map"
	case strings.Contains(log, "fatal error:"):
		return "fatal"
	case strings.Contains(log, "panic:"):
		return "panic"
	case strings.Contains(log, "SIGSEGV") || strings.Contains(log, "signal "):
		return "signal"
	}
	return "died"
}

// RunParent runs every flavour of the property and produces evidence and verdict lines.
// It returns the process exit code: 0 held, 1 violation, 3 inconclusive.
func RunParent(p *Prop, tier string, seed int64, verifDir string, workers int) int {
	start := time.Now()
	pc := &parentCtx{p: p, tier: tier, seed: seed, verifDir: verifDir,
		workDir: filepath.Join(verifDir, "work", p.ID), workers: workers}
	os.RemoveAll(pc.workDir)
	os.MkdirAll(pc.workDir, 0o755)
	os.MkdirAll(filepath.Join(verifDir, "evidence"), 0o755)
	os.MkdirAll(filepath.Join(verifDir, "replays"), 0o755)

	limit := 40 * time.Minute
	if tier == "thorough" {
		limit = 5 * time.Hour
	}

	flavours := p.Flavours(tier)
	results := map[string]*Result{}
	var viols []Violation
	var inconclusive []string
	flavourInfo := []map[string]interface{}{}

	for _, fl := range flavours {
		cfg := &Config{Prop: p.ID, Tier: tier, Seed: seed, Flavour: fl, Workers: workers, WorkDir: pc.workDir}
		if _, err := os.Stat(pc.binFor(fl)); err != nil {
			inconclusive = append(inconclusive, "flavour "+fl+": binary missing ("+pc.binFor(fl)+")")
			continue
		}
		logPath := filepath.Join(pc.workDir, fl+".log")
		code, timedOut := pc.spawn(fl, nil, logPath, limit)
		r := readResult(filepath.Join(pc.workDir, fl+".result.json"))
		info := map[string]interface{}{"flavour": fl, "exit": code}
		switch {
		case timedOut:
			inconclusive = append(inconclusive, fmt.Sprintf("flavour %s: whole-run wall-clock watchdog (%s) fired", fl, limit))
		case code == 0 && r != nil && r.Complete:
			// normal
		case code == 7 && r != nil:
			// stall reported by the child; violations are in r
		default:
			// the child died: attribute to in-flight cases by re-running each alone
			log := tail(logPath, 6000)
			kind := crashKind(log)
			inflight := readProgress(filepath.Join(pc.workDir, fl+".progress"), withEnvSweep(cfg, p.Families(cfg)))
			confirmed := 0
			for _, c := range inflight {
				c := c
				olog := filepath.Join(pc.workDir, fmt.Sprintf("%s.only.%s.%d.log", fl, sanitize(c.Family), c.Idx))
				os.Remove(filepath.Join(pc.workDir, fl+".only.result.json"))
				ocode, oto := pc.spawn(fl, &c, olog, 20*time.Minute)
				or := readResult(filepath.Join(pc.workDir, fl+".only.result.json"))
				if oto {
					continue
				}
				if ocode == 7 && or != nil && len(or.Violations) > 0 {
					// the case stalled when run alone; the child reported it
					confirmed++
					viols = append(viols, or.Violations...)
				} else if ocode != 0 && (or == nil || !or.Complete) {
					confirmed++
					ol := tail(olog, 4000)
					d, _ := json.Marshal(D{"what": "process died while executing this case alone", "kind": crashKind(ol),
						"exit": ocode, "log_head": ol})
					viols = append(viols, Violation{Sig: "crash/" + c.Family + "/" + crashKind(ol), Family: c.Family, Idx: c.Idx,
						Flavour: fl, Detail: d, Count: 1})
				} else if or != nil && len(or.Violations) > 0 {
					confirmed++
					viols = append(viols, or.Violations...)
				}
			}
			info["crash_kind"] = kind
			info["inflight"] = len(inflight)
			info["confirmed"] = confirmed
			if confirmed == 0 {
				inconclusive = append(inconclusive, fmt.Sprintf("flavour %s: child exited %d (%s) and no in-flight case reproduces it alone; see %s", fl, code, kind, logPath))
			}
		}
		if r != nil {
			results[fl] = r
			viols = append(viols, r.Violations...)
			info["evaluations"] = r.Evaluations
			info["distinct"] = r.Distinct
			info["wall_s"] = r.WallS
			info["go"] = r.GoVersion
			info["digest"] = fmt.Sprintf("%016x", r.Digest)
		}
		if strings.HasPrefix(fl, "race") {
			reports, rv := scanRaceLogs(pc.workDir, fl)
			info["race_reports"] = reports
			viols = append(viols, rv...)
		}
		flavourInfo = append(flavourInfo, info)
	}

	if p.Merge != nil {
		viols = append(viols, p.Merge(tier, results)...)
	}

	primary := results[flavours[0]]
	if primary == nil {
		inconclusive = append(inconclusive, "primary flavour produced no result")
	} else {
		for _, b := range p.Required {
			if primary.Buckets[b] == 0 {
				inconclusive = append(inconclusive, "required coverage bucket never observed: "+b)
			}
		}
	}

	// split harness problems from verdicts
	var real []Violation
	for _, v := range viols {
		if v.Inconclusive {
			inconclusive = append(inconclusive, "harness problem "+v.Sig+": "+string(v.Detail))
		} else {
			real = append(real, v)
		}
	}
	sort.SliceStable(real, func(i, j int) bool { return real[i].Sig < real[j].Sig })

	// known findings
	kn := loadKnown(filepath.Join(verifDir, "KNOWN_FINDINGS.txt"))
	var lines []string
	unlisted := 0
	seenSig := map[string]bool{}
	for _, v := range real {
		key := v.Flavour + "|" + v.Sig
		if seenSig[key] {
			continue
		}
		seenSig[key] = true
		listed := false
		for _, k := range kn {
			if k.prop == p.ID && k.key == v.Sig {
				lines = append(lines, fmt.Sprintf("KNOWN-FINDING: property=%s %s [key=%s flavour=%s observed %d times]", p.ID, k.text, v.Sig, v.Flavour, v.Count))
				listed = true
				break
			}
		}
		if listed {
			continue
		}
		unlisted++
		rp := filepath.Join(verifDir, "replays", p.ID+"_"+sanitize(v.Flavour+"_"+v.Sig)+".json")
		writeJSON(rp, &Replay{Property: p.ID, Flavour: v.Flavour, Tier: tier, Seed: seed, Family: v.Family, Idx: v.Idx,
			Sig: v.Sig, Count: v.Count, Detail: v.Detail,
			Note: "re-execute with: ./check " + p.ID + " --replay " + rp})
		lines = append(lines, fmt.Sprintf("VIOLATION property=%s replay=%s", p.ID, rp))
		lines = append(lines, fmt.Sprintf("  sig=%s flavour=%s family=%s case=%d count=%d detail=%.700s", v.Sig, v.Flavour, v.Family, v.Idx, v.Count, compact(v.Detail)))
	}

	verdict := "held-on-observed"
	exit := 0
	if unlisted > 0 {
		verdict, exit = "violated", 1
	} else if len(inconclusive) > 0 {
		verdict, exit = "inconclusive", 3
	}

	// evidence
	cov := map[string]interface{}{}
	var evals, distinct int64
	for _, fl := range flavours {
		if r := results[fl]; r != nil {
			evals += r.Evaluations
		}
	}
	if primary != nil {
		distinct = primary.Distinct
		cov["buckets"] = primary.Buckets
		for k, v := range primary.Extra {
			cov[k] = v
		}
		for k, v := range primary.Info {
			cov[k] = v
		}
		fam := []map[string]interface{}{}
		for _, f := range primary.Families {
			fam = append(fam, map[string]interface{}{"family": f.Name, "cases": f.Cases})
		}
		cov["families"] = fam
		s := primary.Samples
		if len(s) > 14 {
			s = s[:14]
		}
		cov["samples"] = s
	} else {
		cov["samples"] = []interface{}{}
	}
	cov["evaluations"] = evals
	cov["distinct_nontrivial"] = distinct
	cov["rule"] = p.Rule
	cov["flavours"] = flavourInfo
	cov["required_buckets"] = p.Required
	if p.Exhaustive != nil && p.Exhaustive(tier) && exit == 0 {
		cov["exhaustive"] = true
	}
	if len(inconclusive) > 0 {
		cov["inconclusive"] = inconclusive
	}
	ev := &Evidence{PropertyID: p.ID, Tier: tier, Seed: seed, Level: p.Level, Coverage: cov,
		Assumptions: p.Assumptions, WallS: time.Since(start).Seconds(), Violations: unlisted, Verdict: verdict}
	if err := writeJSON(filepath.Join(verifDir, "evidence", p.ID+".json"), ev); err != nil {
		fmt.Println("INCONCLUSIVE cannot write evidence:", err)
		if exit == 0 {
			exit = 3
		}
	}

	for _, l := range lines {
		fmt.Println(l)
	}
	for _, s := range inconclusive {
		fmt.Println("INCONCLUSIVE property=" + p.ID + " " + s)
	}
	fmt.Printf("%s %s tier=%s seed=%d verdict=%s evaluations=%d distinct_nontrivial=%d flavours=%s wall=%.1fs\n",
		p.ID, "done", tier, seed, verdict, evals, distinct, strings.Join(flavours, ","), time.Since(start).Seconds())
	return exit
}

// RunReplay re-executes the single case named in a replay file against the current tree.
func RunReplay(p *Prop, path string, verifDir string) int {
	b, err := os.ReadFile(path)
	if err != nil {
		fmt.Println("cannot read replay file:", err)
		return 2
	}
	rp := &Replay{}
	if err := json.Unmarshal(b, rp); err != nil {
		fmt.Println("bad replay file:", err)
		return 2
	}
	pc := &parentCtx{p: p, tier: rp.Tier, seed: rp.Seed, verifDir: verifDir,
		workDir: filepath.Join(verifDir, "work", p.ID+".replay"), workers: 1}
	os.RemoveAll(pc.workDir)
	os.MkdirAll(pc.workDir, 0o755)
	// schedule-dependent witnesses (race reports) are repeated
	tries := 1
	if strings.HasPrefix(rp.Sig, "race/") {
		tries = 10
		pc.workers = 16
	}
	// a cross-process oracle (Merge) is replayed by running the processes it compares again
	if strings.HasPrefix(rp.Sig, "result-depends-on-call-order/") && p.Merge != nil {
		pc.workers = 16
		rs := map[string]*Result{}
		for _, fl := range []string{BaseFlavour(rp.Flavour), rp.Flavour} {
			logPath := filepath.Join(pc.workDir, "replay."+strings.ReplaceAll(fl, "#", "_")+".log")
			if _, to := pc.spawn(fl, nil, logPath, 30*time.Minute); to {
				fmt.Println("INCONCLUSIVE replay timed out")
				return 3
			}
			rs[fl] = readResult(filepath.Join(pc.workDir, fl+".result.json"))
		}
		for _, v := range p.Merge(rp.Tier, rs) {
			if !v.Inconclusive {
				fmt.Printf("VIOLATION property=%s replay=%s\n  sig=%s detail=%.900s\n", p.ID, path, v.Sig, compact(v.Detail))
				return 1
			}
		}
		fmt.Printf("REPLAY-OK property=%s the compared processes agree on the current tree\n", p.ID)
		return 0
	}
	// a first-use interleaving cannot be reproduced by one case alone: repeat the whole cold-concurrent schedule
	coldRp := strings.Contains(rp.Flavour, "#coldconc")
	if coldRp {
		tries = 10
		pc.workers = 16
	}
	for t := 0; t < tries; t++ {
		logPath := filepath.Join(pc.workDir, "replay.log")
		var only *CaseRef
		if rp.Family != "" && rp.Family != "?" && !coldRp {
			only = &CaseRef{rp.Family, rp.Idx}
		}
		code, to := pc.spawn(rp.Flavour, only, logPath, 30*time.Minute)
		resName := rp.Flavour + ".only.result.json"
		if only == nil {
			resName = rp.Flavour + ".result.json"
		}
		r := readResult(filepath.Join(pc.workDir, resName))
		var vs []Violation
		if r != nil {
			vs = r.Violations
		}
		if strings.HasPrefix(rp.Flavour, "race") {
			_, rv := scanRaceLogs(pc.workDir, rp.Flavour)
			vs = append(vs, rv...)
		}
		if to {
			fmt.Println("INCONCLUSIVE replay timed out")
			return 3
		}
		if code != 0 && (r == nil || !r.Complete) {
			fmt.Printf("VIOLATION property=%s replay=%s\n  replayed case killed the process (exit %d, %s): %.600s\n", p.ID, path, code, crashKind(tail(logPath, 4000)), tail(logPath, 1500))
			return 1
		}
		for _, v := range vs {
			if !v.Inconclusive {
				fmt.Printf("VIOLATION property=%s replay=%s\n  sig=%s detail=%.900s\n", p.ID, path, v.Sig, compact(v.Detail))
				return 1
			}
		}
	}
	fmt.Printf("REPLAY-OK property=%s the recorded case no longer violates on the current tree (%d run(s))\n", p.ID, tries)
	return 0
}
