package mon

import (
	"runtime"
	"runtime/debug"
	"sync/atomic"
)

// Environment sweep. The properties quantify over inputs only, so their verdicts must not depend on
// process-wide settings a deployment legitimately varies: the number of Ps (GOMAXPROCS), whether the
// other Ps are busy, how often the collector runs. A family opts in with Env > 0; the runtime then
// appends one Serial family "env-sweep" with one case per setting that re-runs Env freshly drawn cases
// of each opted-in family under that setting, through the same driver and oracle. Nothing else runs in
// the process meanwhile (Serial), so changing the settings disturbs no other monitor.
type envSetting struct {
	name  string
	procs int  // 0 = leave
	busy  bool // keep every other P occupied by a spinning goroutine: a goroutine the callee starts is not picked up until the caller blocks or is preempted
	gc    int  // SetGCPercent value, 0 = leave
}

func envSettings(tier string) []envSetting {
	s := []envSetting{
		{name: "GOMAXPROCS=1", procs: 1},
		{name: "GOMAXPROCS=2+busy-peer", procs: 2, busy: true},
		{name: "GOMAXPROCS=3", procs: 3},
		{name: "GOMAXPROCS=7", procs: 7},
		{name: "GOMAXPROCS=61", procs: 61}, // more Ps than this machine has CPUs (a big server, or runtime.GOMAXPROCS(61))
	}
	if tier == "thorough" {
		s = append(s,
			envSetting{name: "GOMAXPROCS=2", procs: 2},
			envSetting{name: "GOMAXPROCS=5", procs: 5},
			envSetting{name: "GOMAXPROCS=6", procs: 6},
			envSetting{name: "GOMAXPROCS=12", procs: 12},
			envSetting{name: "GOMAXPROCS=13+busy-peers", procs: 13, busy: true},
			envSetting{name: "GCPercent=1", gc: 1},
		)
	}
	return s
}

// EnvSetting is the exported view of one env-sweep setting for Serial drivers that run their own sweep.
type EnvSetting struct {
	Name string
	s    envSetting
}

// Apply puts the setting in force and returns the function that restores the previous state.
func (e EnvSetting) Apply() func() { return e.s.apply() }

// EnvSettings lists the settings of a tier.
func EnvSettings(tier string) []EnvSetting {
	var out []EnvSetting
	for _, s := range envSettings(tier) {
		out = append(out, EnvSetting{s.name, s})
	}
	return out
}

func (s envSetting) apply() (restore func()) {
	prevP := 0
	if s.procs > 0 {
		prevP = runtime.GOMAXPROCS(s.procs)
	}
	prevGC := 0
	if s.gc > 0 {
		prevGC = debug.SetGCPercent(s.gc)
	}
	var stop atomic.Bool
	var started atomic.Int32
	n := 0
	if s.busy {
		n = s.procs - 1
		for i := 0; i < n; i++ {
			go func() {
				started.Add(1)
				for !stop.Load() {
				}
			}()
		}
		for int(started.Load()) < n {
			runtime.Gosched()
		}
	}
	return func() {
		stop.Store(true)
		if s.gc > 0 {
			debug.SetGCPercent(prevGC)
		}
		if s.procs > 0 {
			runtime.GOMAXPROCS(prevP)
		}
	}
}

// withEnvSweep appends the env-sweep family if any family opted in.
func withEnvSweep(cfg *Config, fams []Family) []Family {
	// Early families move up behind the leading cold-start family
	{
		var head, early, rest []Family
		for i, f := range fams {
			switch {
			case i == 0 && f.Serial && f.Name == "cold-start":
				head = append(head, f)
			case f.Early && f.Serial:
				early = append(early, f)
			default:
				rest = append(rest, f)
			}
		}
		fams = append(append(head, early...), rest...)
	}
	var src []Family
	for _, f := range fams {
		if f.Env > 0 && !f.Serial && f.N > 0 {
			src = append(src, f)
		}
	}
	if len(src) == 0 {
		return fams
	}
	settings := envSettings(cfg.Tier)
	return append(fams, Family{Name: "env-sweep", N: len(settings), Serial: true, Run: func(w *W, idx int) {
		s := settings[idx]
		restore := s.apply()
		w.env = s.name
		defer func() {
			w.env = ""
			restore()
		}()
		for fi := range src {
			f := &src[fi]
			// small families (N <= 2*Env) run completely under every setting, so that their largest cases meet every
			// setting in every run; of larger ones Env cases are drawn
			n := f.Env
			if f.N <= 2*f.Env {
				n = f.N
			}
			for j := 0; j < n; j++ {
				sub := w.Rng.Intn(f.N)
				if f.N <= 2*f.Env {
					sub = j
				}
				outer := *w.Rng
				w.Rng.Reseed(w.Cfg.Seed, w.Cfg.Prop, f.Name+"@"+s.name, sub)
				w.Bucket("env/" + s.name)
				w.Tick()
				f.Run(w, sub)
				*w.Rng = outer
			}
		}
	}})
}
