// Package mon is the monitoring runtime shared by all property drivers: per-worker observation
// accounting, violation records, the child-side case runner with panic attribution and a
// CPU-time stall detector, and the parent side that runs one child per build flavour, merges what
// the monitors observed into evidence/<ID>.json and prints the verdict lines.
package mon

import (
	"encoding/json"
	"fmt"
	"math/bits"
	"runtime/debug"
	"strings"
	"sync"
	"sync/atomic"

	"verif/internal/gen"
)

// Config is what a driver may depend on.
type Config struct {
	Prop    string
	Tier    string // quick | thorough
	Seed    int64
	Flavour string // release | debug | race | noopt | nooptl | asan | go126
	Workers int
	WorkDir string
	Only    *CaseRef // replay / confirmation: run just this case
}

func (c *Config) Thorough() bool { return c.Tier == "thorough" }

// Pick returns q in the quick tier and t in the thorough tier.
func (c *Config) Pick(q, t int) int {
	if c.Thorough() {
		return t
	}
	return q
}

// Base is the build flavour without the "#variant" suffix ("race#2" runs the race binary again in a
// fresh process with a different process-level configuration).
func (c *Config) Base() string { return BaseFlavour(c.Flavour) }

// Variant is the suffix after '#', or "".
func (c *Config) Variant() string {
	if i := strings.IndexByte(c.Flavour, '#'); i >= 0 {
		return c.Flavour[i+1:]
	}
	return ""
}

func BaseFlavour(f string) string {
	if i := strings.IndexByte(f, '#'); i >= 0 {
		return f[:i]
	}
	return f
}

// Slow reports whether the flavour is an instrumented (several times slower) build.
func (c *Config) Slow() bool {
	switch c.Base() {
	case "race", "asan", "noopt", "nooptl", "debug":
		return true
	}
	return false
}

type CaseRef struct {
	Family string `json:"family"`
	Idx    int    `json:"idx"`
}

// Family is a fixed, seed-determined list of N cases. Run executes case idx: it generates the
// inputs from w.Rng, calls the library and hands what it observed to the monitor (w.*).
type Family struct {
	Name     string
	N        int
	Run      func(w *W, idx int)
	Serial   bool // runs alone on the main goroutine (it manages its own goroutines)
	NoCold   bool // too heavy to be repeated in every cold process variant
	Early    bool // runs right after the Serial cold-start family, before any parallel family (Serial families only)
	NoRepeat bool // cases are never re-executed by runCaseRep (a case that is a whole process schedule)
	Env      int  // > 0: this many freshly drawn cases of the family are re-run under every setting of the env-sweep family (env.go)
}

// Prop describes one property's check.
type Prop struct {
	ID          string
	Level       string // exploration | fault_enumeration
	Rule        string
	Assumptions []string
	Exhaustive  func(tier string) bool
	Flavours    func(tier string) []string // first one is the primary flavour
	Families    func(c *Config) []Family
	Required    []string                                             // buckets that must be non-empty in the primary flavour
	Finish      func(c *Config, r *Result)                           // child side, after all families
	Merge       func(tier string, rs map[string]*Result) []Violation // parent side, cross-flavour oracle
}

// Violation is one observed refutation (or, with Inconclusive set, a harness-side problem).
type Violation struct {
	Sig          string          `json:"sig"` // stable signature used by KNOWN_FINDINGS.txt
	Family       string          `json:"family"`
	Idx          int             `json:"idx"`
	Flavour      string          `json:"flavour"`
	Detail       json.RawMessage `json:"detail"`
	Count        int64           `json:"count"` // how many observations carried this signature
	Inconclusive bool            `json:"inconclusive,omitempty"`
}

// D is a detail record.
type D map[string]interface{}

// W is the per-worker monitor context. Not shared between goroutines except where noted.
type W struct {
	Cfg *Config
	Rng *gen.Rand

	id        int
	fam       *Family
	idx       int
	evals     int64
	exact     int64
	digest    uint64
	buckets   map[string]int64
	distinct  map[uint64]struct{}
	samples   map[string][]json.RawMessage
	viols     []Violation
	violBySig map[string]int
	extra     map[string]int64

	// State is per-worker scratch for drivers (e.g. results retained across cases to check that a
	// later call does not change a slice returned earlier).
	State map[string]interface{}

	// Context for panic attribution; set by drivers before risky calls (plain stores, cheap).
	Op      string
	A, B, C int64
	Obj     interface{}
	// RO is set while arguments of the current case live in a read-only mapping (props/ro.go): a memory fault inside
	// a library function is then a store into an argument.
	RO bool
	// ROArena / ROGuard are the address ranges of that mapping and of the inaccessible page behind it.
	ROArena, ROGuard [2]uintptr

	heartbeat atomic.Uint64
	tid       atomic.Int64
	env       string // name of the env-sweep setting in force, "" outside the sweep
	rep       int    // > 0: this execution is the rep-th immediate repetition of the case (runCaseRep)
}

func newW(id int, cfg *Config) *W {
	return &W{
		Cfg: cfg, id: id, Rng: &gen.Rand{},
		buckets:   map[string]int64{},
		distinct:  map[uint64]struct{}{},
		samples:   map[string][]json.RawMessage{},
		violBySig: map[string]int{},
		extra:     map[string]int64{},
		State:     map[string]interface{}{},
	}
}

// NewScratchW returns a monitor context whose observations are discarded by the caller; drivers use
// it to run another property's workload only for its side effects on shared state.
func NewScratchW(cfg *Config) *W { return newW(-1, cfg) }

// Violations returns what a scratch context recorded.
func (w *W) Violations() []Violation { return w.viols }

// Evals returns the number of evaluations counted so far.
func (w *W) Evals() int64 { return w.evals }

// RunScratch executes one case of a family on a scratch context (panics propagate to the caller's recover).
func (w *W) RunScratch(f *Family, idx int) { w.runCase(f, idx) }

// Eval counts n oracle-compared call/return events.
func (w *W) Eval(n int64) { w.evals += n }

// Bucket counts an observation in a coverage class.
func (w *W) Bucket(name string) { w.buckets[name]++ }

func (w *W) BucketN(name string, n int64) {
	if n != 0 {
		w.buckets[name] += n
	}
}

// Distinct records the hash of a case that is non-trivial by the property's rule.
func (w *W) Distinct(h uint64) {
	w.distinct[h] = struct{}{}
	if len(w.distinct) >= distinctSpill {
		w.spillDistinct()
	}
}

// A worker keeps exact hashes up to distinctSpill entries; beyond that they are folded into one process-wide
// 2^30-bit hash bitmap whose number of set bits is a LOWER bound on the number of distinct hashes seen (two
// hashes sharing a bit are counted once). This bounds the monitor's own memory (a 32-bit flavour has < 4 GiB).
const (
	distinctSpill    = 1 << 18
	distinctSketchLg = 30
)

var (
	sketchOnce sync.Once
	sketch     []uint32
	sketchUsed atomic.Bool
)

func (w *W) spillDistinct() {
	if w.id < 0 { // scratch contexts are discarded
		w.distinct = map[uint64]struct{}{}
		return
	}
	sketchOnce.Do(func() { sketch = make([]uint32, 1<<(distinctSketchLg-5)) })
	sketchUsed.Store(true)
	for h := range w.distinct {
		h ^= h >> 30
		h *= 0xbf58476d1ce4e5b9
		h ^= h >> 27
		h *= 0x94d049bb133111eb
		b := h >> (64 - distinctSketchLg)
		p, m := &sketch[b>>5], uint32(1)<<(b&31)
		for {
			o := atomic.LoadUint32(p)
			if o&m != 0 || atomic.CompareAndSwapUint32(p, o, o|m) {
				break
			}
		}
	}
	w.distinct = map[uint64]struct{}{}
}

// sketchCount returns the number of set bits of the spill bitmap.
func sketchCount() int64 {
	var n int64
	for _, x := range sketch {
		n += int64(bits.OnesCount32(x))
	}
	return n
}

// DistinctExact adds n cases that are distinct and non-trivial by construction (exact loop
// counters of complete enumerations; they are not hashed).
func (w *W) DistinctExact(n int64) {
	if w.env != "" || w.rep > 0 {
		return // the env-sweep and runCaseRep repeat cases of a complete enumeration: already counted
	}
	w.exact += n
}

// Digest folds a per-case result hash into an order-independent digest (used to compare builds).
func (w *W) Digest(h uint64) { w.digest += h }

// Extra adds to a named property-specific counter reported under coverage.
func (w *W) Extra(name string, n int64) { w.extra[name] += n }

// Tick tells the stall detector that the current case is making progress.
func (w *W) Tick() { w.heartbeat.Add(1) }

// Sample keeps a few actual cases per family for the evidence file.
func (w *W) Sample(f func() interface{}) {
	name := "?"
	if w.fam != nil {
		name = w.fam.Name
	}
	if len(w.samples[name]) >= 1 {
		return
	}
	b, err := json.Marshal(D{"family": name, "case": w.idx, "sample": f()})
	if err != nil {
		b, _ = json.Marshal(D{"family": name, "case": w.idx, "sample": fmt.Sprint(f())})
	}
	w.samples[name] = append(w.samples[name], b)
}

// Fail records a violation. sig must identify the failing call site and input class, not the
// random input, so that KNOWN_FINDINGS.txt can name it.
func (w *W) Fail(sig string, detail D) {
	w.fail(sig, detail, false)
}

// Harness records a problem of the harness itself (never a verdict about the library).
func (w *W) Harness(sig string, detail D) {
	w.fail(sig, detail, true)
}

func (w *W) fail(sig string, detail D, inconclusive bool) {
	if i, ok := w.violBySig[sig]; ok {
		w.viols[i].Count++
		return
	}
	fam, idx := "?", 0
	if w.fam != nil {
		fam, idx = w.fam.Name, w.idx
	}
	if w.env != "" && detail != nil {
		detail["env_setting"] = w.env
	}
	if w.rep > 0 && detail != nil {
		detail["immediate_repetition_of_the_case"] = w.rep
	}
	b, err := json.Marshal(detail)
	if err != nil {
		b, _ = json.Marshal(fmt.Sprintf("%+v", detail))
	}
	w.violBySig[sig] = len(w.viols)
	w.viols = append(w.viols, Violation{Sig: sig, Family: fam, Idx: idx, Flavour: w.Cfg.Flavour,
		Detail: b, Count: 1, Inconclusive: inconclusive})
}

// faultIn reports whether a recovered value is a memory fault at an address inside [rng[0], rng[1]).
func faultIn(r interface{}, rng [2]uintptr) bool {
	ae, ok := r.(interface{ Addr() uintptr })
	return ok && rng[1] > rng[0] && ae.Addr() >= rng[0] && ae.Addr() < rng[1]
}

// Idx is the index of the case being executed (drivers derive deterministic per-case choices from it).
func (w *W) Idx() int { return w.idx }

// Failed reports whether this worker has recorded any violation (drivers may cut work short).
func (w *W) Failed() bool { return len(w.viols) > 0 }

// runCase executes one case under recover. A panic whose first non-runtime frame lies in the
// library is a violation (the properties require normal returns on their domains); a panic that
// starts in harness code is a harness problem and makes the run inconclusive.
func (w *W) runCase(f *Family, idx int) {
	w.fam, w.idx = f, idx
	w.Op, w.A, w.B, w.C, w.Obj, w.RO = "", 0, 0, 0, nil, false
	w.Rng.Reseed(w.Cfg.Seed, w.Cfg.Prop, f.Name, idx)
	w.heartbeat.Add(1)
	defer func() {
		if r := recover(); r != nil {
			st := string(debug.Stack())
			origin := panicOrigin(st)
			d := D{"panic": fmt.Sprint(r), "op": w.Op, "a": w.A, "b": w.B, "c": w.C,
				"obj": fmt.Sprintf("%.600v", w.Obj), "origin": origin, "stack": trimStack(st)}
			msg := fmt.Sprint(r)
			switch {
			case w.RO && faultIn(r, w.ROGuard) && (strings.Contains(origin, "github.com/openacid/low") || strings.Contains(origin, "/repo/")):
				d["note"] = "the argument ends exactly at the end of its mapping (the next page is inaccessible): the library accessed memory beyond the end of an argument"
				w.Fail("access-beyond-the-end-of-an-argument/"+f.Name+"/"+w.Op, d)
			case w.RO && strings.Contains(msg, "invalid memory address") && (strings.Contains(origin, "github.com/openacid/low") || strings.Contains(origin, "/repo/")):
				d["note"] = "the arguments of this call live in a read-only mapping: the library stored into an argument (possibly meaning to undo it before returning)"
				w.Fail("store-into-read-only-argument/"+f.Name+"/"+w.Op, d)
			case strings.Contains(origin, "github.com/openacid/low") || strings.Contains(origin, "/repo/"):
				w.Fail("panic/"+f.Name+"/"+w.Op, d)
			case w.Op != "" && (strings.Contains(msg, "index out of range") || strings.Contains(msg, "slice bounds out of range") || strings.Contains(msg, "nil pointer dereference")):
				// A Go runtime error in driver code while it examines what the library call named in Op returned: the
				// drivers index results only within the shapes the property guarantees (lengths, non-nil), so the
				// result did not have that shape. (Explicit harness panics and anything else stay inconclusive.)
				d["note"] = "runtime error in the driver while reading the result of this library call: the result does not have the shape the property guarantees (e.g. shorter than stated, nil)"
				w.Fail("malformed-result/"+f.Name+"/"+w.Op, d)
			default:
				w.Harness("harness-panic/"+f.Name+"/"+w.Op, d)
			}
		}
	}()
	f.Run(w, idx)
}

// panicOrigin walks the frames between the panic call and the first harness frame. It returns
// the first non-runtime frame and, if any frame in that span lies in the library, that frame
// instead (a contract helper such as openacid/must may sit between the library and the panic).
func panicOrigin(stack string) string {
	lines := strings.Split(stack, "\n")
	seenPanic := false
	first := ""
	for i := 0; i+1 < len(lines); i++ {
		l := lines[i]
		if strings.HasPrefix(l, "panic(") {
			seenPanic = true
			continue
		}
		if !seenPanic || strings.HasPrefix(l, "\t") || strings.HasPrefix(l, "goroutine ") {
			continue
		}
		if strings.HasPrefix(l, "runtime.") || strings.HasPrefix(l, "runtime/") {
			continue
		}
		fr := strings.TrimSpace(l) + " @ " + strings.TrimSpace(lines[i+1])
		if strings.HasPrefix(l, "verif/") {
			if first == "" {
				first = fr
			}
			return first
		}
		if strings.Contains(l, "github.com/openacid/low") {
			return fr
		}
		if first == "" {
			first = fr
		}
	}
	return first
}

// PanicOrigin is exported for drivers that recover in their own goroutines.
func PanicOrigin(stack string) string { return panicOrigin(stack) }

// IsLibraryFrame reports whether a frame description lies in the library under test.
func IsLibraryFrame(origin string) bool {
	return strings.Contains(origin, "github.com/openacid/low")
}

func trimStack(st string) string {
	if len(st) > 3000 {
		return st[:3000] + "…"
	}
	return st
}

// Result is what a child reports to the parent for one flavour.
type Result struct {
	Prop        string            `json:"prop"`
	Flavour     string            `json:"flavour"`
	Tier        string            `json:"tier"`
	Seed        int64             `json:"seed"`
	Evaluations int64             `json:"evaluations"`
	Distinct    int64             `json:"distinct"`
	Digest      uint64            `json:"digest"`
	Buckets     map[string]int64  `json:"buckets"`
	Extra       map[string]int64  `json:"extra"`
	Info        map[string]string `json:"info,omitempty"`
	Samples     []json.RawMessage `json:"samples"`
	Violations  []Violation       `json:"violations"`
	Families    []FamilyStat      `json:"families"`
	Complete    bool              `json:"complete"`
	WallS       float64           `json:"wall_s"`
	GoVersion   string            `json:"go_version"`
}

type FamilyStat struct {
	Name  string `json:"name"`
	Cases int    `json:"cases"`
}
