// Package gen holds the seeded generators shared by all property drivers.
package gen

// Rand is a splitmix64 stream. It is deliberately not math/rand: the stream for a case is a
// pure function of (seed, property, family, case index), so any case can be regenerated alone.
type Rand struct{ s uint64 }

func mix(z uint64) uint64 {
	z += 0x9e3779b97f4a7c15
	z = (z ^ (z >> 30)) * 0xbf58476d1ce4e5b9
	z = (z ^ (z >> 27)) * 0x94d049bb133111eb
	return z ^ (z >> 31)
}

// HashStr is FNV-1a followed by a splitmix finaliser.
func HashStr(s string) uint64 {
	h := uint64(0xcbf29ce484222325)
	for i := 0; i < len(s); i++ {
		h ^= uint64(s[i])
		h *= 0x100000001b3
	}
	return mix(h)
}

// Hash64 combines words into one hash.
func Hash64(vs ...uint64) uint64 {
	h := uint64(0x243f6a8885a308d3)
	for _, v := range vs {
		h = mix(h ^ v)
	}
	return h
}

// HashWords hashes a word slice (length included).
func HashWords(ws []uint64) uint64 {
	h := mix(uint64(len(ws)) ^ 0x13198a2e03707344)
	for _, v := range ws {
		h = mix(h ^ v)
	}
	return h
}

// HashBytes hashes a byte string (length included).
func HashBytes(b []byte) uint64 {
	h := uint64(0xcbf29ce484222325) ^ uint64(len(b))
	for i := 0; i < len(b); i++ {
		h ^= uint64(b[i])
		h *= 0x100000001b3
	}
	return mix(h)
}

// NewRand derives the stream of one case.
func NewRand(seed int64, prop, family string, idx int) *Rand {
	return &Rand{s: Hash64(uint64(seed), HashStr(prop), HashStr(family), uint64(idx))}
}

func (r *Rand) Reseed(seed int64, prop, family string, idx int) {
	r.s = Hash64(uint64(seed), HashStr(prop), HashStr(family), uint64(idx))
}

func (r *Rand) Uint64() uint64 {
	r.s += 0x9e3779b97f4a7c15
	z := r.s
	z = (z ^ (z >> 30)) * 0xbf58476d1ce4e5b9
	z = (z ^ (z >> 27)) * 0x94d049bb133111eb
	return z ^ (z >> 31)
}

// Intn returns a value in [0, n); n must be > 0.
func (r *Rand) Intn(n int) int {
	if n <= 0 {
		panic("gen.Rand.Intn: n <= 0")
	}
	return int(r.Uint64() % uint64(n))
}

// Range returns a value in [lo, hi] inclusive.
func (r *Rand) Range(lo, hi int) int {
	if hi < lo {
		panic("gen.Rand.Range: hi < lo")
	}
	return lo + r.Intn(hi-lo+1)
}

func (r *Rand) Bool() bool { return r.Uint64()&1 == 1 }

// Chance is true with probability num/den.
func (r *Rand) Chance(num, den int) bool { return r.Intn(den) < num }

func (r *Rand) Byte() byte { return byte(r.Uint64()) }

// Pick returns one of the ints.
func (r *Rand) Pick(vs ...int) int { return vs[r.Intn(len(vs))] }

// Perm returns a permutation of [0,n).
func (r *Rand) Perm(n int) []int {
	p := make([]int, n)
	for i := range p {
		p[i] = i
	}
	for i := n - 1; i > 0; i-- {
		j := r.Intn(i + 1)
		p[i], p[j] = p[j], p[i]
	}
	return p
}
