package gen

import "sort"

// NWordClasses is the number of word classes ZooWord can produce.
const NWordClasses = 12

var singleBits = []uint{0, 1, 7, 8, 15, 16, 31, 32, 33, 62, 63}

// ZooWord draws one 64-bit word of the given class.
//
//	0 all zero        1 all one          2 single bit at a boundary offset
//	3 bits 0 and 63   4 one byte lane    5 0x55..  6 0xAA..
//	7 sparse (and of 3)  8 dense (or of 3)  9 uniform
//	10 one 16-bit lane random  11 all ones but one bit
func ZooWord(r *Rand, class int) uint64 {
	switch class {
	case 0:
		return 0
	case 1:
		return ^uint64(0)
	case 2:
		return 1 << singleBits[r.Intn(len(singleBits))]
	case 3:
		return 1 | 1<<63
	case 4:
		return (r.Uint64() & 0xff) << (8 * uint(r.Intn(8)))
	case 5:
		return 0x5555555555555555
	case 6:
		return 0xaaaaaaaaaaaaaaaa
	case 7:
		return r.Uint64() & r.Uint64() & r.Uint64()
	case 8:
		return r.Uint64() | r.Uint64() | r.Uint64()
	case 9:
		return r.Uint64()
	case 10:
		return (r.Uint64() & 0xffff) << (16 * uint(r.Intn(4)))
	default:
		return ^(uint64(1) << uint(r.Intn(64)))
	}
}

// ZooBitmap returns n words; each word's class is drawn independently, with a bias (1 in 3
// bitmaps) towards a single dominant class so that long all-zero / all-one runs occur.
func ZooBitmap(r *Rand, n int) []uint64 {
	ws := make([]uint64, n)
	mode := r.Intn(3)
	dom := r.Intn(NWordClasses)
	for i := range ws {
		c := r.Intn(NWordClasses)
		if mode == 0 && r.Intn(4) != 0 {
			c = dom
		}
		if mode == 1 && r.Intn(2) == 0 {
			c = 0 // many empty words between 1-bits
		}
		ws[i] = ZooWord(r, c)
	}
	return ws
}

var hostileBytes = []byte{0x00, 0x01, 0x7f, 0x80, 0xff, 'a', 'b'}

// ZooByte draws a byte from the hostile alphabet (3/4) or uniformly (1/4).
func ZooByte(r *Rand) byte {
	if r.Intn(4) == 0 {
		return r.Byte()
	}
	return hostileBytes[r.Intn(len(hostileBytes))]
}

// ZooBytes returns n hostile bytes.
func ZooBytes(r *Rand, n int) []byte {
	b := make([]byte, n)
	for i := range b {
		b[i] = ZooByte(r)
	}
	return b
}

// KeyZoo returns n keys (not sorted, may repeat) that share prefixes of length 0..26 with a
// stem, include prefixes of their neighbours, NUL-padded twins and possibly the empty key.
func KeyZoo(r *Rand, n int, maxLen int) []string {
	if maxLen < 1 {
		maxLen = 1
	}
	stem := ZooBytes(r, maxLen)
	keys := make([]string, 0, n)
	for len(keys) < n {
		var k []byte
		switch r.Intn(8) {
		case 0: // prefix of the stem
			k = append(k, stem[:r.Intn(maxLen+1)]...)
		case 1: // stem prefix + hostile tail
			p := r.Intn(maxLen + 1)
			k = append(k, stem[:p]...)
			k = append(k, ZooBytes(r, r.Intn(maxLen-p+1))...)
		case 2: // previous key + NUL padding
			if len(keys) > 0 {
				k = append(k, keys[r.Intn(len(keys))]...)
				for j := r.Intn(3) + 1; j > 0; j-- {
					k = append(k, 0)
				}
			}
		case 3: // previous key extended
			if len(keys) > 0 {
				k = append(k, keys[r.Intn(len(keys))]...)
				k = append(k, ZooBytes(r, 1+r.Intn(3))...)
			}
		case 4: // previous key with the last bit(s) changed
			if len(keys) > 0 {
				k = append(k, keys[r.Intn(len(keys))]...)
				if len(k) > 0 {
					k[len(k)-1] ^= 1 << uint(r.Intn(8))
				}
			}
		case 5: // one byte changed somewhere in a stem prefix
			k = append(k, stem[:r.Intn(maxLen+1)]...)
			if len(k) > 0 {
				k[r.Intn(len(k))] = ZooByte(r)
			}
		case 6:
			k = ZooBytes(r, r.Intn(maxLen+1))
		default:
			k = append(k, stem[:r.Intn(maxLen+1)]...)
			k = append(k, r.Byte())
		}
		if len(k) > maxLen+4 {
			k = k[:maxLen+4]
		}
		keys = append(keys, string(k))
	}
	return keys
}

// SortedUnique returns the strictly ascending de-duplicated version of keys.
func SortedUnique(keys []string) []string {
	out := append([]string(nil), keys...)
	sort.Strings(out)
	j := 0
	for i := range out {
		if i == 0 || out[i] != out[i-1] {
			out[j] = out[i]
			j++
		}
	}
	return out[:j]
}

// ---- structured medium-size inputs (added after seeded round 14) ---------------------------------------------------
// Exhaustive enumeration stops at a few words and independent random bits practically never produce "exactly four
// all-ones words after at least five empty ones", "8 full, 8 empty, 8 full words on a 512-bit grid" or "a run of 16 377
// equal values that starts at a multiple of 16 384". These generators build inputs from RUNS whose lengths sit on and
// next to powers of two, starting at arbitrary offsets, so that every internal block size an implementation may have
// chosen is met exactly, one short and one over.

var runLens = []int{1, 2, 3, 4, 5, 7, 8, 9, 12, 15, 16, 17, 24, 31, 32, 33, 48, 63, 64, 65, 127, 128, 129}

// RunBitmap returns a bitmap of up to about maxWords words made of runs of all-zero, all-one, random and single-bit words.
func RunBitmap(r *Rand, maxWords int) []uint64 {
	var bm []uint64
	for i := r.Intn(13); i > 0; i-- { // the grid of everything that follows starts at an arbitrary word
		bm = append(bm, ZooWord(r, r.Intn(NWordClasses)))
	}
	kind := r.Intn(4)
	for len(bm) < maxWords {
		n := runLens[r.Intn(len(runLens))]
		if r.Intn(3) == 0 {
			n = runLens[r.Intn(12)]
		}
		for j := 0; j < n && len(bm) < maxWords; j++ {
			switch kind {
			case 0:
				bm = append(bm, 0)
			case 1:
				bm = append(bm, ^uint64(0))
			case 2:
				bm = append(bm, r.Uint64())
			default:
				bm = append(bm, 1<<uint(r.Intn(64)))
			}
		}
		// mostly alternate between empty and full runs, sometimes something else in between
		switch {
		case r.Intn(4) == 0:
			kind = r.Intn(4)
		case kind == 0:
			kind = 1
		default:
			kind = 0
		}
		if r.Intn(40) == 0 {
			break
		}
	}
	return bm
}

// RunValues returns a list of up to max values made of runs of equal values whose lengths sit on and next to powers
// of two up to 2^14 (a run of the maximal length makes the following runs start on that grid).
func RunValues(r *Rand, max int) []uint64 {
	lens := []int{1, 2, 7, 8, 9, 63, 64, 65, 255, 256, 257, 1023, 1024, 1025, 4095, 4096, 4097, 16377, 16380, 16383, 16384, 16385}
	var out []uint64
	for len(out) < max {
		n := lens[r.Intn(len(lens))]
		if r.Intn(3) == 0 {
			n = 16384
		}
		v := r.Uint64()
		if r.Intn(3) == 0 {
			v = [4]uint64{0, ^uint64(0), 1, 0x5555555555555555}[r.Intn(4)]
		}
		for j := 0; j < n && len(out) < max; j++ {
			out = append(out, v)
		}
		if r.Intn(12) == 0 {
			break
		}
	}
	return out
}

// PeriodicBytes returns a byte string made of a short chunk repeated many times (periods 1..16, chunks with equal
// leading bytes, one differing byte), with an arbitrary prefix and suffix.
func PeriodicBytes(r *Rand) []byte {
	p := []int{1, 2, 3, 4, 7, 8, 8, 8, 9, 16}[r.Intn(10)]
	chunk := make([]byte, p)
	base := []byte{0, ' ', 'a', 0xff, 0x80}[r.Intn(5)]
	for i := range chunk {
		chunk[i] = base
	}
	for k := r.Intn(3); k > 0; k-- {
		chunk[p-1-r.Intn((p+1)/2)] = r.Byte()
	}
	out := ZooBytes(r, r.Intn(10))
	for k := 16 + r.Intn(30); k > 0; k-- {
		out = append(out, chunk...)
	}
	return append(out, ZooBytes(r, r.Intn(10))...)
}
