// vcheck is the single harness binary: parent mode orchestrates the flavours of one property,
// child mode (-child) executes the property's case list in this build flavour.
package main

import (
	"flag"
	"fmt"
	"os"
	"runtime"
	"strconv"
	"strings"

	"verif/internal/mon"
	"verif/props"
)

func main() {
	prop := flag.String("prop", "", "property id")
	tier := flag.String("tier", "quick", "quick|thorough")
	seed := flag.Int64("seed", 1, "VERIF_SEED")
	child := flag.Bool("child", false, "child mode")
	flavour := flag.String("flavour", "release", "build flavour of this binary")
	workdir := flag.String("workdir", "", "scratch dir")
	workers := flag.Int("workers", 0, "worker goroutines (default min(16, NumCPU))")
	only := flag.String("only", "", "family:idx")
	replay := flag.String("replay", "", "replay file")
	verifDir := flag.String("verif", "/verif", "verif root")
	list := flag.Bool("list", false, "list flavours of -prop for -tier")
	flag.Parse()

	p := props.All[*prop]
	if p == nil {
		fmt.Fprintf(os.Stderr, "unknown property %q\n", *prop)
		os.Exit(2)
	}
	if *workers <= 0 {
		*workers = runtime.NumCPU()
		if *workers > 16 {
			*workers = 16
		}
	}
	if *list {
		fmt.Println(strings.Join(p.Flavours(*tier), " "))
		return
	}
	if *child {
		cfg := &mon.Config{Prop: p.ID, Tier: *tier, Seed: *seed, Flavour: *flavour, Workers: *workers, WorkDir: *workdir}
		if *only != "" {
			i := strings.LastIndexByte(*only, ':')
			n, err := strconv.Atoi((*only)[i+1:])
			if i < 0 || err != nil {
				fmt.Fprintln(os.Stderr, "bad -only")
				os.Exit(2)
			}
			cfg.Only = &mon.CaseRef{Family: (*only)[:i], Idx: n}
		}
		os.Exit(mon.RunChild(p, cfg))
	}
	if *replay != "" {
		os.Exit(mon.RunReplay(p, *replay, *verifDir))
	}
	os.Exit(mon.RunParent(p, *tier, *seed, *verifDir, *workers))
}
