RM = "runtime monitoring: reference-model monitor over generated + enumerated executions of the real code"
add("C14", "exploration", RM + " (Join/Getw/Slice vs bit-by-bit model; all windows of 1..3-word bitmaps)",
    "Every Join/Getw/Slice call of a fixed seed-determined case list is compared with a definition-level bit model, including result length and input immutability; all (from,to) windows of 1-3 word bitmaps are enumerated. Held = no disagreement on the executions observed; not a proof for longer bitmaps.",
    "Trusts the harness's bit-by-bit model and the Go toolchain; inputs beyond the enumerated sub-domain are sampled.", "DESIGN.md 3/C14")
add("C20", "exploration", RM + " (size.Of / size.Stat vs size accumulated while random reflect-built values are constructed, cross-checked by a literal recursion)",
    "size.Of and the first line of size.Stat are compared with the structural sum computed by construction for every scalar kind in 8 positions, hand-declared named types and 2*10^4 (quick) / 6*10^5 (thorough) random composite values to depth 5. Held on the values observed.",
    "Trusts reflect to build the values, 64-bit header sizes, and the harness's two independent size computations (they must agree or the run is inconclusive).", "DESIGN.md 3/C20")
add("C11", "exploration", RM + " (FromStr32/PathOf/PathsOf vs bit-at-a-time extraction; all (from,w) of short strings)",
    "Every (from, width) pair with from in [0,8len+9], width in [0,32] is executed for all strings of length<=2 over a 5-byte alphabet and for keyzoo strings up to 9 bytes; PathOf at every height; PathsOf on structured and random key lists. Complete on those sub-domains, sampled beyond.",
    "Trusts the bit-at-a-time oracle; strings longer than 9 bytes are covered only by PathsOf lists.", "DESIGN.md 3/C11")
add("C06", "exploration", RM + " (pbcmpl frames observed at a recording io.Writer and a counting/chunking io.Reader vs a frame model)",
    "Marshal/Size/HeaderSize/ReadHeader/Unmarshal are observed on 5 message kinds x 14 body lengths x 17 version lengths and on streams of 1-8 frames through 5 reader chunkings; all four size figures, wire bytes, version, message equality and exact per-frame consumption are checked.",
    "Trusts golang/protobuf's Marshal/Equal for real protobuf messages and the harness frame model (header layout is documented as frozen).", "DESIGN.md 3/C06")
add("C07", "fault_enumeration", "runtime monitoring with fault injection at the io boundary: every cut point, read-error point and writer quota of every corpus frame; forged/corrupt headers; child process so fatal errors are attributed",
    "For each of 72 (quick) / 81 (thorough) corpus frames EVERY truncation point, EVERY read-error offset (alone / with data) and EVERY writer quota (3 failure styles) is executed and the returned count, error cause and bytes that reached the writer compared with the statement; header-size/body-size fields are forged over boundary values up to 2^64-1 and random inputs; process death, panic or a stalled call is a violation.",
    "Fault positions are enumerated only for the corpus frames; inputs beyond are seeded-random. For declared body sizes above 2^24 only 'no success, normal return, n = bytes consumed' is asserted.", "DESIGN.md 3/C07")
add("C09", "exploration", RM + " in 4 (quick) / 7 (thorough) build flavours: optimised, -N, -N -l, race+checkptr, ASan, go1.26.8 (+ -N)",
    "All 4051 encodings of strings of length<=2 over {00,01,7f,80,ff}: Cmp on all ordered pairs (thorough) or 512 per row (quick) against strings.Compare of the bit texts; CmpUpto/StrCmpUpto of every encoding against all 156 plain strings of length<=3 and keyzoo pairs across the 8-byte fast path; StrCmpUpto from 6 call-site shapes; identical case list in every flavour so stack-garbage dependence shows as a panic or a differing result.",
    "Bit strings longer than 26 bytes are not generated; unsafe misuse is visible only with the memory layouts these two compilers produce.", "DESIGN.md 3/C09")
add("C01", "exploration", RM + " (Rank64/Rank128/IndexRank* vs a bit-by-bit counting sweep at every position)",
    "Every position of ~2*10^4 (quick) / 4*10^5 (thorough) bitmaps - full product of extreme word classes for 0..3 words, all 8x256 byte-lane words, zoo bitmaps up to 2000 words - is checked for both rank flavours, both index options and the index shapes.",
    "Bitmaps beyond the enumerated sub-domains are sampled; trusts the counting sweep.", "DESIGN.md 3/C01")
add("C02", "exploration", RM + " (Select32/Select32R64 vs the naive list of 1-positions; complete per 16-bit lane)",
    "The in-word search is executed for all 65536 values of each 16-bit lane with the other lanes all-0 and all-1 (524288 words), all 2-bit words, gap-structured multi-word bitmaps around i=32k-1,32k,32k+1 and n-1, and zoo bitmaps; every valid i, both select flavours, index contents, rank(select(i))=i.",
    "Multi-word behaviour beyond 500 words is not exercised; i outside [0,n) is outside the property.", "DESIGN.md 3/C02")
add("C03", "exploration", RM + " in two builds (release and -tags debug) with digest comparison; literal pre-order list + walk oracle",
    "All masks x all nodes up to height 10 (quick, 2.8*10^6 pairs) / 13 (thorough, 1.8*10^8) against the literal recursive pre-order definition, structured masks x paths of every length for heights 11..30 against the walk oracle, in both builds; any debug contract panic on a valid input or a digest difference between the builds is a violation.",
    "Heights 14..30 are sampled (structured), not enumerated. The debug flavour's liveness is itself checked (malformed paths must panic there).", "DESIGN.md 3/C03")
add("C04", "exploration", RM + " (AllPaths/Decode vs literal pre-order list / interval-pruned DFS)",
    "All masks of height<=6 (quick) / <=9 (thorough) with all or sampled (from,to) pairs from a boundary-rich candidate set, windows at heights up to 30, Decode on 7 bitmap shapes incl. shorter/longer/all-ones and round trips of random subsets.",
    "Decode bit k is the k-th stored node of the literal list (not the library's PathToIndex; C03 ties them). Large heights only with small windows.", "DESIGN.md 3/C04")
add("C05", "exploration", "runtime monitoring by COMPLETE enumeration: every (height, index) pair executed (2^32-33), expected path from the literal pre-order successor chain",
    "Both tiers execute IndexToPath and PathToIndex on every index of every full tree of height 0..30 and compare with the node obtained by walking pre-order successors from an anchor located by descent; exhaustive: true. Thorough repeats it with go1.26.8.",
    "Trusts the successor function and descent anchor (cross-checked with the walk oracle at every block start).", "DESIGN.md 3/C05")
add("C08", "exploration", RM + " (bitword FromStr/Get/ToStr/FirstDiff/FromStrs/ToStrs vs bit-at-a-time word extraction; all 1- and 2-byte strings)",
    "All 256 one-byte and 65536 two-byte strings x 4 widths, random strings to 40 bytes, ToStr on every slice length 0..17, FirstDiff over all (from,end) windows of structured pairs.",
    "Strings longer than 40 bytes not generated; widths limited to the four the package defines.", "DESIGN.md 3/C08")
add("C10", "exploration", RM + " (path-word accessors vs (h,l,prefix); numeric order vs pre-order on all pairs of small heights)",
    "All 16369 path words of height<=12 field-checked; all ordered pairs of nodes for every height<=8 (quick) / <=10 (thorough); heights 13..32 with extreme/random prefixes at every length and sampled related pairs.",
    "Order claim for heights above 10 is sampled.", "DESIGN.md 3/C10")
add("C12", "exploration", RM + " (Of/OfMany/ToArray/Get*/Builder vs a position-set model; Builder as an online history monitor checked after every op)",
    "Ascending lists x 9 size-argument variants with word count, bits, ToArray round trip and probes at every position in [-130, 64len+130) plus int32 extremes; zoo round trips; OfMany segment lists; Builder histories of 1..12 ops checked after every op.",
    "OfMany compared only when the merged list is ascending; Builder compared as a set modulo trailing zero words.", "DESIGN.md 3/C12")
add("C13", "exploration", RM + " (NextOne/PrevOne vs linear-scan tables; ALL ranges of 1..3-word bitmaps)",
    "Every range 0<=i<=end<=64*len of structured (empty words between 1-bits, bits at 0/63) and zoo bitmaps of 1..3 words, plus boundary-biased sampled ranges on 4..64-word bitmaps.",
    "Longer bitmaps are sampled.", "DESIGN.md 3/C13")
add("C16", "exploration", RM + " (FirstDiffBits/CountPrefixes vs bitwise scan and explicit sets of truncated bit strings)",
    "All ordered pairs of the 40 strings of length<=3 over {00,01,ff}, chunk-boundary stems (7..25 bytes), keyzoo lists; CountPrefixes on all sub-ranges of small ascending sets x 8 values of m.",
    "Key sets larger than 40 keys are not generated for CountPrefixes.", "DESIGN.md 3/C16")
add("C17", "exploration", RM + " (ShardByPrefix output checked by a pure checker: boundaries, size bound, exact LCP, strict prefix order)",
    "All ascending subsets (size 1..6) of a 12-string universe designed around the recursion x every maxSize, keyzoo sets up to 300 keys x 9 maxSize values, thorough: 5000-key sets with 40-byte common prefixes.",
    "Only the clauses of the statement are checked (not maximality of shards).", "DESIGN.md 3/C17")
add("C15", "exploration", "runtime monitoring: online trace checker stepping an absolute-position set model after every Set/Compact of seeded TailBitmap histories; Get/Get1 sweeps at quiescent points",
    "~2100 (quick) / 10^5 (thorough) histories over 5 initial offsets x 7 patterns plus 140000-bit histories crossing the reclaim threshold (with and without stored words at that moment); Offset alignment/monotonicity/'never past a 0', first-word-not-full, word-for-word agreement with the model, Compact leaving every Get unchanged.",
    "Histories are seeded, not enumerated; Get probed only below the end of stored words; nothing claimed about memory reclamation.", "DESIGN.md 3/C15")
add("C18", "fault_enumeration", "runtime monitoring: online trace checker over return values and every (offset, bytes) reaching a recording io.WriterAt, with position-/quota-based faults enumerated at every position of the short sections",
    "20 sections x every refusal position F in [base-1, base+n+1] x {partial, all-or-nothing} and every quota in [0,n+1] (660 fault plans) x seeded Write/WriteAt/Seek histories of 1..30 ops; count, error class, bytes and positions on the device, containment, cursor and Size read back after every op; larger sections and AtToWriter sampled.",
    "Fault positions enumerated only for sections of <= 29 bytes; op sequences are seeded-random; negative WriteAt offsets only checked for 'nothing written'.", "DESIGN.md 3/C18")
add("C19", "exploration", "runtime monitoring with sanitizers: Go race detector over concurrent phases on a shared corpus (3 process configurations), mprotect(PROT_READ) write trap on every shared argument, table/corpus digests via verif hooks, sequential replay + alternate-memory-context replay of every logged call; -N / ASan / go1.26.8 builds",
    "Each process makes its first library calls concurrently (cold phase), warms up, runs a second concurrent phase including shared library-built objects, then recomputes every logged call sequentially and in different memory contexts; any race report with a library frame, any store into protected corpus memory, any digest change of the package tables or the corpus, any result differing from the sequential one is a violation. 6.4*10^5 concurrent calls (quick) in the release process alone, all 32 universe entries observed overlapping in time.",
    "Schedules are those the Go scheduler produced in these runs (race reports vary run to run); a racy path no call reaches stays invisible; sanitizers see only executed accesses.", "DESIGN.md 3/C19")
