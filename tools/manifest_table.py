RM = "runtime monitoring: reference-model monitor over generated + enumerated executions of the real code"
add("C14", "exploration", RM + " (Join/Getw/Slice vs bit-by-bit model; all windows of 1..3-word bitmaps)",
    "Every Join/Getw/Slice call of a fixed seed-determined case list is compared with a definition-level bit model, including result length and input immutability; all (from,to) windows of 1-3 word bitmaps are enumerated. Held = no disagreement on the executions observed; not a proof for longer bitmaps.",
    "Trusts the harness's bit-by-bit model and the Go toolchain; inputs beyond the enumerated sub-domain are sampled.", "DESIGN.md 3/C14")
