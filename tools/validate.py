#!/usr/bin/env python3-vt
"""Validates MANIFEST.json and every evidence file against the schemas in /root/.vp."""
import json, jsonschema, glob, sys
ok = True
m = json.load(open("/verif/MANIFEST.json"))
jsonschema.validate(m, json.load(open("/root/.vp/MANIFEST.schema.json")))
es = json.load(open("/root/.vp/EVIDENCE.schema.json"))
ids = [c["property_id"] for c in m["checks"]]
for i in ids:
    try:
        e = json.load(open("/verif/evidence/%s.json" % i))
        jsonschema.validate(e, es)
        lvl = [c for c in m["checks"] if c["property_id"] == i][0]["level_claimed"]["category"]
        assert e["level"] == lvl, "level mismatch"
        print("ok", i, e["tier"], "seed", e["seed"], e["level"], "evals", e["coverage"]["evaluations"], "distinct", e["coverage"]["distinct_nontrivial"], "samples", len(e["coverage"]["samples"]), e.get("verdict"))
    except Exception as ex:
        ok = False
        print("BAD", i, str(ex)[:200])
props = [json.loads(l)["id"] for l in open("/verif/properties.jsonl")]
na = [x["property_id"] for x in m.get("not_applicable", [])]
print("claimed", len(ids), "not_applicable", na, "unaccounted", sorted(set(props) - set(ids) - set(na)))
sys.exit(0 if ok else 1)
