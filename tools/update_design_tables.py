#!/usr/bin/env python3
"""Regenerates the seeded-changes table inside DESIGN.md (between the seeded-table markers)."""
import subprocess, re
t = subprocess.run(["python3", "/verif/tools/seeded_table.py"], capture_output=True, text=True).stdout
p = "/verif/DESIGN.md"
s = open(p).read()
s = re.sub(r"<!-- seeded-table-begin -->.*<!-- seeded-table-end -->", "<!-- seeded-table-begin -->\n" + t + "<!-- seeded-table-end -->", s, flags=re.S)
open(p, "w").write(s)
