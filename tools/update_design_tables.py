#!/usr/bin/env python3
"""Regenerates the seeded-changes table inside DESIGN.md (between the seeded-table markers)."""
import subprocess, re
t = subprocess.run(["python3", "/verif/tools/seeded_table.py"], capture_output=True, text=True).stdout
p = "/verif/DESIGN.md"
s = open(p).read()
s = re.sub(r"<!-- seeded-table-begin -->.*<!-- seeded-table-end -->", "<!-- seeded-table-begin -->\n" + t + "<!-- seeded-table-end -->", s, flags=re.S)
open(p, "w").write(s)

# ---- the list of seeded changes that were missed at first (from the evaluation_history notes in seeded/*/meta.json)
import json, glob
rows = []
for mp in sorted(glob.glob("/verif/seeded/*/meta.json")):
    m = json.load(open(mp))
    h = m.get("evaluation_history")
    if not h:
        continue
    if isinstance(h, str):
        h = [h]
    rows.append("* `%s` - %s" % (m["name"], " ".join(x.strip() for x in h)))
block = "<!-- missed-begin -->\n" + "\n".join(rows) + "\n<!-- missed-end -->"
s = open(p).read()
if "<!-- missed-begin -->" in s:
    s = re.sub(r"<!-- missed-begin -->.*<!-- missed-end -->", lambda _: block, s, flags=re.S)
    open(p, "w").write(s)
print("seeded changes with an evaluation history (missed or invalid at first):", len(rows))
