#!/usr/bin/env python3
"""mkround.py <round-dir> [ID...]: creates one scratch worktree of /repo and one prompt file per property under <round-dir>
(outside /repo and /verif). The prompt holds ONLY the property text, the task and the list of mechanisms earlier rounds
already used for that property (names and files of seeded/*), nothing else from /verif."""
import json, os, subprocess, sys, glob
HERE = os.path.dirname(os.path.dirname(os.path.dirname(os.path.abspath(__file__))))
root = sys.argv[1]
ids = sys.argv[2:]
props = {}
for l in open(os.path.join(HERE, "properties.jsonl")):
    p = json.loads(l)
    props[p["id"]] = p
tmpl = open(os.path.join(HERE, "tools/seedprompt/PROMPT.tmpl")).read()
tried = {}
for mp in sorted(glob.glob(os.path.join(HERE, "seeded/*/meta.json"))):
    m = json.load(open(mp))
    name = m["name"]
    pid = name[:3]
    desc = name[4:].replace("-", " ")
    tried.setdefault(pid, []).append("%s [%s]" % (desc, ", ".join(m.get("files_changed", []))))
os.makedirs(root, exist_ok=True)
for pid in ids or sorted(props):
    p = props[pid]
    d = os.path.join(root, pid)
    subprocess.run(["git", "-C", "/repo", "worktree", "add", "-q", "--detach", d, "HEAD"], check=True)
    text = "Property %s — %s\n\nStatement: %s\n\nQuantified over (%s): %s\n\nCode anchors: %s\n" % (
        pid, p["title"], p["statement"], ", ".join(p["quantifier"]["over"]), p["quantifier"]["text"], ", ".join(p["anchors"]["files"]))
    hint = ("ADDITIONAL INSTRUCTION FOR THIS ROUND: five earlier rounds already used the following mechanisms for this property (name [files]): "
            + "; ".join(tried.get(pid, [])) + ". Find defects that are DIFFERENT from all of these — a different function or a genuinely different mechanism "
            "(not the same idea moved to a sibling function, not another integer overflow at another extreme size, and not another 'split the work over GOMAXPROCS goroutines and lose the remainder/seam'). "
            "The defect must still be a violation of the property AS STATED (its statement and quantifier above), observable through the public API by a legitimate caller; "
            "do not rely on behaviour the statement does not promise. Prefer realistic maintainer mistakes that a code reviewer could plausibly approve. Especially welcome: "
            "defects that only show for a particular RELATION between two arguments or between two consecutive calls; defects in rarely taken branches of the existing code (read the code closely for branches the tests never enter); "
            "defects introduced by a plausible refactoring that merges two code paths; defects that depend on properties of the caller's memory (aliasing between two arguments, overlapping slices, "
            "a string that shares memory with another argument, zero-length-but-non-nil versus nil slices); defects that need a value class the type allows but nobody thinks of (negative zero-width, empty element in the middle of a batch, duplicate element, maximal value of the type).")
    variant = os.environ.get("SEED_HINT_VARIANT", "")
    if variant == "ab":
        variant = "a" if int(pid[1:]) % 2 else "b"
    common = ("ADDITIONAL INSTRUCTION FOR THIS ROUND: six earlier rounds already used the following mechanisms for this property (name [files]): "
              + "; ".join(tried.get(pid, [])) + ". Find defects that are DIFFERENT from all of these (a different function or a genuinely different mechanism). "
              "The defect must still be a violation of the property AS STATED (its statement and quantifier above), observable through the public API by a legitimate caller; "
              "do not rely on behaviour the statement does not promise. Prefer realistic maintainer mistakes that a code reviewer could plausibly approve. ")
    if variant == "a":
        hint = common + ("THIS ROUND'S RESTRICTION: the defect must manifest in plain single-goroutine use, in a single call or one short call sequence, on SMALL inputs "
                         "(a handful of elements, a few words, short strings, small heights) - no size thresholds, no concurrency, no environment dependence, no caches or pools, no memory-aliasing tricks. "
                         "It must hide in a narrow VALUE class or in a narrow RELATION between arguments that the existing tests do not contain: read the code for branches, masks, shifts, rounding and "
                         "boundary comparisons whose both sides the tests never exercise, and for combinations of two boundary conditions that each are tested alone but never together.")
    elif variant == "b":
        hint = common + ("THIS ROUND'S RESTRICTION: the defect must live in the INTERPLAY of two public functions the property names (a builder and its query, an encoder and its decoder, a writer and its reader, "
                         "a constructor and a method, two calls on the same object): change one side (or both, consistently almost everywhere) so that each function looks right in isolation on the "
                         "existing tests but the pair violates the property for some inputs or some call order. No size thresholds above a few thousand elements and no dependence on GOMAXPROCS.")
    if variant == "de":
        variant = "d" if int(pid[1:]) % 2 else "e"
    if variant == "d":
        hint = common.replace("six earlier rounds", "seven earlier rounds") + ("THIS ROUND'S RESTRICTION: the defect must manifest only for DEGENERATE BUT LEGAL arguments - values the statement's quantifier "
                         "allows but ordinary use rarely passes: nil versus empty-but-non-nil slices, zero sizes and zero widths, empty strings and empty elements inside a batch, duplicate or equal elements, "
                         "a range whose two ends coincide, the smallest and largest value of each integer parameter that the statement admits, an object used before anything was put into it, "
                         "a call that is legal but is a no-op. Everything else must keep working. Single goroutine, no size thresholds, no environment dependence.")
    elif variant == "e":
        hint = common.replace("six earlier rounds", "seven earlier rounds") + ("THIS ROUND'S RESTRICTION: each single result of the changed code must look plausible on its own (right length, right type of value, "
                         "often even the right value); the violation must only be visible through a RELATION the property implies between SEVERAL results or calls: a round trip, an inverse pair, monotonicity or strict order "
                         "across neighbouring inputs, agreement of two functions that must agree, a later call on the same object or the same arguments, the sum or count of parts against the whole. "
                         "Single goroutine, inputs of moderate size (up to a few thousand elements), no environment dependence.")
    if variant == "ij":
        variant = "i" if int(pid[1:]) % 2 else "j"
    if variant == "i":
        hint = common.replace("six earlier rounds", "eight earlier rounds") + ("THIS ROUND'S RESTRICTION: the defect must consist of TWO cooperating edit sites (in one or two functions or files) that each look "
                         "correct, or at least harmless, when read alone - each alone must leave the property intact (verify that: apply each site alone and run your demonstration; it must pass) - and only "
                         "together break the property, for a narrow class of inputs or call sequences. Typical shapes: a helper whose contract is silently widened or narrowed while one caller relies on the old "
                         "contract; a representation invariant relaxed at the producer and still assumed by the consumer; a constant or table changed consistently in two places but not in a third. "
                         "Describe in the README what each site does alone.")
    elif variant == "j":
        hint = common.replace("six earlier rounds", "eight earlier rounds") + ("Take your time to read ALL code the property depends on (including helpers in other packages it calls) and look for the most SUBTLE defect "
                         "you can construct: one that a careful reviewer would approve, that survives the existing tests, and that manifests for as narrow and as unexpected a class of legitimate uses as possible - "
                         "unexpected in KIND, not just rarer: think about what a caller may legitimately do with the arguments before and the results after the call, in which order and from where calls may come, "
                         "what the data may look like in memory, and which values the types admit.")
    if variant == "kl":
        variant = "k" if int(pid[1:]) % 2 else "l"
    if variant == "lk":
        variant = "l" if int(pid[1:]) % 2 else "k"
    if variant == "k":
        hint = common.replace("six earlier rounds", "eleven earlier rounds") + ("THIS ROUND'S RESTRICTION: the defect must be invisible to anybody who checks single calls on fresh inputs against the specification, "
                         "however many inputs they try and however large: every call, looked at alone on a freshly started program, returns exactly what the property demands. It must need a HISTORY inside one "
                         "long-lived process to manifest: something that accumulates, wears out or drifts over many calls (a counter that wraps, a table or cache that fills up and then evicts wrongly, "
                         "a free-list or pool that hands back an entry in a state the first user never sees, a resource that is not given back on one rarely taken path, an amortised rebuild that happens "
                         "every N-th call), or a particular ORDER of calls with different arguments (A then B differs from B then A). No dependence on GOMAXPROCS and no data race needed: plain sequential use.")
    elif variant == "l":
        hint = common.replace("six earlier rounds", "eleven earlier rounds") + ("THIS ROUND'S RESTRICTION: look at the edges of what the property's quantifier ADMITS and pick a class of legitimate use that a test author "
                         "who reads the statement quickly would not think of, then break only that class: e.g. an argument that is legal but has an unusual representation (a slice with len 0 and a huge capacity, "
                         "a sub-slice that starts in the middle of a larger array, a string built from bytes containing NULs or invalid UTF-8, a value at the exact maximum the statement permits, the same "
                         "object passed for two parameters, an interface holding a typed nil), an error or short count from a caller-supplied reader/writer at an unusual moment, a message type or element type the "
                         "statement covers but the tests never use, or a legal call made on an object that is in a legal but unusual state. Everything the existing tests and ordinary use do must keep working.")
    if variant == "op":
        variant = "o" if int(pid[1:]) % 2 else "p"
    if variant == "o":
        hint = common.replace("six earlier rounds", "twelve earlier rounds") + ("THIS ROUND'S RESTRICTION: the defect must NOT sit in the function the property names but in something it DEPENDS on - a helper in "
                         "another file or another package of this module (a lookup table, a mask, a shared utility, a constructor whose output the named function consumes), changed in a way that keeps that helper's own "
                         "tests and its other callers happy and breaks the property only through one call path, for a narrow class of inputs. Or, alternatively, a defect that manifests only under a particular BUILD "
                         "CONFIGURATION that a user may legitimately choose: GOARCH=386 (32-bit int), the race detector or -gcflags=all=-N (different memory layout and inlining), the module's own build tag `debug`, or a "
                         "newer Go toolchain (go1.26.8 is installed as `go1.26.8`) - state in the README which configuration is needed and verify the demonstration under it (and that it passes under it without the change).")
    elif variant == "p":
        hint = common.replace("six earlier rounds", "twelve earlier rounds") + ("THIS ROUND'S RESTRICTION: REWRITE the core algorithm of one function the property names in a different, plausibly faster or simpler "
                         "style (word-parallel bit tricks instead of a loop, a closed formula instead of a walk, binary search instead of a scan, a table instead of arithmetic, iteration instead of recursion, one pass "
                         "instead of two) such that the new version is correct on the overwhelming majority of inputs - including every input of the existing tests and typical random inputs - and wrong on a narrow, "
                         "structurally defined class that follows from a subtle flaw in the new algorithm's reasoning (not from an injected special case). Say in the README what the flaw in the reasoning is.")
    if variant == "rs":
        variant = "s" if pid in ("C06", "C07", "C18", "C15", "C20") else "r"
    if variant == "r":
        hint = common.replace("six earlier rounds", "thirteen earlier rounds") + ("THIS ROUND'S RESTRICTION: assume the property is already being checked by someone who compares every call with a bit-by-bit reference "
                         "implementation on ALL inputs up to a small size, on millions of random inputs of small and medium size with mixed densities, on a few extremely large inputs, and who repeats calls and interleaves "
                         "them with other calls. Your defect must survive THAT: it must be wrong only on inputs of MEDIUM size (hundreds to tens of thousands of elements) with a specific STRUCTURE that neither exhaustive "
                         "small enumeration nor random generation produces with noticeable probability - a precise periodicity, a run of exactly N equal elements with N tied to an internal block size, a value that recurs "
                         "at a fixed stride, two features at a specific distance from each other, an exact alignment of a pattern with an internal boundary that is NOT the obvious 64-bit word boundary. Explain in the "
                         "README why random inputs practically never hit it (give the probability) and why small exhaustive enumeration cannot.")
    elif variant == "s":
        hint = common.replace("six earlier rounds", "thirteen earlier rounds") + ("THIS ROUND'S RESTRICTION: the defect must sit on an ABNORMAL path that the statement still covers: what happens during and after an error "
                         "returned by a caller-supplied reader / writer / message method, after a partial write or read, after a panic inside a caller-supplied method that the caller recovers from, after an operation that "
                         "was legal but had no effect, or when the same object is used again after such an event. The normal paths must stay exactly as they are. Choose the moment and the kind of the abnormal event so "
                         "that it is one a tester who injects 'an error at every position' would still not produce (think about WHICH error value, WHAT is returned together with it, and what the SECOND call after it sees).")
    open(os.path.join(root, pid + ".prompt.txt"), "w").write(tmpl.replace("@DIR@", d).replace("@PROPERTY@", text).replace("@HINT@", hint))
    print(pid, len(tried.get(pid, [])), "earlier mechanisms")
