#!/usr/bin/env python3
"""Runs the repository's pinned suite with the verif guard OFF and compares with BASELINE.json's stable_pass list."""
import json, subprocess, os, sys
env = dict(os.environ, GOFLAGS="-mod=mod", GOPROXY="off", GOSUMDB="off", GOTOOLCHAIN="local")
out = subprocess.run(["go", "test", "-mod=mod", "-json", "-vet=off", "-count=1", "-timeout", "25m", "./..."], cwd="/repo", env=env, capture_output=True, text=True).stdout
passed, failed = set(), set()
for l in out.splitlines():
    try:
        e = json.loads(l)
    except Exception:
        continue
    if e.get("Test") and e.get("Action") in ("pass", "fail") and "/" not in e["Test"]:
        (passed if e["Action"] == "pass" else failed).add(e["Package"] + "::" + e["Test"])
base = json.load(open("/root/.vp/BASELINE.json"))
stable = set(base["stable_pass"])
missing = sorted(stable - passed)
print("passed %d, failed %d, stable baseline %d, baseline tests not passing now: %d" % (len(passed), len(failed), len(stable), len(missing)))
for m in missing:
    print("  MISSING", m)
print("failing now:", sorted(failed))
sys.exit(1 if missing else 0)
