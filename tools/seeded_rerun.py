#!/usr/bin/env python3
"""Re-runs the checks against every stored seeded change (seeded/*/patch.diff) on scratch worktrees of /repo
(VERIF_REPO/VERIF_OUT, so /repo itself and the committed evidence are untouched) and reports any change that is no
longer caught, or is caught by a later tier than recorded. Regression suite for the checks themselves.

usage: seeded_rerun.py [-j N] [name-substring ...]
"""
import json, os, subprocess, sys, shutil, glob, time, concurrent.futures as cf

ENV = dict(os.environ, GOFLAGS="-mod=mod", GOPROXY="off", GOSUMDB="off", GOTOOLCHAIN="local")
VERIF = os.environ.get("VERIF_DIR", "/verif")
ROOT = "/tmp/seedrr"
# signatures of the genuine defects repaired after the hook commit (KNOWN_FINDINGS.txt): present on the base tree
FIXED_SINCE_BASE = ("panic/huge-source-string/", "panic/huge-bitmap/Rank128", "FromStr32/huge-string", "PathOf/huge-string", "panic/huge-string/", "panic/join-beyond-2^31-bits/", "panic/top-of-int32/", "ToArray(Of(l))!=l/top-of-int32", "Of/word-count/top-of-int32")


def sh(cmd, cwd=None, env=ENV):
    p = subprocess.run(cmd, cwd=cwd, env=env, capture_output=True, text=True, errors="replace")
    return p.returncode, p.stdout + p.stderr


def one(meta_path):
    m = json.load(open(meta_path))
    name, prop = m["name"], m["property"]
    d = os.path.dirname(meta_path)
    wt = os.path.join(ROOT, name, "low")
    out = os.path.join(ROOT, name, "out")
    shutil.rmtree(os.path.join(ROOT, name), ignore_errors=True)
    os.makedirs(out)
    subprocess.run(["rsync", "-a", "--exclude", ".git", "/repo/", wt + "/"], check=True)
    res = {"name": name, "prop": prop, "recorded": m.get("detected_by")}
    try:
        rc, o = sh(["git", "apply", "--unsafe-paths", "--directory=" + wt, os.path.join(d, "patch.diff")], cwd="/")
        if rc != 0:
            rc, o = sh(["patch", "-p1", "-i", os.path.join(d, "patch.diff")], cwd=wt)
        on_base = False
        if rc != 0 or m.get("evaluate_on_base"):
            # written against the hook commit and overlapping a later fix: commit - re-run on that base + patch; the
            # defects repaired since then are reported there as well and do not count
            shutil.rmtree(wt, ignore_errors=True)
            os.makedirs(wt)
            subprocess.run("git -C /repo archive a3c7997 | tar -x -C %s" % wt, shell=True, check=True)
            rc, o = sh(["patch", "-p1", "-s", "-i", os.path.join(d, "patch.diff")], cwd=wt)
            on_base = True
        if rc != 0:
            res["status"] = "PATCH-DOES-NOT-APPLY"
            return res
        for tier in (("quick",) if os.environ.get("RERUN_QUICK_ONLY") else ("quick", "thorough")):
            t0 = time.time()
            rc, o = sh([os.path.join(VERIF, "check"), prop, tier], cwd=VERIF, env=dict(ENV, VERIF_REPO=wt, VERIF_OUT=out))
            res[tier] = {"exit": rc, "s": round(time.time() - t0, 1)}
            if rc == 1:
                sigs = [l.split()[0][4:] for l in o.splitlines() if l.startswith("  sig=")]
                if on_base:
                    sigs = [x for x in sigs if not any(x.startswith(f) for f in FIXED_SINCE_BASE)]
                    res["on_base"] = True
                    if not sigs:
                        continue
                res["now"] = "./check %s %s" % (prop, tier)
                res["sig"] = sigs[0] if sigs else ""
                break
            if rc not in (0, 1):
                res["note"] = [l for l in o.splitlines() if l.startswith("INCONCLUSIVE")][:2]
        res["status"] = "caught" if res.get("now") else "MISSED"
    finally:
        shutil.rmtree(os.path.join(ROOT, name), ignore_errors=True)
    return res


def main():
    args = sys.argv[1:]
    j = 3
    sel = []
    while args:
        a = args.pop(0)
        if a == "-j":
            j = int(args.pop(0))
        else:
            sel.append(a)
    metas = [f for f in sorted(glob.glob(os.path.join(VERIF, "seeded", "*", "meta.json"))) if not sel or any(s in f for s in sel)]
    os.makedirs(ROOT, exist_ok=True)
    bad = 0
    results = []
    with cf.ThreadPoolExecutor(max_workers=j) as ex:
        for r in ex.map(one, metas):
            results.append(r)
            flag = ""
            if r["status"] != "caught":
                flag = "<== NOT CAUGHT"
                bad += 1
            elif r.get("recorded") and r["recorded"].endswith("quick") and r["now"].endswith("thorough"):
                flag = "<== only thorough now (was quick)"
                bad += 1
            print("%-4s %-52s %-8s %-22s %s %s" % (r["prop"], r["name"], r["status"], r.get("now", ""), r.get("sig", "")[:60], flag), flush=True)
    json.dump(results, open(os.path.join(os.environ.get("RERUN_OUT", os.path.join(VERIF, "seeded")), "last_rerun.json"), "w"), indent=1)
    print("seeded changes: %d, regressions: %d" % (len(results), bad))
    shutil.rmtree(ROOT, ignore_errors=True)
    return 1 if bad else 0


if __name__ == "__main__":
    sys.exit(main())
