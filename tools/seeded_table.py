#!/usr/bin/env python3
"""Prints the markdown table of /verif/seeded/*/meta.json (pasted into DESIGN.md 4.3)."""
import json, glob, os
rows = []
for f in sorted(glob.glob("/verif/seeded/*/meta.json")):
    m = json.load(open(f))
    readme = os.path.join(os.path.dirname(f), "README.md")
    rows.append((m["property"], m["name"], ", ".join(m["files_changed"]), "yes" if m["confirmed"] else "NO",
                 (m.get("detected_by") or "MISSED").replace("./check ", ""), ", ".join("`%s`" % s for s in dict.fromkeys(m.get("signatures", [])))))
print("| property | seeded change | files | confirmed | caught by | signature(s) |")
print("|---|---|---|---|---|---|")
for r in rows:
    print("| %s | %s | %s | %s | %s | %s |" % r)
print()
print("%d seeded changes, %d confirmed, %d caught" % (len(rows), sum(r[3] == "yes" for r in rows), sum(r[4] != "MISSED" for r in rows)))
