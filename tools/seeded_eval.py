#!/usr/bin/env python3
"""Confirms and records one independently written seeded change, then runs the property's check against it.

usage: seeded_eval.py <PROP> <agent-worktree> <name> [--alt]

1. takes the uncommitted diff of the agent's worktree (or SEED_DEMO/alt.diff with --alt) and its demonstration,
2. confirms, in a fresh scratch worktree of /repo: the module builds, the pinned suite passes as at baseline with
   the change, the demonstration FAILS with the change and PASSES without it,
3. stores /verif/seeded/<name>/{patch.diff, demo/*.go, README.md, meta.json},
4. applies the patch to /repo itself, runs ./check <PROP> quick (thorough if quick stays silent), undoes the patch,
   and records the outcome in meta.json.
"""
import json, os, subprocess, sys, shutil, time

ENV = dict(os.environ, GOFLAGS="-mod=mod", GOPROXY="off", GOSUMDB="off", GOTOOLCHAIN="local")
VERIF = "/verif"  # results are stored here
RUN = os.environ.get("VERIF_DIR", VERIF)  # the checks are run from here (a snapshot of /verif while the harness is being edited)


def sh(cmd, cwd=None, env=ENV, timeout=3600):
    p = subprocess.run(cmd, cwd=cwd, env=env, capture_output=True, text=True, errors="replace", timeout=timeout, shell=isinstance(cmd, str))
    return p.returncode, p.stdout + p.stderr


def suite(cwd):
    rc, out = sh(["go", "test", "-json", "-vet=off", "-count=1", "./..."], cwd=cwd)
    passed, failed = set(), set()
    for l in out.splitlines():
        try:
            e = json.loads(l)
        except Exception:
            continue
        if e.get("Test") and e.get("Action") in ("pass", "fail") and "/" not in e["Test"]:
            (passed if e["Action"] == "pass" else failed).add(e["Package"] + "::" + e["Test"])
    stable = set(json.load(open("/root/.vp/BASELINE.json"))["stable_pass"])
    return sorted(stable - passed), sorted(failed)


def main():
    prop, src, name = sys.argv[1:4]
    alt = "--alt" in sys.argv
    dest = os.path.join(VERIF, "seeded", name)
    os.makedirs(dest, exist_ok=True)
    demo_dir = os.path.join(src, "SEED_DEMO")
    if alt:
        patch = open(os.path.join(demo_dir, "alt.diff")).read()
        tag = "seeddemo_alt"
    else:
        rc, patch = sh(["git", "diff"], cwd=src)
        tag = "seeddemo"
    demo_files = [f for f in sorted(os.listdir(demo_dir)) if f.endswith(".go")]
    if not patch.strip() or not demo_files:
        print("no patch or demo found")
        return 2
    open(os.path.join(dest, "patch.diff"), "w").write(patch)
    shutil.rmtree(os.path.join(dest, "demo"), ignore_errors=True)
    os.makedirs(os.path.join(dest, "demo"))
    for f in demo_files:
        # files of the other defect are excluded by their build tag; keep them out of the record too
        txt = open(os.path.join(demo_dir, f)).read()
        first = txt.split("\n", 1)[0].replace("//go:build", "").replace("(", " ").replace(")", " ").split()
        tags = [t for t in first if t not in ("||", "&&")]
        if tags and tag not in tags:
            continue
        shutil.copy(os.path.join(demo_dir, f), os.path.join(dest, "demo", f))
    if os.path.exists(os.path.join(demo_dir, "README.md")):
        shutil.copy(os.path.join(demo_dir, "README.md"), os.path.join(dest, "README.md"))
    meta = {"property": prop, "name": name, "demo_cmd": "go test %s -tags %s -count=1 ./SEED_DEMO/   (demo/ copied to <worktree>/SEED_DEMO/)" % (os.environ.get("SEED_DEMO_FLAGS", ""), tag), "source": "independent sub-agent given only the property text and a scratch worktree",
            "alt": alt, "files_changed": [l[6:] for l in patch.splitlines() if l.startswith("+++ b/")]}

    # ---- 2. confirmation in a fresh scratch worktree
    wt = "/tmp/seedchk/" + name
    sh(["git", "-C", "/repo", "worktree", "remove", "--force", wt])
    shutil.rmtree(wt, ignore_errors=True)
    os.makedirs("/tmp/seedchk", exist_ok=True)
    rc, out = sh(["git", "-C", "/repo", "worktree", "add", "-q", "--detach", wt, "HEAD"])
    try:
        shutil.copytree(os.path.join(dest, "demo"), os.path.join(wt, "SEED_DEMO"))
        extra = os.environ.get("SEED_DEMO_FLAGS", "").split()
        # demonstrations that need a build configuration: SEED_DEMO_TAGS_EXTRA="debug", SEED_DEMO_GOARCH=386, SEED_DEMO_FLAGS="-race"
        dtag = (tag + " " + os.environ.get("SEED_DEMO_TAGS_EXTRA", "")).strip()
        denv = dict(ENV)
        if os.environ.get("SEED_DEMO_GOARCH"):
            denv["GOARCH"] = os.environ["SEED_DEMO_GOARCH"]
        meta["demo_cmd"] = "%sgo test %s -tags '%s' -count=1 ./SEED_DEMO/   (demo/ copied to <worktree>/SEED_DEMO/)" % ("GOARCH=%s " % denv["GOARCH"] if "GOARCH" in denv else "", " ".join(extra), dtag)
        rc0, out0 = sh(["go", "test"] + extra + ["-tags", dtag, "-count=1", "./SEED_DEMO/"], cwd=wt, env=denv)
        meta["demo_without_change"] = "pass" if rc0 == 0 else "FAIL"
        rc, out = sh(["git", "apply", os.path.join(dest, "patch.diff")], cwd=wt)
        if rc != 0:
            # /repo has moved on since the sub-agent's worktree was created (fix commits): merge instead
            rc, out = sh(["git", "apply", "--3way", os.path.join(dest, "patch.diff")], cwd=wt)
            sh(["git", "reset", "-q"], cwd=wt)
            meta["applied_by"] = "git apply --3way (the tree has fix commits the sub-agent's worktree did not have)"
        if rc != 0:
            meta["apply"] = "FAILED: " + out[-300:]
            print(json.dumps(meta, indent=1))
            return 2
        rcb, outb = sh(["go", "build", "./..."], cwd=wt)
        meta["builds"] = rcb == 0
        missing, failed = suite(wt)
        meta["suite_with_change"] = "as baseline" if not missing else "BASELINE TESTS FAILING: %s" % missing
        rc1, out1 = sh(["go", "test"] + extra + ["-tags", dtag, "-count=1", "./SEED_DEMO/"], cwd=wt, env=denv)
        meta["demo_with_change"] = "fail" if rc1 != 0 else "PASSES (does not demonstrate)"
        meta["demo_output_tail"] = out1[-500:]
    finally:
        sh(["git", "-C", "/repo", "worktree", "remove", "--force", wt])
        shutil.rmtree(wt, ignore_errors=True)
    meta["confirmed"] = bool(meta.get("builds") and meta["suite_with_change"] == "as baseline" and meta["demo_with_change"] == "fail" and meta["demo_without_change"] == "pass")

    # ---- 4. our check against it: on /repo itself (default) or, with --scratch, on a scratch worktree through VERIF_REPO
    ran = []
    scratch = "--scratch" in sys.argv
    if scratch:
        wt2 = "/tmp/seedchk/run_" + name
        sh(["git", "-C", "/repo", "worktree", "remove", "--force", wt2])
        shutil.rmtree(wt2, ignore_errors=True)
        os.makedirs("/tmp/seedchk", exist_ok=True)
        sh(["git", "-C", "/repo", "worktree", "add", "-q", "--detach", wt2, "HEAD"])
        try:
            rc, out = sh(["git", "apply", os.path.join(dest, "patch.diff")], cwd=wt2)
            if rc != 0:
                rc, out = sh(["git", "apply", "--3way", os.path.join(dest, "patch.diff")], cwd=wt2)
                sh(["git", "reset", "-q"], cwd=wt2)
            assert rc == 0, out
            for tier in ("quick", "thorough"):
                t0 = time.time()
                rc, out = sh([os.path.join(RUN, "check"), prop, tier], cwd=RUN, env=dict(ENV, VERIF_REPO=wt2, VERIF_OUT="/tmp/seedchk/out_" + name))
                lines = [l for l in out.splitlines() if l.startswith(("VIOLATION", "  sig=", "INCONCLUSIVE", "KNOWN"))]
                ran.append({"cmd": "./check %s %s" % (prop, tier), "exit": rc, "seconds": round(time.time() - t0, 1), "lines": [l[:400] for l in lines[:6]]})
                if rc == 1:
                    break
        finally:
            sh(["git", "-C", "/repo", "worktree", "remove", "--force", wt2])
            shutil.rmtree(wt2, ignore_errors=True)
            shutil.rmtree("/tmp/seedchk/out_" + name, ignore_errors=True)
        meta["what_we_ran"] = ["scratch worktree of /repo + git apply patch.diff; VERIF_REPO=<worktree>"] + ran + ["worktree removed"]
    else:
        rc, st = sh(["git", "-C", "/repo", "status", "--porcelain"])
        if st.strip():
            print("/repo is not clean; refusing to apply")
            return 2
        try:
            rc, out = sh(["git", "-C", "/repo", "apply", os.path.join(dest, "patch.diff")])
            assert rc == 0, out
            for tier in ("quick", "thorough"):
                t0 = time.time()
                rc, out = sh([os.path.join(VERIF, "check"), prop, tier], cwd=VERIF, env=dict(ENV, VERIF_OUT="/tmp/seedchk/out_" + name))
                lines = [l for l in out.splitlines() if l.startswith(("VIOLATION", "  sig=", "INCONCLUSIVE", "KNOWN"))]
                ran.append({"cmd": "./check %s %s" % (prop, tier), "exit": rc, "seconds": round(time.time() - t0, 1), "lines": [l[:400] for l in lines[:6]]})
                if rc == 1:
                    break
        finally:
            sh(["git", "-C", "/repo", "checkout", "--", "."])
            shutil.rmtree("/tmp/seedchk/out_" + name, ignore_errors=True)
        meta["what_we_ran"] = ["git -C /repo apply patch.diff"] + ran + ["git -C /repo checkout -- ."]
    if any(r["exit"] not in (0, 1, 3) for r in ran):
        print("%s %-28s EVAL-ERROR: a check exited %s (harness did not build?) -- not recorded" % (prop, name, [r["exit"] for r in ran]))
        return 2
    meta["detected"] = any(r["exit"] == 1 for r in ran)
    meta["detected_by"] = next((r["cmd"] for r in ran if r["exit"] == 1), None)
    sigs = [l.split()[0][4:] for r in ran for l in r["lines"] if l.startswith("  sig=")]
    meta["signatures"] = sigs
    mp = os.path.join(dest, "meta.json")
    if os.path.exists(mp):
        try:
            oldm = json.load(open(mp))
            for k in ("evaluation_history", "needs_to_manifest"):
                if k in oldm and k not in meta:
                    meta[k] = oldm[k]
        except Exception:
            pass
    json.dump(meta, open(mp, "w"), indent=1)
    print("%s %-28s confirmed=%s detected=%s by=%s sigs=%s" % (prop, name, meta["confirmed"], meta["detected"], meta["detected_by"], sigs[:2]))
    try:
        os.rmdir("/tmp/seedchk")
    except OSError:
        pass
    return 0


if __name__ == "__main__":
    sys.exit(main())
