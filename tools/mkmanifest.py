#!/usr/bin/env python3
"""Regenerates /verif/MANIFEST.json from the table below (kept next to the checks so the two stay in step)."""
import json, os, subprocess
HERE = os.path.dirname(os.path.dirname(os.path.abspath(__file__)))

BASELINE = ("cd /repo && GOFLAGS=-mod=mod GOPROXY=off GOSUMDB=off GOTOOLCHAIN=local "
            "go test -mod=mod -json -vet=off -count=1 -timeout 25m ./...")

# id -> (category, technique, text, note)
CHECKS = {}
def add(pid, cat, technique, text, note, ref):
    CHECKS[pid] = dict(cat=cat, technique=technique, text=text, note=note, ref=ref)

exec(open(os.path.join(HERE, "tools", "manifest_table.py")).read())

props = [json.loads(l) for l in open(os.path.join(HERE, "properties.jsonl"))]
checks, na = [], []
for p in props:
    pid = p["id"]
    c = CHECKS.get(pid)
    if c is None:
        na.append({"property_id": pid, "reason": "check not built yet in this round (no technique limitation; see DESIGN.md section 3)"})
        continue
    checks.append({
        "property_id": pid,
        "quick_cmd": f"./check {pid} quick",
        "thorough_cmd": f"./check {pid} thorough",
        "evidence_file": f"/verif/evidence/{pid}.json",
        "replay_cmd_template": f"./check {pid} --replay {{path}}",
        "engine": "vcheck",
        "level_claimed": {"category": c["cat"], "text": c["text"], "design_ref": c["ref"]},
        "level_note": c["note"],
        "technique": c["technique"],
    })
hooks_commits = [l.strip() for l in open(os.path.join(HERE, "tools", "hook_commits.txt")) if l.strip() and not l.startswith("#")]
m = {
    "version": 1,
    "setup_cmd": "./setup.sh",
    "hooks": {
        "guard": "verif",
        "enable": "go build -tags verif (the harness module replaces github.com/openacid/low with /repo; ./check builds every flavour with -tags verif)",
        "baseline_off_cmd": BASELINE,
        "source_commits": hooks_commits,
        "add_only": True,
    },
    "engines": [{
        "name": "vcheck",
        "path": "/verif/harness",
        "serves_properties": sorted(CHECKS),
        "kind_free_text": "Go harness: runs the real library from /repo under generated workloads in child processes (one per build flavour or process variant: release, debug (every property), race, -N, -N -l, asan, go1.26.8, GOARCH=386, release#coldconcN cold processes, release#orders, release#order); online reference-model monitors at the API boundary; race detector / checkptr / ASan / mprotect write trap as extra observers",
    }],
    "checks": checks,
    "notes": "Technique family: runtime monitoring and sanitizers. Exit 0 held on everything observed, 1 VIOLATION (replay file), 3 INCONCLUSIVE (never on the unchanged tree), 2 build failure. KNOWN_FINDINGS.txt lists fixed defects.",
    "not_applicable": na,
}
json.dump(m, open(os.path.join(HERE, "MANIFEST.json"), "w"), indent=1)
print("checks:", len(checks), "not claimed:", len(na))
