#!/usr/bin/env python3
"""rebase.py <seed-name>...: re-creates seeded/<name>/patch.diff against /repo HEAD by a per-file 3-way merge
(base = a3c7997, theirs = base + original patch, ours = HEAD). The original is kept as patch.base-a3c7997.diff."""
import os, subprocess, sys, shutil, tempfile, json
BASE = "a3c7997"
ENV = dict(os.environ, GOFLAGS="-mod=mod", GOPROXY="off", GOSUMDB="off", GOTOOLCHAIN="local")
def sh(cmd, cwd=None, inp=None):
    p = subprocess.run(cmd, cwd=cwd, input=inp, capture_output=True, text=True, env=ENV)
    return p.returncode, p.stdout, p.stderr
for name in sys.argv[1:]:
    d = "/verif/seeded/" + name
    orig = os.path.join(d, "patch.base-a3c7997.diff")
    if not os.path.exists(orig):
        shutil.copy(os.path.join(d, "patch.diff"), orig)
    patch = open(orig).read()
    files = [l[6:] for l in patch.splitlines() if l.startswith("+++ b/")]
    tmp = tempfile.mkdtemp(prefix="rebase_")
    try:
        basedir, headdir = os.path.join(tmp, "base"), os.path.join(tmp, "head")
        for dd, rev in ((basedir, BASE), (headdir, "HEAD")):
            os.makedirs(dd)
            rc, out, err = sh(["bash", "-c", "git -C /repo archive %s | tar -x -C %s" % (rev, dd)])
        theirs = os.path.join(tmp, "theirs")
        shutil.copytree(basedir, theirs)
        rc, out, err = sh(["patch", "-p1", "-s"], cwd=theirs, inp=patch)
        if rc != 0:
            print(name, "ORIGINAL DOES NOT APPLY TO BASE", err[:200]); continue
        conflict = False
        for f in files:
            ours, base, th = os.path.join(headdir, f), os.path.join(basedir, f), os.path.join(theirs, f)
            if not os.path.exists(base):  # new file in the patch
                os.makedirs(os.path.dirname(ours), exist_ok=True)
                shutil.copy(th, ours); continue
            rc, out, err = sh(["git", "merge-file", "-p", ours, base, th])
            if rc != 0:
                conflict = True
                print(name, "CONFLICT in", f)
                open(os.path.join(d, "conflict_" + os.path.basename(f)), "w").write(out)
            else:
                open(ours, "w").write(out)
        if conflict:
            continue
        rc, out, err = sh(["go", "build", "./..."], cwd=headdir)
        if rc != 0:
            print(name, "MERGED TREE DOES NOT BUILD:", err[:300]); 
            shutil.rmtree("/tmp/rebase_keep_" + name, ignore_errors=True); shutil.copytree(headdir, "/tmp/rebase_keep_" + name)
            continue
        # new patch: diff HEAD vs merged, in git format
        wt = os.path.join(tmp, "wt")
        sh(["git", "-C", "/repo", "worktree", "add", "-q", "--detach", wt, "HEAD"])
        for f in files:
            os.makedirs(os.path.dirname(os.path.join(wt, f)), exist_ok=True)
            shutil.copy(os.path.join(headdir, f), os.path.join(wt, f))
        sh(["git", "add", "-N", "."], cwd=wt)
        rc, out, err = sh(["git", "diff"], cwd=wt)
        sh(["git", "-C", "/repo", "worktree", "remove", "--force", wt])
        open(os.path.join(d, "patch.diff"), "w").write(out)
        m = json.load(open(os.path.join(d, "meta.json")))
        m["rebased"] = "patch.diff was re-created against the repaired tree (3-way merge per file; the sub-agent's original, against a3c7997, is patch.base-a3c7997.diff)"
        json.dump(m, open(os.path.join(d, "meta.json"), "w"), indent=1)
        print(name, "rebased ok")
    finally:
        shutil.rmtree(tmp, ignore_errors=True)
