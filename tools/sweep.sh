#!/usr/bin/env bash
# tools/sweep.sh <tier> <seed>...   runs every registered check at every seed; prints one line per non-silent run
cd "$(dirname "$0")/.." || exit 1
TIER=$1; shift
bad=0
for seed in "$@"; do
  for id in $(jq -r '.checks[].property_id' MANIFEST.json); do
    out=$(VERIF_SEED=$seed ./check $id $TIER 2>&1); rc=$?
    if [ $rc -ne 0 ] || echo "$out" | grep -q "VIOLATION\|INCONCLUSIVE\|KNOWN-FINDING"; then
      bad=$((bad+1)); echo "NOT SILENT: $id seed=$seed tier=$TIER exit=$rc"; echo "$out" | head -5
    else
      echo "ok $id seed=$seed $(echo "$out" | tail -1 | sed 's/.*evaluations=/evals=/')"
    fi
  done
done
echo "sweep done: $bad non-silent runs"
exit $((bad>0))
