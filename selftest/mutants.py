# Single-edit mutants of /repo used to validate the monitors (see DESIGN.md 4.3).
# expect: "caught" (default) | "equivalent" (documented equivalent mutant, expected to stay silent)
MUTANTS = []
def M(prop, name, file, old, new, **kw):
    MUTANTS.append(dict(prop=prop, name=prop + "-" + name, file=file, old=old, new=new, **kw))

# ---- C01 rank
M("C01", "rank128-63", "bitmap/rank.go", "n := rindex[(i+64)>>7]", "n := rindex[(i+63)>>7]")
M("C01", "rank128-drop-atright", "bitmap/rank.go", "c1 := n - atRight*cnt1 + int32(bits.OnesCount64(w&Mask[j]))", "c1 := n - 0*atRight*cnt1 + int32(bits.OnesCount64(w&Mask[j]))")
M("C01", "rank64-maskupto", "bitmap/rank.go", "c1 := n + int32(bits.OnesCount64(w&Mask[j]))\n\treturn c1, int32(w>>uint(j)) & 1\n}\n\n// Tip", "c1 := n + int32(bits.OnesCount64(w&MaskUpto[j&63]))\n\treturn c1, int32(w>>uint(j)) & 1\n}\n\n// Tip")
M("C01", "index128-parity", "bitmap/rank.go", "if len(words)&1 == 0 {", "if len(words)&1 == 1 {")
M("C01", "index64-trailing-off", "bitmap/rank.go", "idx[len(words)] = n\n", "idx[len(words)] = n - 1\n")
# ---- C14
M("C14", "join-and31", "bitmap/join.go", "<< uint(j&63)", "<< uint(j&31)")
M("C14", "getw-mask", "bitmap/get.go", "& Mask[w]", "& Mask[w-1]")
M("C14", "slice-len-revert", "bitmap/slice.go", "l := ((to - from) + 63) >> 6", "l := ((to - from) + 64) >> 6")
# ---- C20
M("C20", "slice-hdr-twice", "size/sizeof.go", "\tcase reflect.Slice:\n\t\tsum += slicesize", "\tcase reflect.Slice:\n\t\tsum += slicesize\n\t\tif v.Len() > 0 && v.Index(0).Kind() == reflect.Slice {\n\t\t\tsum += slicesize\n\t\t}")
M("C20", "nilptr-as-pointee", "size/sizeof.go", "\t\tif p == nil {\n\t\t\tsum = 0", "\t\tif p == nil {\n\t\t\tsum = int(v.Type().Elem().Size())")
M("C20", "uint-revert", "size/sizeof.go", "reflect.Int, reflect.Uint, reflect.Uintptr:", "reflect.Int, reflect.Uint:")
# ---- C11
M("C11", "span-39", "bitmap/fromstr32.go", "uint(40-spanSize)", "uint(39-spanSize)")
M("C11", "tobyte-round", "bitmap/fromstr32.go", "toByte := (tobit + 7) >> 3", "toByte := (tobit + 6) >> 3")
M("C11", "clamp-removed", "bitmap/fromstr32.go", "\tif blen > size {\n\t\tblen = size\n\t}\n", "")
M("C11", "blen-le", "bitmap/fromstr32.go", "if blen <= 0 {", "if blen < 0 {", expect="equivalent")  # blen==0 falls through to (0, 0) anyway
M("C11", "pathsof-revert", "bmtree/newpath.go", "if !dedup || i == 0 || p != prev {", "if !dedup || i < 0 || p != prev {")
M("C11", "newpath-shift", "bmtree/newpath.go", "<< uint(height-length))", "<< uint(height-length+1))", expect="caught")
# ---- C06 / C07
M("C06", "bodylen-plus1", "pbcmpl/pbcmpl.go", "h := newHeader(ver, uint64(len(data)))", "h := newHeader(ver, uint64(len(data))+1)")
M("C06", "n2-dropped", "pbcmpl/pbcmpl.go", "\tn += n2\n", "\tn += 0 * n2\n")
M("C07", "n2-dropped", "pbcmpl/pbcmpl.go", "\tn += n2\n", "\tn += 0 * n2\n")
M("C07", "hsize-check-removed", "pbcmpl/pbcmpl.go", "if hi.GetHeaderSize() != int64(fixedSize) {", "if false {")
M("C07", "eof-to-nil", "pbcmpl/pbcmpl.go", "\tif err == io.EOF && nread > 0 {\n\t\terr = io.ErrUnexpectedEOF\n\t}", "\tif err == io.EOF && nread > 0 {\n\t\terr = nil\n\t}")
M("C07", "ueof-dropped", "pbcmpl/pbcmpl.go", "\tif err == io.EOF && nread > 0 {\n\t\terr = io.ErrUnexpectedEOF\n\t}", "")
M("C07", "bodysize-check-removed", "pbcmpl/pbcmpl.go", "if bodySize < 0 {", "if false {")
M("C07", "marshal-swallow-write-error", "pbcmpl/pbcmpl.go", "\tn2, err := w.Write(d)\n\tn += n2\n\tif err != nil {\n\t\treturn int64(n), err\n\t}", "\tn2, _ := w.Write(d)\n\tn += n2")
# ---- C09
M("C09", "new-mask-dropped", "bitstr/bitstr.go", "\tbitStr[l-1] &= mask\n", "")
M("C09", "cmp-eq-len", "bitstr/bitstr.go", "\tif la == lb {\n\t\treturn bytes.Compare(a, b)\n\t}", "\tif la == lb {\n\t\treturn bytes.Compare(a[:la-1], b[:lb-1])\n\t}")
M("C09", "cmpbytes-le8", "bitstr/bitstr.go", "if la < 8 {", "if la <= 8 {", expect="equivalent")
M("C09", "upto-lastbyte-nomask", "bitstr/bitstr.go", "bytea := a[la-1] & b[lb-1]", "bytea := a[la-1]")
M("C09", "strcmpupto-revert", "bitstr/bitstr.go", "\tbh.Cap = sh.Len\n", "\tbh.Cap = 0\n")
M("C09", "len-off", "bitstr/bitstr.go", "return int32(l)<<3 - 16 +", "return int32(l)<<3 - 15 +")
