# Single-edit mutants of /repo used to validate the monitors (see DESIGN.md 4.3).
import os
# expect: "caught" (default) | "equivalent" (documented equivalent mutant, expected to stay silent)
MUTANTS = []
def M(prop, name, file, old, new, **kw):
    MUTANTS.append(dict(prop=prop, name=prop + "-" + name, file=file, old=old, new=new, **kw))

# ---- C01 rank
M("C01", "rank128-63", "bitmap/rank.go", "n := rindex[(uint32(i)+64)>>7]", "n := rindex[(uint32(i)+63)>>7]")
M("C01", "rank128-drop-atright", "bitmap/rank.go", "c1 := n - atRight*cnt1 + int32(bits.OnesCount64(w&Mask[j]))", "c1 := n - 0*atRight*cnt1 + int32(bits.OnesCount64(w&Mask[j]))")
M("C01", "rank64-maskupto", "bitmap/rank.go", "c1 := n + int32(bits.OnesCount64(w&Mask[j]))\n\treturn c1, int32(w>>uint(j)) & 1\n}\n\n// Tip", "c1 := n + int32(bits.OnesCount64(w&MaskUpto[j&63]))\n\treturn c1, int32(w>>uint(j)) & 1\n}\n\n// Tip")
M("C01", "index128-parity", "bitmap/rank.go", "if len(words)&1 == 0 {", "if len(words)&1 == 1 {")
M("C01", "index64-trailing-off", "bitmap/rank.go", "idx[len(words)] = n\n", "idx[len(words)] = n - 1\n")
# ---- C14
M("C14", "join-and31", "bitmap/join.go", "<< uint(j&63)", "<< uint(j&31)")
M("C14", "getw-mask", "bitmap/get.go", "& Mask[w]", "& Mask[w-1]")
M("C14", "slice-len-revert", "bitmap/slice.go", "l := ((to - from) + 63) >> 6", "l := ((to - from) + 64) >> 6")
# ---- C20
M("C20", "slice-hdr-twice", "size/sizeof.go", "\tcase reflect.Slice:\n\t\tsum += slicesize", "\tcase reflect.Slice:\n\t\tsum += slicesize\n\t\tif v.Len() > 0 && v.Index(0).Kind() == reflect.Slice {\n\t\t\tsum += slicesize\n\t\t}")
M("C20", "nilptr-as-pointee", "size/sizeof.go", "\t\tif p == nil {\n\t\t\tsum = 0", "\t\tif p == nil {\n\t\t\tsum = int(v.Type().Elem().Size())")
M("C20", "uint-revert", "size/sizeof.go", "reflect.Int, reflect.Uint, reflect.Uintptr:", "reflect.Int, reflect.Uint:")
# ---- C11
M("C11", "span-39", "bitmap/fromstr32.go", "uint(40-spanSize)", "uint(39-spanSize)")
M("C11", "tobyte-round", "bitmap/fromstr32.go", "toByte := (int64(tobit) + 7) >> 3", "toByte := (int64(tobit) + 6) >> 3")
M("C11", "clamp-removed", "bitmap/fromstr32.go", "\tif blen > int64(size) {\n\t\tblen = int64(size)\n\t}\n", "")
M("C11", "blen-le", "bitmap/fromstr32.go", "if blen <= 0 {", "if blen < 0 {", expect="equivalent")  # blen==0 falls through to (0, 0) anyway
M("C11", "pathsof-revert", "bmtree/newpath.go", "if !dedup || i == 0 || p != prev {", "if !dedup || i < 0 || p != prev {")
M("C11", "newpath-shift", "bmtree/newpath.go", "<< uint(height-length))", "<< uint(height-length+1))", expect="caught")
# ---- C06 / C07
M("C06", "bodylen-plus1", "pbcmpl/pbcmpl.go", "h := newHeader(ver, uint64(len(data)))", "h := newHeader(ver, uint64(len(data))+1)")
M("C06", "n2-dropped", "pbcmpl/pbcmpl.go", "\tn += n2\n", "\tn += 0 * n2\n")
M("C07", "n2-dropped", "pbcmpl/pbcmpl.go", "\tn += n2\n", "\tn += 0 * n2\n")
M("C07", "hsize-check-removed", "pbcmpl/pbcmpl.go", "if hi.GetHeaderSize() != int64(fixedSize) {", "if false {")
M("C07", "eof-to-nil", "pbcmpl/pbcmpl.go", "\tif err == io.EOF && nread > 0 {\n\t\terr = io.ErrUnexpectedEOF\n\t}", "\tif err == io.EOF && nread > 0 {\n\t\terr = nil\n\t}")
M("C07", "ueof-dropped", "pbcmpl/pbcmpl.go", "\tif err == io.EOF && nread > 0 {\n\t\terr = io.ErrUnexpectedEOF\n\t}", "")
M("C07", "bodysize-check-removed", "pbcmpl/pbcmpl.go", "if bodySize < 0 {", "if false {")
M("C07", "marshal-swallow-write-error", "pbcmpl/pbcmpl.go", "\tn2, err := w.Write(d)\n\tn += n2\n\tif err != nil {\n\t\treturn int64(n), err\n\t}", "\tn2, _ := w.Write(d)\n\tn += n2")
# ---- C09
M("C09", "new-mask-dropped", "bitstr/bitstr.go", "\tbitStr[l-1] &= mask\n", "")
M("C09", "cmp-eq-len", "bitstr/bitstr.go", "\tif la == lb {\n\t\treturn bytes.Compare(a, b)\n\t}", "\tif la == lb {\n\t\treturn bytes.Compare(a[:la-1], b[:lb-1])\n\t}")
M("C09", "cmpbytes-le8", "bitstr/bitstr.go", "if la < 8 {", "if la <= 8 {", expect="equivalent")
M("C09", "upto-lastbyte-nomask", "bitstr/bitstr.go", "bytea := a[la-1] & b[lb-1]", "bytea := a[la-1]")
M("C09", "strcmpupto-revert", "bitstr/bitstr.go", "\tbh.Cap = sh.Len\n", "\tbh.Cap = 0\n")
M("C09", "len-off", "bitstr/bitstr.go", "return int32(l)<<3 - 16 +", "return int32(l)<<3 - 15 +")
# ---- C02 select
M("C02", "halving-15", "bitmap/select.go", "\t\t\tbase |= 16\n\t\t\tww >>= 16", "\t\t\tbase |= 16\n\t\t\tww >>= 15")
M("C02", "r64-halving-15", "bitmap/select.go", "\t\toffset |= 16\n\t\tww >>= 16", "\t\toffset |= 16\n\t\tww >>= 15")
M("C02", "next1-scan-start", "bitmap/select.go", "for wordI := a>>6 + 1; wordI < l; wordI++ {", "for wordI := a>>6 + 2; wordI < l; wordI++ {")
M("C02", "tail-l5", "bitmap/select.go", "\t\t}\n\t}\n\treturn a, l << 6\n}\n\n// IndexSelect32R64", "\t\t}\n\t}\n\treturn a, l << 5\n}\n\n// IndexSelect32R64")
M("C02", "r64-tail-l5", "bitmap/select.go", "\treturn a, l << 6\n}\n\n// indexSelectU64", "\treturn a, l << 5\n}\n\n// indexSelectU64")
M("C02", "index-and15", "bitmap/select.go", "\t\t\tif ith&31 == 0 {\n\t\t\t\tsidx = append(sidx, int32(i))\n\t\t\t}\n\t\t}\n\t}\n\n\t// clone to reduce cap to len\n\tsidx = append(sidx[:0:0], sidx...)\n\treturn sidx\n}", "\t\t\tif ith&15 == 0 {\n\t\t\t\tsidx = append(sidx, int32(i))\n\t\t\t}\n\t\t}\n\t}\n\n\t// clone to reduce cap to len\n\tsidx = append(sidx[:0:0], sidx...)\n\treturn sidx\n}")
M("C02", "lookup-or-xor", "bitmap/select.go", "a = int32(select8Lookup[(ww&0xff)<<3|uint64(findIth)]) + base\n", "a = int32(select8Lookup[(ww&0xff)<<3^uint64(findIth)]) + base\n", expect="equivalent")  # operands never overlap
M("C02", "lookup-entry", "bitmap/select.go", "\t\t\tselect8Lookup[i*8+j] = uint8(x)", "\t\t\tselect8Lookup[i*8+j] = uint8(x)\n\t\t\tif i == 0xb5 && j == 4 {\n\t\t\t\tselect8Lookup[i*8+j] = 6\n\t\t\t}")
M("C02", "r64-mask", "bitmap/select.go", "w &= RMaskUpto[a&63]", "w &= RMask[a&63]")
M("C02", "hi-byte-7f0", "bitmap/select.go", "a = int32(select8Lookup[(ww>>5)&(0x7f8)|uint64(findIth-ones)]) + base + 8", "a = int32(select8Lookup[(ww>>5)&(0x7f0)|uint64(findIth-ones)]) + base + 8")
# ---- C13 next/prev
M("C13", "step-63", "bitmap/next.go", "for ; i < end; i += 64 {", "for ; i < end; i += 63 {")
M("C13", "step-word-inverted", "bitmap/next.go", "\t\t\tword := bm[i>>6]\n\t\t\tif word != 0 {", "\t\t\tword := bm[i>>6]\n\t\t\tif word == 0 {")
M("C13", "prev-minus0", "bitmap/next.go", "end = (end & ^63) - 1", "end = (end & ^63) - 0")
M("C13", "next-round", "bitmap/next.go", "i = (i + 63) & ^63", "i = (i + 64) & ^63", expect="equivalent")  # an aligned i only re-reads the word already found empty
M("C13", "prev-step", "bitmap/next.go", "for ; end >= i; end -= 64 {", "for ; end > i; end -= 64 {")
M("C13", "next-clip", "bitmap/next.go", "if nxt >= end {", "if nxt > end {")
M("C13", "prev-lz", "bitmap/next.go", "prv = end - int32(bits.LeadingZeros64(word))", "prv = end - int32(bits.LeadingZeros64(word)) + 1")
# ---- C12
M("C12", "of-round", "bitmap/of.go", "nWords := (n + 63) >> 6", "nWords := (n + 64) >> 6")
M("C12", "extend-gt", "bitmap/builder.go", "if bitEnd >= size {", "if bitEnd > size {")
M("C12", "safeget-gt", "bitmap/get.go", "func SafeGet(bm []uint64, i int32) uint64 {\n\twordI := i >> 6\n\tbitI := i & 63\n\tif wordI < 0 || wordI >= int32(len(bm)) {", "func SafeGet(bm []uint64, i int32) uint64 {\n\twordI := i >> 6\n\tbitI := i & 63\n\tif wordI < 0 || wordI > int32(len(bm)) {")
M("C12", "ofmany-base", "bitmap/ofmany.go", "\t\tbase += sizes[i]\n", "\t\tbase += sizes[i]\n\t\tif i == 3 {\n\t\t\tbase++\n\t\t}\n")
M("C12", "builder-set-offset", "bitmap/builder.go", "if b.Offset <= bitPosition {", "if b.Offset < bitPosition {")
M("C12", "toarray-skip63", "bitmap/toarray.go", "for i := 0; i < l; i++ {", "for i := 0; i < l-1; i++ {")
# ---- C08
M("C08", "fromstr-shift", "bitword/bitword.go", "(b >> uint(8-w.width*j-w.width)) & w.wordMask", "(b >> uint(7-w.width*j-w.width+1)) & w.wordMask", expect="equivalent")
M("C08", "get-8-end", "bitword/bitword.go", "return (word >> uint(7-end)) & w.wordMask", "return (word >> uint(8-end)) & w.wordMask")
M("C08", "firstdiff-no-lb-clamp", "bitword/bitword.go", "\tif end > lb {\n\t\tend = lb\n\t}\n", "\tif end > lb+1 {\n\t\tend = lb\n\t}\n")
M("C08", "tostr-pad", "bitword/bitword.go", "\t\t\t\tb = b << uint(w.width)\n", "\t\t\t\tb = b<<uint(w.width) | 1\n")
M("C08", "firstdiff-end-minus1", "bitword/bitword.go", "\tif end == -1 {\n\t\tend = la\n\t}", "\tif end == -1 {\n\t\tend = lb\n\t}", expect="equivalent")  # clamped to min(la, lb) right after
# ---- C10
M("C10", "mask-shift", "bmtree/newpath.go", "(bitmap.Mask[length] << uint(height-length))", "(bitmap.Mask[length] << uint(height-length) >> 1 << 1)", expect="caught")
M("C10", "pathstr-pad", "bmtree/pathstr.go", 'fmt.Sprintf("%0[1]*[2]b", l, path>>uint(32+treeHeight-l))', 'fmt.Sprintf("%[2]b", l, path>>uint(32+treeHeight-l))')
M("C10", "pathheight-31", "bmtree/pathheight.go", "return int32(32 - bits.LeadingZeros32(uint32(path)))", "return int32(32 - bits.LeadingZeros32(uint32(path)&0x7fffffff))")
M("C10", "pathlen-16", "bmtree/pathlen.go", "return int32(bits.OnesCount32(uint32(p)))", "return int32(bits.OnesCount32(uint32(p) & 0x7fffffff))")
# ---- C16 / C17
M("C16", "first-le-minl", "sigbits/firstdiff.go", "if first < minl {", "if first <= minl {", expect="equivalent")
M("C16", "chunk-step-9", "sigbits/firstdiff.go", "for i := 0; i < la && i < lb; i += 8 {", "for i := 0; i < la && i < lb; i += 9 {")
M("C16", "rst0-zero", "sigbits/countprefixes.go", "rst[0] = 1", "rst[0] = 0")
M("C16", "get64-pad", "sigbits/firstdiff.go", "\t\tbs := make([]byte, 8)\n\t\tcopy(bs, s)", "\t\tbs := []byte{0, 0, 0, 0, 0, 0, 0, 1}\n\t\tcopy(bs, s)", expect="equivalent")  # padding lies beyond the shorter key and is clipped to 8*min(len)
M("C16", "count-slice", "sigbits/sigbits_countprefixes.go", "sb.sigbits[keyStart:keyEnd-1]", "sb.sigbits[keyStart:keyEnd]", count=1)
M("C17", "maxsize-lt", "sigbits/sharding.go", "if e-s <= maxSize {", "if e-s < maxSize {")
M("C17", "prefixlen-le", "sigbits/sharding.go", "if prefixLen < longest {", "if prefixLen <= longest {", expect="equivalent")  # shards differently, but every clause of C17 still holds
M("C17", "min-from-last", "sigbits/sharding.go", "for i := s; i < e-1; i++ {\n\t\t\t\tif min > firstDiffs[i]>>3 {", "for i := s; i < e-2; i++ {\n\t\t\t\tif min > firstDiffs[i]>>3 {")
M("C17", "no-restart", "sigbits/sharding.go", "\t\t\t\tendsAt = endsAt[0:0]\n", "", expect="equivalent")  # over-splits, but every clause of C17 still holds
M("C17", "last-range-dropped", "sigbits/sharding.go", "for i := 0; i < len(endsAt); i++ {", "for i := 0; i < len(endsAt)-1; i++ {")
M("C17", "lcp-from-last-key", "sigbits/sharding.go", "\t\t\tmin := int32(len(keys[s]))\n", "\t\t\tmin := int32(len(keys[e-1]))\n", expect="equivalent")  # min over adjacent LCPs is <= len(keys[s]) anyway
# ---- C03
M("C03", "full-const", "bmtree/index.go", "return (int32(path>>32) << 1) + int32(bits.OnesCount64(path^0xffffffff00000000)) - 32, has", "return (int32(path>>32) << 1) + int32(bits.OnesCount64(path^0xffffffff00000000)) - 31, has")
M("C03", "shiftmulti-off", "bmtree/partial_tree.go", "\t\trst += (a >> shift)\n", "\t\trst += (a >> (shift + 1))\n")
M("C03", "mask-upto", "bmtree/index.go", "return int32(idx + uint64(bits.OnesCount64(sz&bitmap.Mask[PathLen(path)]))), has", "return int32(idx + uint64(bits.OnesCount64(sz&bitmap.MaskUpto[PathLen(path)&63]))), has")
M("C03", "debug-contract-30", "bmtree/bitmap_check.go", "must.Be.True(height <= 30)", "must.Be.True(height < 30)")
M("C03", "debug-pathcheck-strict", "bmtree/pathcheck.go", "must.Be.Equal(uint64(0), path&0xc0000000c0000000)", "must.Be.Equal(uint64(0), path&0xe0000000e0000000)")
M("C03", "strict-vs-loose", "bmtree/index.go", "\t\tidx := shiftMulti(sz, path>>32, uint64(height))\n\t\treturn int32(idx + uint64(bits.OnesCount64(sz&bitmap.Mask[PathLen(path)])))", "\t\tidx := shiftMulti(sz, path>>32, uint64(height))\n\t\treturn int32(idx + uint64(bits.OnesCount64(sz&bitmap.Mask[PathLen(path)]&^(1<<20))))")
# ---- C04
M("C04", "from-le", "bmtree/allpaths.go", "if p < from {", "if p <= from {")
M("C04", "to-gt", "bmtree/allpaths.go", "if p >= to {", "if p > to {")
M("C04", "tz-clamp-removed", "bmtree/allpaths.go", "\t\tif tz > height {\n\t\t\ttz = height\n\t\t}\n", "")
M("C04", "decode-len-ge", "bmtree/decode.go", "if int32(len(bm)) > wordI &&", "if int32(len(bm)) >= wordI && int32(len(bm)) > 0 && wordI < int32(len(bm))+0 &&", expect="equivalent")
M("C04", "decode-bit", "bmtree/decode.go", "bm[wordI]&(1<<uint(idx&63)) != 0", "bm[wordI]&(1<<uint(idx&31)) != 0")
M("C04", "t-plus0", "bmtree/allpaths.go", "t = to>>32 + 1", "t = to>>32 + 0")
# ---- C05
M("C05", "fixed-off", "bmtree/index.go", "fixed := treeheight + 1 - diffbits", "fixed := treeheight + 2 - diffbits")
M("C05", "index-dec2", "bmtree/index.go", "\t\t\tindex--\n", "\t\t\tindex -= 2\n")
M("C05", "table-entry", "bmtree/index.go", "(0x00000005 << 32) + 0x00000007, // 11  101", "(0x00000005 << 32) + 0x00000006, // 11  101")
M("C05", "mask-and7", "bmtree/index.go", "for mask&15 == 0 && index > 0 {", "for mask&7 == 0 && index > 0 {", expect="equivalent")  # descends one more level and lands in a smaller table: same answers (shown by the exhaustive run)
M("C05", "height-gt5", "bmtree/index.go", "if treeheight > 4 {", "if treeheight > 5 {", expect="equivalent")  # only disables the shortcut for h = 5
M("C05", "height-gt3", "bmtree/index.go", "if treeheight > 4 {", "if treeheight > 3 {", expect="equivalent")  # shortcut also valid for h = 4 (shown by the exhaustive run)
M("C05", "diffbits-31", "bmtree/index.go", "diffbits := 32 - int32(bits.LeadingZeros32(uint32(i1^i2)))", "diffbits := 31 - int32(bits.LeadingZeros32(uint32(i1^i2)))")
M("C05", "right-turn", "bmtree/index.go", "\t\t\tindex -= int32(maskAndPathBit >> 32)\n", "\t\t\tindex -= int32(maskAndPathBit>>32) - 1\n")
# ---- C15 TailBitmap
M("C15", "get-le", "bitmap/tailbitmap.go", "func (tb *TailBitmap) Get(idx int64) uint64 {\n\tif idx < tb.Offset {", "func (tb *TailBitmap) Get(idx int64) uint64 {\n\tif idx <= tb.Offset {")
M("C15", "get1-le", "bitmap/tailbitmap.go", "func (tb *TailBitmap) Get1(idx int64) uint64 {\n\tif idx < tb.Offset {", "func (tb *TailBitmap) Get1(idx int64) uint64 {\n\tif idx <= tb.Offset {")
M("C15", "get-shift7", "bitmap/tailbitmap.go", "return tb.Words[idx>>6] & Bit[idx&63]", "return tb.Words[idx>>7] & Bit[idx&63]")
M("C15", "compact-drops-nonfull", "bitmap/tailbitmap.go", "for len(tb.Words) > 0 && tb.Words[0] == allOnes {", "for len(tb.Words) > 0 && tb.Words[0]|1<<17 == allOnes {")
M("C15", "offset-63", "bitmap/tailbitmap.go", "\t\ttb.Offset += 64\n", "\t\ttb.Offset += 63\n")
M("C15", "set-below-offset", "bitmap/tailbitmap.go", "\tif idx < tb.Offset {\n\t\treturn\n\t}\n\n\tidx = idx - tb.Offset\n\twordIdx := idx >> 6", "\tif idx < tb.Offset-64 {\n\t\treturn\n\t}\n\n\tidx = idx - tb.Offset\n\twordIdx := idx >> 6")
M("C15", "compact-only-when-word0", "bitmap/tailbitmap.go", "\tif wordIdx == 0 {\n\t\ttb.Compact()\n\t}", "\tif wordIdx == 0 && idx&63 == 63 {\n\t\ttb.Compact()\n\t}")
M("C15", "reclaim-loses-words", "bitmap/tailbitmap.go", "\t\tcopy(newWords, tb.Words)\n\t\ttb.reclaimed = tb.Offset", "\t\tcopy(newWords, tb.Words)\n\t\tif l > 0 {\n\t\t\ttb.Words = newWords[:l-1]\n\t\t}\n\t\ttb.reclaimed = tb.Offset")
M("C15", "reclaim-stale-copy", "bitmap/tailbitmap.go", "\t\tcopy(newWords, tb.Words)\n\t\ttb.reclaimed = tb.Offset", "\t\tcopy(newWords[1:], tb.Words)\n\t\ttb.Words = newWords\n\t\ttb.reclaimed = tb.Offset")
# ---- C18 SectionWriter
M("C18", "write-off-minus", "iohelper/iohelper.go", "s.off += int64(n)", "s.off -= int64(n)")
M("C18", "seek-base-minus", "iohelper/iohelper.go", "\tcase io.SeekStart:\n\t\toffset += s.base", "\tcase io.SeekStart:\n\t\toffset -= s.base")
M("C18", "write-trunc-ge", "iohelper/iohelper.go", "if max := s.limit - s.off; int64(len(p)) > max {", "if max := s.limit - s.off; int64(len(p)) >= max {")
M("C18", "writeat-short-dropped", "iohelper/iohelper.go", "\t\tif err == nil {\n\t\t\terr = io.ErrShortWrite\n\t\t}", "")
M("C18", "write-err-merge", "iohelper/iohelper.go", "\tif err2 != nil {\n\t\terr = err2\n\t}", "\tif err2 != nil && err == nil {\n\t\terr = err2\n\t}")
M("C18", "seek-end-base", "iohelper/iohelper.go", "\tcase io.SeekEnd:\n\t\toffset += s.limit", "\tcase io.SeekEnd:\n\t\toffset += s.limit - s.base")
M("C18", "seek-reject-le", "iohelper/iohelper.go", "if offset < s.base {", "if offset <= s.base {")
M("C18", "writeat-range-gt", "iohelper/iohelper.go", "if off < 0 || off >= s.limit-s.base {", "if off < 0 || off > s.limit-s.base {")
M("C18", "write-refuse-gt", "iohelper/iohelper.go", "if s.off >= s.limit {", "if s.off > s.limit {")
M("C18", "seek-moves-on-error", "iohelper/iohelper.go", "\tif offset < s.base {\n\t\treturn 0, errOffset\n\t}\n\ts.off = offset", "\ts.off = offset\n\tif offset < s.base {\n\t\treturn 0, errOffset\n\t}")
M("C18", "writeat-uses-cursor", "iohelper/iohelper.go", "\treturn s.w.WriteAt(p, off)\n}", "\tn, err = s.w.WriteAt(p, off)\n\ts.off += int64(n) * 0\n\tif off == s.off+1 {\n\t\ts.off = off\n\t}\n\treturn n, err\n}")
# ---- C19 purity / concurrent readers
M("C19", "rank64-stat-counter", "bitmap/rank.go", "func Rank64(words []uint64, rindex []int32, i int32) (int32, int32) {\n", "var rank64Calls int\n\nfunc Rank64(words []uint64, rindex []int32, i int32) (int32, int32) {\n\trank64Calls++\n")
M("C19", "select32-inplace-restore", "bitmap/select.go", "\tw := words[wordI]\n\t// remove \"1\" upto i64th excluding the \"1\" at i64th\n\tw = w & ^Mask[base&63]\n\n\t// continue search for i-th 1\n\tfor {\n\n\t\tones := bits.OnesCount64(w)\n\t\tif ones <= findIth {",
  "\tsaved := words[wordI]\n\twords[wordI] = saved & ^Mask[base&63]\n\tw := words[wordI]\n\twords[wordI] = saved\n\n\t// continue search for i-th 1\n\tfor {\n\n\t\tones := bits.OnesCount64(w)\n\t\tif ones <= findIth {")
M("C19", "cmpupto-writes-back", "bitstr/bitstr.go", "\tbytea := a[la-1] & b[lb-1]\n", "\ta[la-1] &= b[lb-1]\n\tbytea := a[la-1]\n")
MUTANTS.append(dict(prop="C19", name="C19-select-lazy-init", edits=[
  ("bitmap/bitmap.go", "\tinitSelectLookup()\n", ""),
  ("bitmap/select.go", "func initSelectLookup() {\n", "var selectLookupReady bool\n\nfunc ensureSelectLookup() {\n\tif !selectLookupReady {\n\t\tinitSelectLookup()\n\t\tselectLookupReady = true\n\t}\n}\n\nfunc initSelectLookup() {\n"),
  ("bitmap/select.go", "func select32single(words []uint64, selectIndex []int32, i int32) int32 {\n", "func select32single(words []uint64, selectIndex []int32, i int32) int32 {\n\tensureSelectLookup()\n"),
  ("bitmap/select.go", "func Select32(words []uint64, selectIndex []int32, i int32) (int32, int32) {\n", "func Select32(words []uint64, selectIndex []int32, i int32) (int32, int32) {\n\tensureSelectLookup()\n"),
  ("bitmap/select.go", "func Select32R64(words []uint64, selectIndex, rankIndex []int32, i int32) (int32, int32) {\n", "func Select32R64(words []uint64, selectIndex, rankIndex []int32, i int32) (int32, int32) {\n\tensureSelectLookup()\n"),
  ("bitmap/select.go", "func selectU64Indexed(w uint64, index uint64, findIth uint64) (int32, int) {\n", "func selectU64Indexed(w uint64, index uint64, findIth uint64) (int32, int) {\n\tensureSelectLookup()\n"),
]))
M("C19", "sigbits-shared-scratch", "sigbits/firstdiff.go", "\t\tbs := make([]byte, 8)\n\t\tcopy(bs, s)", "\t\tbs := padScratch[:]\n\t\tfor i := range bs {\n\t\t\tbs[i] = 0\n\t\t}\n\t\tcopy(bs, s)")
MUTANTS[-1]["edits"] = [("sigbits/firstdiff.go", MUTANTS[-1]["old"], MUTANTS[-1]["new"]), ("sigbits/firstdiff.go", "func get64Bits(s string) uint64 {\n", "var padScratch [8]byte\n\nfunc get64Bits(s string) uint64 {\n")]
M("C19", "bitword-cache-map", "bitword/bitword.go", "func (w *bitWord) FromStr(s string) []byte {\n", "var fromStrCache = map[string]int{}\n\nfunc (w *bitWord) FromStr(s string) []byte {\n\tif len(s) < 3 {\n\t\tfromStrCache[s]++\n\t}\n")
M("C19", "table-mutated-by-query", "bitmap/next.go", "\tword := bm[wordIdx] & RMask[bitIdx]\n", "\tif i == 77 && end == 78 {\n\t\tRMask[64] = 1\n\t}\n\tword := bm[wordIdx] & RMask[bitIdx]\n")
M("C19", "decode-sorts-input-inplace", "bmtree/decode.go", "\trst := make([]uint64, 0)\n", "\trst := make([]uint64, 0)\n\tif len(bm) > 1 && bm[0] == 0 {\n\t\tbm[0], bm[1] = bm[1], bm[0]\n\t\tdefer func() { bm[0], bm[1] = bm[1], bm[0] }()\n\t}\n")

# ---- WB: "write one element beyond len of a slice ARGUMENT when it has spare capacity" - one mutant per slice
# parameter of every public function (what an append-in-place, a sentinel or an in-place pad does). A caller's
# memory beyond len is not part of the argument; every driver must guard it (DESIGN 2.9a).
def WB(prop, file, sig, param, zero="0"):
    fn = sig.split("(")[0].replace("func ", "").strip() or sig.split(")")[1].split("(")[0].strip()
    if sig.startswith("func ("):
        fn = sig.split(") ", 1)[1].split("(")[0]
    M(prop, "wb-%s-%s" % (fn, param), file, sig + "\n", sig + "\n\tif cap(%s) > len(%s) {\n\t\t%s[:len(%s)+1][len(%s)] = %s\n\t}\n" % (param, param, param, param, param, zero))

WB("C01", "bitmap/rank.go", "func IndexRank64(words []uint64, opts ...bool) []int32 {", "words")
WB("C01", "bitmap/rank.go", "func IndexRank128(words []uint64) []int32 {", "words")
WB("C01", "bitmap/rank.go", "func Rank128(words []uint64, rindex []int32, i int32) (int32, int32) {", "words")
WB("C01", "bitmap/rank.go", "func Rank128(words []uint64, rindex []int32, i int32) (int32, int32) {", "rindex")
WB("C01", "bitmap/rank.go", "func Rank64(words []uint64, rindex []int32, i int32) (int32, int32) {", "words")
WB("C01", "bitmap/rank.go", "func Rank64(words []uint64, rindex []int32, i int32) (int32, int32) {", "rindex")
WB("C02", "bitmap/select.go", "func IndexSelect32(words []uint64) []int32 {", "words")
WB("C02", "bitmap/select.go", "func IndexSelect32R64(words []uint64) ([]int32, []int32) {", "words")
WB("C02", "bitmap/select.go", "func Select32(words []uint64, selectIndex []int32, i int32) (int32, int32) {", "words")
WB("C02", "bitmap/select.go", "func Select32(words []uint64, selectIndex []int32, i int32) (int32, int32) {", "selectIndex")
WB("C02", "bitmap/select.go", "func Select32R64(words []uint64, selectIndex, rankIndex []int32, i int32) (int32, int32) {", "words")
WB("C02", "bitmap/select.go", "func Select32R64(words []uint64, selectIndex, rankIndex []int32, i int32) (int32, int32) {", "selectIndex")
WB("C02", "bitmap/select.go", "func Select32R64(words []uint64, selectIndex, rankIndex []int32, i int32) (int32, int32) {", "rankIndex")
WB("C13", "bitmap/next.go", "func NextOne(bm []uint64, i, end int32) int32 {", "bm")
WB("C13", "bitmap/next.go", "func PrevOne(bm []uint64, i, end int32) int32 {", "bm")
WB("C14", "bitmap/slice.go", "func Slice(words []uint64, from, to int32) []uint64 {", "words")
WB("C14", "bitmap/get.go", "func Getw(bm []uint64, i int32, w int32) uint64 {", "bm")
WB("C14", "bitmap/join.go", "func Join(subs []uint64, size int32) []uint64 {", "subs")
WB("C12", "bitmap/toarray.go", "func ToArray(words []uint64) []int32 {", "words")
WB("C12", "bitmap/get.go", "func Get(bm []uint64, i int32) uint64 {", "bm")
WB("C12", "bitmap/get.go", "func SafeGet1(bm []uint64, i int32) uint64 {", "bm")
WB("C12", "bitmap/of.go", "func Of(bitPositions []int32, opts ...int32) []uint64 {", "bitPositions")
WB("C12", "bitmap/ofmany.go", "func OfMany(subs [][]int32, sizes []int32) []uint64 {", "sizes")
WB("C12", "bitmap/ofmany.go", "func OfMany(subs [][]int32, sizes []int32) []uint64 {", "subs", "nil")
WB("C12", "bitmap/builder.go", "func (b *Builder) Extend(bitPositions []int32, size int32) {", "bitPositions")
WB("C04", "bmtree/decode.go", "func Decode(bitmapSize int32, bm []uint64) []uint64 {", "bm")
WB("C11", "bmtree/newpath.go", "func PathsOf(keys []string, frombit int32, height int32, dedup bool) []uint64 {", "keys", '""')
WB("C09", "bitstr/bitstr.go", "func Cmp(a, b []byte) int {", "a")
WB("C09", "bitstr/bitstr.go", "func Cmp(a, b []byte) int {", "b")
WB("C09", "bitstr/bitstr.go", "func CmpUpto(a, b []byte) int {", "a")
WB("C09", "bitstr/bitstr.go", "func CmpUpto(a, b []byte) int {", "b")
WB("C09", "bitstr/bitstr.go", "func Len(bs []byte) int32 {", "bs")
WB("C08", "bitword/bitword.go", "func (w *bitWord) ToStr(bs []byte) string {", "bs")
WB("C08", "bitword/bitword.go", "func (w *bitWord) ToStrs(bytesslice [][]byte) []string {", "bytesslice", "nil")
WB("C08", "bitword/bitword.go", "func (w *bitWord) FromStrs(strs []string) [][]byte {", "strs", '""')
WB("C16", "sigbits/firstdiff.go", "func FirstDiffBits(keys []string) []int32 {", "keys", '""')
WB("C16", "sigbits/sigbits.go", "func New(keys []string) *SigBits {", "keys", '""')
WB("C17", "sigbits/sharding.go", "func ShardByPrefix(keys []string, maxSize int32) ([]int32, []int32) {", "keys", '""')

# ---- TS: "store into the first element of a slice ARGUMENT and put the old value back before doing anything else" - what a
# sentinel, an in-place normalisation or a sort-and-restore does. Every result and the argument after the call are as before;
# only a caller whose argument lives in memory that cannot be written (a mapped file) sees it (DESIGN 2.9c, props/ro.go).
def TS(prop, file, sig, param, zero="0", pkg=None):
    fn = sig.split("(")[0].replace("func ", "").strip()
    if sig.startswith("func ("):
        fn = sig.split(") ", 1)[1].split("(")[0]
    pkg = pkg or file.split("/")[0]
    body = "\n\tif len(%s) > 0 {\n\t\tverifT := %s[0]\n\t\t%s[0] = %s\n\t\tverifSinkN++\n\t\t%s[0] = verifT\n\t}\n" % (param, param, param, zero, param)
    MUTANTS.append(dict(prop=prop, name="%s-ts-%s-%s" % (prop, fn, param), edits=[
        (file, sig + "\n", sig + body),
        (os.path.dirname(file) + "/verif_ts_sink.go", "", "package %s\n\nvar verifSinkN int\n" % pkg)]))

for (_p, _f, _s, _a, *_z) in [
    ("C01", "bitmap/rank.go", "func IndexRank64(words []uint64, opts ...bool) []int32 {", "words"),
    ("C01", "bitmap/rank.go", "func IndexRank128(words []uint64) []int32 {", "words"),
    ("C01", "bitmap/rank.go", "func Rank128(words []uint64, rindex []int32, i int32) (int32, int32) {", "words"),
    ("C01", "bitmap/rank.go", "func Rank128(words []uint64, rindex []int32, i int32) (int32, int32) {", "rindex"),
    ("C01", "bitmap/rank.go", "func Rank64(words []uint64, rindex []int32, i int32) (int32, int32) {", "words"),
    ("C01", "bitmap/rank.go", "func Rank64(words []uint64, rindex []int32, i int32) (int32, int32) {", "rindex"),
    ("C02", "bitmap/select.go", "func IndexSelect32(words []uint64) []int32 {", "words"),
    ("C02", "bitmap/select.go", "func IndexSelect32R64(words []uint64) ([]int32, []int32) {", "words"),
    ("C02", "bitmap/select.go", "func Select32(words []uint64, selectIndex []int32, i int32) (int32, int32) {", "words"),
    ("C02", "bitmap/select.go", "func Select32(words []uint64, selectIndex []int32, i int32) (int32, int32) {", "selectIndex"),
    ("C02", "bitmap/select.go", "func Select32R64(words []uint64, selectIndex, rankIndex []int32, i int32) (int32, int32) {", "words"),
    ("C02", "bitmap/select.go", "func Select32R64(words []uint64, selectIndex, rankIndex []int32, i int32) (int32, int32) {", "selectIndex"),
    ("C02", "bitmap/select.go", "func Select32R64(words []uint64, selectIndex, rankIndex []int32, i int32) (int32, int32) {", "rankIndex"),
    ("C13", "bitmap/next.go", "func NextOne(bm []uint64, i, end int32) int32 {", "bm"),
    ("C13", "bitmap/next.go", "func PrevOne(bm []uint64, i, end int32) int32 {", "bm"),
    ("C14", "bitmap/slice.go", "func Slice(words []uint64, from, to int32) []uint64 {", "words"),
    ("C14", "bitmap/get.go", "func Getw(bm []uint64, i int32, w int32) uint64 {", "bm"),
    ("C14", "bitmap/join.go", "func Join(subs []uint64, size int32) []uint64 {", "subs"),
    ("C12", "bitmap/toarray.go", "func ToArray(words []uint64) []int32 {", "words"),
    ("C12", "bitmap/get.go", "func Get(bm []uint64, i int32) uint64 {", "bm"),
    ("C12", "bitmap/get.go", "func SafeGet1(bm []uint64, i int32) uint64 {", "bm"),
    ("C12", "bitmap/of.go", "func Of(bitPositions []int32, opts ...int32) []uint64 {", "bitPositions"),
    ("C12", "bitmap/ofmany.go", "func OfMany(subs [][]int32, sizes []int32) []uint64 {", "sizes"),
    ("C12", "bitmap/ofmany.go", "func OfMany(subs [][]int32, sizes []int32) []uint64 {", "subs", "nil"),
    ("C12", "bitmap/builder.go", "func (b *Builder) Extend(bitPositions []int32, size int32) {", "bitPositions"),
    ("C04", "bmtree/decode.go", "func Decode(bitmapSize int32, bm []uint64) []uint64 {", "bm"),
    ("C11", "bmtree/newpath.go", "func PathsOf(keys []string, frombit int32, height int32, dedup bool) []uint64 {", "keys", '""'),
    ("C09", "bitstr/bitstr.go", "func Cmp(a, b []byte) int {", "a"),
    ("C09", "bitstr/bitstr.go", "func Cmp(a, b []byte) int {", "b"),
    ("C09", "bitstr/bitstr.go", "func CmpUpto(a, b []byte) int {", "a"),
    ("C09", "bitstr/bitstr.go", "func CmpUpto(a, b []byte) int {", "b"),
    ("C09", "bitstr/bitstr.go", "func Len(bs []byte) int32 {", "bs"),
    ("C08", "bitword/bitword.go", "func (w *bitWord) ToStr(bs []byte) string {", "bs"),
    ("C08", "bitword/bitword.go", "func (w *bitWord) ToStrs(bytesslice [][]byte) []string {", "bytesslice", "nil"),
    ("C08", "bitword/bitword.go", "func (w *bitWord) FromStrs(strs []string) [][]byte {", "strs", '""'),
    ("C16", "sigbits/firstdiff.go", "func FirstDiffBits(keys []string) []int32 {", "keys", '""'),
    ("C16", "sigbits/sigbits.go", "func New(keys []string) *SigBits {", "keys", '""'),
    ("C17", "sigbits/sharding.go", "func ShardByPrefix(keys []string, maxSize int32) ([]int32, []int32) {", "keys", '""'),
]:
    TS(_p, _f, _s, _a, *(_z or ["0"]))

# ---- LZ: a package table that is no longer filled in init() but lazily by ONE family of functions only; every other
# function that reads the table answers wrongly when it is called first in a process (cold-order processes, 2.9b)
_lz_masks = [
    ("bitmap/bitmap.go", "func init() {\n\tinitMasks()\n\tinitSelectLookup()\n}", "func init() {\n\tinitSelectLookup()\n}"),
    ("bitmap/rank.go", "import (\n\t\"math/bits\"\n)\n", "import (\n\t\"math/bits\"\n\t\"sync\"\n)\n\nvar masksOnce sync.Once\n"),
    ("bitmap/rank.go", "func IndexRank64(words []uint64, opts ...bool) []int32 {\n", "func IndexRank64(words []uint64, opts ...bool) []int32 {\n\tmasksOnce.Do(initMasks)\n"),
    ("bitmap/rank.go", "func IndexRank128(words []uint64) []int32 {\n", "func IndexRank128(words []uint64) []int32 {\n\tmasksOnce.Do(initMasks)\n"),
]
MUTANTS.append(dict(prop="C01", name="C01-lz-masks-built-by-index-builders-only", edits=_lz_masks))
MUTANTS.append(dict(prop="C14", name="C14-lz-masks-built-by-index-builders-only", edits=_lz_masks))
MUTANTS.append(dict(prop="C13", name="C13-lz-masks-built-by-index-builders-only", edits=_lz_masks))
_lz_sel = [
    ("bitmap/bitmap.go", "func init() {\n\tinitMasks()\n\tinitSelectLookup()\n}", "func init() {\n\tinitMasks()\n}"),
    ("bitmap/select.go", "import (\n\t\"fmt\"\n\t\"math/bits\"\n)\n", "import (\n\t\"fmt\"\n\t\"math/bits\"\n\t\"sync\"\n)\n\nvar selOnce sync.Once\n"),
    ("bitmap/select.go", "func IndexSelect32(words []uint64) []int32 {\n", "func IndexSelect32(words []uint64) []int32 {\n\tselOnce.Do(initSelectLookup)\n"),
    ("bitmap/select.go", "func IndexSelect32R64(words []uint64) ([]int32, []int32) {\n", "func IndexSelect32R64(words []uint64) ([]int32, []int32) {\n\tselOnce.Do(initSelectLookup)\n"),
]
MUTANTS.append(dict(prop="C02", name="C02-lz-select-lookup-built-by-index-builders-only", edits=_lz_sel))

# ---- TOP: each of the six int32-overflow repairs of session 3 undone again (the families at the top of the int32 domain
# must report them as they did on the unrepaired tree)
M("C09", "top-new-tobyte-int32", "bitstr/bitstr.go", "toByte := int32((int64(toBit) + 7) >> 3)", "toByte := (toBit + 7) >> 3")
M("C01", "top-rank128-i-plus-64-int32", "bitmap/rank.go", "n := rindex[(uint32(i)+64)>>7]", "n := rindex[(i+64)>>7]")
M("C11", "top-fromstr32-tobyte-int32", "bitmap/fromstr32.go", "toByte := (int64(tobit) + 7) >> 3", "toByte := int64((tobit + 7) >> 3)")
M("C14", "top-getw-i-times-w-int32", "bitmap/get.go", "j := int64(i) * int64(w)", "j := int64(i * w)")
M("C12", "top-of-last-plus-1-int32", "bitmap/of.go", "max := int64(bitPositions[len(bitPositions)-1]) + 1", "max := int64(bitPositions[len(bitPositions)-1] + 1)")
M("C12", "top-toarray-bound-int32", "bitmap/toarray.go", "l := len(words) * 64", "l := int(int32(len(words) * 64))")
