#!/usr/bin/env python3
"""Mutation self-test of the monitors (not a registered check).

For every mutant in mutants.py: copy /repo's working tree to a scratch dir outside /repo and /verif,
apply the single edit, confirm the touched package still builds and its pinned tests still pass,
run ./check <prop> quick (then thorough if asked) with VERIF_REPO/VERIF_OUT pointing at the scratch
dirs, and expect exit 1 with a VIOLATION line. Scratch dirs are removed afterwards.

usage: run.py [-j N] [--thorough] [--keep] [name-or-prop-substring ...]
"""
import os, sys, subprocess, shutil, json, time, concurrent.futures as cf

HERE = os.path.dirname(os.path.abspath(__file__))
VERIF = os.path.dirname(HERE)
SCRATCH = os.environ.get("VST_SCRATCH", "/tmp/vst")
ENV = dict(os.environ, GOFLAGS="-mod=mod", GOPROXY="off", GOSUMDB="off", GOTOOLCHAIN="local")

sys.path.insert(0, HERE)
from mutants import MUTANTS  # list of dicts: name, prop, file, old, new, [expect], [count]


def run_one(m, thorough=False, keep=False, replay=False):
    name = m["name"]
    root = os.path.join(SCRATCH, name)
    shutil.rmtree(root, ignore_errors=True)
    repo = os.path.join(root, "low")
    out = os.path.join(root, "out")
    os.makedirs(out)
    subprocess.run(["rsync", "-a", "--exclude", ".git", "/repo/", repo + "/"], check=True)
    res = {"name": name, "prop": m["prop"], "expect": m.get("expect", "caught")}
    try:
        edits = m.get("edits") or [(m["file"], m["old"], m["new"])]
        for (f, old, new) in edits:
            p = os.path.join(repo, f)
            if old == "":  # a new file
                open(p, "w").write(new)
                continue
            s = open(p).read()
            if s.count(old) != m.get("count", 1):
                res["status"] = "BAD-MUTANT (pattern occurs %d times in %s)" % (s.count(old), f)
                return res
            open(p, "w").write(s.replace(old, new))
        pkgs = sorted({"./" + os.path.dirname(f) + "/" for (f, _, _) in edits})
        t = subprocess.run(["go", "test", "-vet=off", "-count=1"] + pkgs, cwd=repo, env=ENV, capture_output=True, text=True, errors="replace")
        res["suite"] = "pass" if t.returncode == 0 else "FAIL"
        if t.returncode != 0:
            res["suite_out"] = (t.stdout + t.stderr)[-600:]
        env = dict(ENV, VERIF_REPO=repo, VERIF_OUT=out)
        tiers = ["quick"] + (["thorough"] if thorough else [])
        for tier in tiers:
            t0 = time.time()
            c = subprocess.run([os.path.join(VERIF, "check"), m["prop"], tier], cwd=VERIF, env=env, capture_output=True, text=True, errors="replace")
            res[tier] = {"exit": c.returncode, "s": round(time.time() - t0, 1),
                         "lines": [l for l in c.stdout.splitlines() if l.startswith(("VIOLATION", "  sig=", "INCONCLUSIVE", "KNOWN"))][:4]}
            if c.returncode == 1:
                # the witness must replay: ./check <prop> --replay <file> has to report the violation again
                rp = [l.split("replay=")[1].strip() for l in c.stdout.splitlines() if l.startswith("VIOLATION") and "replay=" in l]
                if rp and replay:
                    r2 = subprocess.run([os.path.join(VERIF, "check"), m["prop"], "--replay", rp[0]], cwd=VERIF, env=env, capture_output=True, text=True, errors="replace")
                    res["replay_exit"] = r2.returncode
                break
        caught = any(res.get(t, {}).get("exit") == 1 for t in tiers)
        res["status"] = "caught" if caught else "MISSED"
    finally:
        if not keep:
            shutil.rmtree(root, ignore_errors=True)
    return res


def main():
    args = sys.argv[1:]
    j = 3
    thorough = keep = replay = False
    sel = []
    while args:
        a = args.pop(0)
        if a == "-j":
            j = int(args.pop(0))
        elif a == "--thorough":
            thorough = True
        elif a == "--keep":
            keep = True
        elif a == "--replay":
            replay = True
        else:
            sel.append(a)
    ms = [m for m in MUTANTS if not sel or any(s in m["name"] or s == m["prop"] for s in sel)]
    os.makedirs(SCRATCH, exist_ok=True)
    results = []
    with cf.ThreadPoolExecutor(max_workers=j) as ex:
        for r in ex.map(lambda m: run_one(m, thorough, keep, replay), ms):
            results.append(r)
            ok = (r["status"] == r["expect"]) or (r["expect"] == "equivalent" and r["status"] == "MISSED")
            sig = ""
            for t in ("quick", "thorough"):
                for l in r.get(t, {}).get("lines", []):
                    if l.startswith("  sig="):
                        sig = l.split()[0]
                        break
            rep = ""
            if "replay_exit" in r:
                rep = " replay=ok" if r["replay_exit"] == 1 else " REPLAY-DID-NOT-REPRODUCE(exit %d)" % r["replay_exit"]
            print("%-4s %-40s suite=%-5s %-10s %s %s %s%s" % (r["prop"], r["name"], r.get("suite", "?"), r["status"],
                  "" if ok else "<== UNEXPECTED", sig, r.get("quick", {}).get("s", ""), rep), flush=True)
            if r["status"] not in ("caught",) and not ok:
                for t in ("quick", "thorough"):
                    for l in r.get(t, {}).get("lines", []):
                        print("        ", l[:300])
    json.dump(results, open(os.path.join(HERE, "last_results.json"), "w"), indent=1)
    bad = [r for r in results if not ((r["status"] == r["expect"]) or (r["expect"] == "equivalent" and r["status"] == "MISSED"))]
    print("mutants: %d, unexpected: %d" % (len(results), len(bad)))
    try:
        os.rmdir(SCRATCH)
    except OSError:
        pass
    return 1 if bad else 0


if __name__ == "__main__":
    sys.exit(main())
